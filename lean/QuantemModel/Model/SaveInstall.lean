/-
Model of `_install()` and `_discard()` of `AutoSerialize.save` (C08) at the level of the KIND of
directory entry they meet (file, empty / non-empty directory, symbolic link to a directory / to a
file / to nothing, nothing), with the failure semantics of the primitives they call
(`os.remove`, `shutil.rmtree`, `os.replace`, `os.path.isdir/islink/lexists`).  The primitives are
compared with the real filesystem on every run (stream `fs-primitives`); the two helpers are
written branch by branch from the source.  Core Lean only.
-/
namespace QuantemModel.SaveInstall

inductive Kind where
  | file
  | dir (empty : Bool)
  | link (toDir : Bool) (dangling : Bool)   -- a symbolic link: to a directory, to a file, or (dangling) to nothing
  deriving DecidableEq, Repr, Inhabited

/-- a path: `none` = nothing there -/
abbrev Ent := Option Kind

/-- `os.path.isdir(p)` (follows links) -/
def isdir : Ent → Bool
  | some (.dir _) => true
  | some (.link true false) => true
  | _ => false
/-- `os.path.islink(p)` -/
def islink : Ent → Bool
  | some (.link _ _) => true
  | _ => false
/-- `os.path.lexists(p)` -/
def lexists : Ent → Bool
  | some _ => true
  | .none => false
/-- `os.path.exists(p)` (follows links: false for a dangling link) -/
def pexists : Ent → Bool
  | some (.link _ true) => false
  | some _ => true
  | .none => false

/-- `os.remove(p)`: the entry afterwards, or the exception -/
def osRemove : Ent → Except String Ent
  | .none => .error "FileNotFoundError"
  | some (.dir _) => .error "IsADirectoryError"
  | some _ => .ok .none

/-- `shutil.rmtree(p)` -/
def rmtree : Ent → Except String Ent
  | .none => .error "FileNotFoundError"
  | some (.dir _) => .ok .none
  | some .file => .error "NotADirectoryError"
  | some (.link _ false) => .error "OSError"   -- "Cannot call rmtree on a symbolic link"
  | some (.link _ true) => .error "FileNotFoundError"   -- CPython opens the path before it looks at the link

/-- `shutil.rmtree(p, ignore_errors=True)` -/
def rmtreeIgnore (e : Ent) : Ent :=
  match rmtree e with
  | .ok e' => e'
  | .error _ => e

/-- `os.replace(src, dst)`: (src, dst) afterwards, or the exception.  A link at `dst` is replaced
itself (never followed). -/
def osReplace (src dst : Ent) : Except String (Ent × Ent) :=
  match src, dst with
  | .none, _ => .error "FileNotFoundError"
  | some s, .none => .ok (.none, some s)
  | some (.dir e), some (.dir true) => .ok (.none, some (.dir e))
  | some (.dir _), some (.dir false) => .error "OSError"            -- ENOTEMPTY
  | some (.dir _), some _ => .error "NotADirectoryError"
  | some _, some (.dir _) => .error "IsADirectoryError"
  | some s, some _ => .ok (.none, some s)

/-- `_install()`:
```
if os.path.isdir(path) and not os.path.islink(path): shutil.rmtree(path)
elif os.path.lexists(path): os.remove(path)
os.replace(staged, path)
```
returns (staged, path) afterwards -/
def install (staged path : Ent) : Except String (Ent × Ent) :=
  let cleared : Except String Ent :=
    if isdir path && !islink path then rmtree path
    else if lexists path then osRemove path
    else .ok path
  match cleared with
  | .error e => .error e
  | .ok p1 => osReplace staged p1

/-- `_discard()`:
```
if os.path.isdir(staged): shutil.rmtree(staged, ignore_errors=True)
elif os.path.lexists(staged): os.remove(staged)
```
-/
def discard (staged : Ent) : Except String Ent :=
  if isdir staged then .ok (rmtreeIgnore staged)
  else if lexists staged then osRemove staged
  else .ok staged

/-- the write-once guard `os.path.lexists(path) and mode != "o"` on an entry -/
def guardRefuses (path : Ent) (modeO : Bool) : Bool := lexists path && !modeO

/-- simplified variants (what the helpers must NOT be) -/
def discardRmtreeOnly (staged : Ent) : Ent := rmtreeIgnore staged
def installNoLinkTest (staged path : Ent) : Except String (Ent × Ent) :=
  let cleared : Except String Ent :=
    if isdir path then rmtree path else if lexists path then osRemove path else .ok path
  match cleared with
  | .error e => .error e
  | .ok p1 => osReplace staged p1

end QuantemModel.SaveInstall
