import QuantemModel.Model.SerializeSkipExt
/-
C14, growth round 6: the `__attrs_attrs__` branch of `_recursive_save` / `_recursive_load`
(own file; core Lean only).

    attrs_fields = getattr(obj.__class__, "__attrs_attrs__", None)
    if attrs_fields is not None:
        items = [(field.name, getattr(obj, field.name)) for field in attrs_fields]
    else:
        items = obj.__dict__.items()

For a class built with `attrs` only the DECLARED fields are written (instance attributes that are
not fields never reach the file, with or without skip lists); the skip filter then runs over
these items exactly as over `__dict__.items()`, and nested objects are handled by the same
function.  `ClassInfo` says which classes are attrs classes and what their fields are.
`viewA ci v` is the graph as `_recursive_save` sees it.  (Every field is assumed to be set: an
unset field makes `getattr` raise AttributeError before anything is written.  The items come in
field order; here they keep the order of the instance dictionary — the stored tree and the
loaded object are compared up to key order.)

`_recursive_load` of an attrs class only accepts simple attributes whose name is a field
(`if attrs_item_names and name not in attrs_item_names: continue`): a no-op on files written
by `save`, which holds only fields.
-/
namespace QuantemModel.SerializeSkip
open QuantemModel.Serialize

/-- class name ↦ `none` (plain class: `__dict__`) | `some fields` (attrs class) -/
abbrev ClassInfo := String → Option (List String)

def keepField (fields : Option (List String)) (k : String) : Bool :=
  match fields with
  | some fs => fs.contains k
  | none => true

mutual
def viewA (ci : ClassInfo) : Val → Val
  | .obj cls attrs => .obj cls (viewAttrs ci (ci cls) attrs)
  | v => v
def viewAttrs (ci : ClassInfo) (fields : Option (List String)) : List (String × Val) → List (String × Val)
  | [] => []
  | (k, v) :: rest =>
      if keepField fields k then (k, viewA ci v) :: viewAttrs ci fields rest else viewAttrs ci fields rest
end

/-- `obj.save(path, skip=…)` for graphs that may hold attrs-class objects -/
def saveEA (ci : ClassInfo) (inst : Val → String → Bool) (sk : Skip) (v : Val) : Except Err Saved :=
  saveE inst sk (viewA ci v)

def classInfoOf (table : List (String × List String)) : ClassInfo := fun cls => table.lookup cls

end QuantemModel.SerializeSkip
