/-
Objects the CALLER keeps across later operations on a `Vector` (layer on top of Model/Vector.lean):

* held `_FieldView`s: `fv = v[name]` used again after the vector went through further operations
  (field arithmetic, assignment, `add_fields` / `remove_fields`, …).  A view stores the vector and
  the field NAME; `field_index` is a property that looks the name up in `vector._fields` AT EVERY USE
  (the repair made for this property: it used to be computed once in `__init__`, so a view held
  across `remove_fields` of an earlier field read and wrote the neighbouring column).  Because the
  property is only evaluated when a populated cell is visited, a view whose field has disappeared
  still "works" on a vector without populated cells (modelled as the code does it).
* kept flattened arrays: `F = fv.flatten()` (`np.concatenate` / `np.empty`: a NEW array that shares
  no storage with the cells) held by the caller, possibly modified by the caller, possibly written
  back later with `fv.set_flattened(F)`.

Core Lean only; executable (Driver/C11.lean runs `vstep`).
-/
import QuantemModel.Model.Vector

namespace QuantemModel.Vector

/-- a held `_FieldView`: `self.vector`, `self.field_name` -/
structure FView where
  vid : Nat
  name : String
  deriving Repr, Inhabited, DecidableEq

structure VState where
  s : State := {}
  views : List FView := []
  /-- 1-D arrays handed out by `flatten` that the caller still holds (values; dtype kind) -/
  kept : List (List Rat × Bool) := []
  deriving Inhabited

inductive VOp where
  | base (op : Op)
  | mkView (v : Nat) (name : String)          -- fv = v[name]
  | viewFlatten (k : Nat)                     -- F = fv.flatten() / np.asarray(fv); the caller keeps F
  | viewOp (k : Nat) (g : Rat → Rat → Rat) (negIntPow : Bool) (rhs : Rhs)   -- fv op= rhs  (no re-assignment)
  | viewSet (k : Nat) (vals : FlatVal)        -- fv.set_flattened(x)
  | viewRestore (k i : Nat)                   -- fv.set_flattened(F_i)
  | viewGet (k : Nat) (idx : List Ix)         -- fv[idx]
  | keptMap (i : Nat) (f : Rat → Rat)         -- the caller changes F_i in place:  F_i[:] = f(F_i)

inductive VRes where
  | res (r : Res)
  | newView (k : Nat)
  deriving Inhabited

/-- does the recursive walk over `_data` meet an ndarray at all? (`field_index` is only evaluated then) -/
def hasPopulated (heap : List Arr) (cells : List (Option Ref)) : Bool :=
  cells.any fun c => match c with
    | some r => (heap[r]?).isSome
    | none => false

/-- `_FieldView.flatten()` of a held view: values and dtype kind.  Field gone: `KeyError` from the
`field_index` property at the first populated cell; without populated cells the empty float array. -/
def viewFlat (s : State) (fv : FView) : Except Err (List Rat × Bool) :=
  match s.getVec fv.vid with
  | .error e => .error e
  | .ok v => match fieldIndex v fv.name with
    | .ok j => .ok (flattenField s.heap v.cells j, flattenIsInt s.heap v.cells)
    | .error e => if hasPopulated s.heap v.cells then .error e else .ok ([], false)

/-- `fv.__iop__(rhs)` on a held view: `_apply_op` only (the re-assignment `v[name] = fv` of the
statement form `v[name] op= rhs` does not happen here). -/
def viewApply (s : State) (fv : FView) (g : Rat → Rat → Rat) (negIntPow : Bool) (rhs : Rhs) : State × Res :=
  match s.getVec fv.vid with
  | .error e => (s, .err e)
  | .ok v =>
    let rhsR : Except Err RhsR := match rhs with
      | .scalar c => .ok (.scalar c)
      | .array ys => .ok (.array ys)
      | .field w nm => match s.getVec w with       -- `w[nm]` is built before the call: KeyError if absent
          | .error e => .error e
          | .ok wv => match fieldIndex wv nm with
            | .error e => .error e
            | .ok jw => .ok (.field wv.cells jw)
    match rhsR with
    | .error e => (s, .err e)
    | .ok r =>
      match fieldIndex v fv.name with
      | .error e => if hasPopulated s.heap v.cells then (s, .err e) else (s, .none)
      | .ok j =>
        match applyGen j g negIntPow r s.heap v.cells with
        | (heap', some e) => ({ s with heap := heap' }, .err e)
        | (heap', none) => ({ s with heap := heap' }, .none)

/-- `fv.set_flattened(values)` on a held view -/
def viewSetFlat (s : State) (fv : FView) (vals : FlatVal) : State × Res :=
  match s.getVec fv.vid with
  | .error e => (s, .err e)
  | .ok v =>
    match vals with
    | .notOneD => (s, .err .valueError)          -- checked before `self.flatten()` is called
    | .oneD xs =>
      match fieldIndex v fv.name with
      | .ok j => setFlat s v j (.oneD xs)
      | .error e =>
        -- expected = self.flatten().shape[0]
        if hasPopulated s.heap v.cells then (s, .err e)
        else if xs.length ≠ 0 then (s, .err .valueError) else (s, .none)

/-- `fv[idx]`: `sub = self.vector[idx]`, then `sub[self.field_name]` (a view on the sub-vector),
`sub[:, self.field_index]`, or `None`.  With the field gone both lookups raise `KeyError`; the
sub-vector that was built is garbage and not kept in the state. -/
def viewGetItem (s : State) (fv : FView) (idx : List Ix) : State × Res :=
  match s.getVec fv.vid with
  | .error e => (s, .err e)
  | .ok v => match fieldIndex v fv.name with
    | .ok _ => opFieldGet s fv.vid fv.name idx
    | .error e =>
      match opGetItem s fv.vid idx with
      | (_, .newVec _) => (s, .err e)
      | (_, .cell (some _)) => (s, .err e)
      | (_, .np (.arr2 _ _ _)) => (s, .err e)
      | (_, .np (.arr1 _ _)) => (s, .err e)
      | (_, .np (.scalar _ _)) => (s, .cell none)
      | (_, .cell none) => (s, .cell none)
      | (_, r) => (s, r)

def vstep (st : VState) : VOp → VState × VRes
  | .base op =>
      let r := step st.s op
      ({ st with s := r.1 }, .res r.2)
  | .mkView v name =>       -- Vector.__getitem__(str): `if idx not in self._fields: raise KeyError`
      match st.s.getVec v with
      | .error e => (st, .res (.err e))
      | .ok vec => match fieldIndex vec name with
        | .error e => (st, .res (.err e))
        | .ok _ => ({ st with views := st.views ++ [⟨v, name⟩] }, .newView st.views.length)
  | .viewFlatten k =>
      match st.views[k]? with
      | none => (st, .res (.err .badHandle))
      | some fv => match viewFlat st.s fv with
        | .error e => (st, .res (.err e))
        | .ok (xs, t) => ({ st with kept := st.kept ++ [(xs, t)] }, .res (.np (.arr1 xs t)))
  | .viewOp k g neg rhs =>
      match st.views[k]? with
      | none => (st, .res (.err .badHandle))
      | some fv =>
        let r := viewApply st.s fv g neg rhs
        ({ st with s := r.1 }, .res r.2)
  | .viewSet k vals =>
      match st.views[k]? with
      | none => (st, .res (.err .badHandle))
      | some fv =>
        let r := viewSetFlat st.s fv vals
        ({ st with s := r.1 }, .res r.2)
  | .viewRestore k i =>
      match st.views[k]?, st.kept[i]? with
      | some fv, some (xs, _) =>
        let r := viewSetFlat st.s fv (.oneD xs)
        ({ st with s := r.1 }, .res r.2)
      | _, _ => (st, .res (.err .badHandle))
  | .viewGet k idx =>
      match st.views[k]? with
      | none => (st, .res (.err .badHandle))
      | some fv =>
        let r := viewGetItem st.s fv idx
        ({ st with s := r.1 }, .res r.2)
  | .keptMap i f =>
      match st.kept[i]? with
      | none => (st, .res (.err .badHandle))
      | some (xs, t) => ({ st with kept := st.kept.set i (xs.map f, t) }, .res .none)

def vrun (st : VState) (ops : List VOp) : VState := ops.foldl (fun st op => (vstep st op).1) st

def vinit : VState := {}

/-! ### the code BEFORE the repair (kept for the counterexample theorem only; not run by the driver)

`self.field_index = vector._fields.index(field_name)` was evaluated once, in `__init__`. -/

structure StaleView where
  vid : Nat
  name : String
  index : Nat              -- captured when the view was made

/-- `flatten()` of the old `_FieldView`: the column at the CAPTURED index, whatever it is called now -/
def staleFlat (s : State) (fv : StaleView) : List Rat :=
  match s.getVec fv.vid with
  | .error _ => []
  | .ok v => flattenField s.heap v.cells fv.index

end QuantemModel.Vector
