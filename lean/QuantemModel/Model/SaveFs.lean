import QuantemModel.Model.Serialize
/-
Model of the filesystem protocol of `AutoSerialize.save` (C08), core Lean only.

A save is the *sequence of primitive effects* the code performs, in order; a fault is an
exception raised by the k-th of them (the harness injects exactly those).  The filesystem
is an association list from paths to what `load` would find there.
-/
namespace QuantemModel.SaveFs
open QuantemModel.Serialize

/-- what sits at a path, from `load`'s point of view -/
inductive Content where
  | complete (id : Nat)        -- a complete object written by save number `id`
  | partialObj (id : Nat) (k : Nat)   -- an object tree / archive after `k` of its writes
  | foreign (id : Nat)         -- any other file or directory
  deriving DecidableEq, Repr, Inhabited

abbrev Fs := List (String × Content)

def fsGet (fs : Fs) (p : String) : Option Content :=
  match fs with
  | [] => .none
  | (q, c) :: rest => if q = p then some c else fsGet rest p

def fsSet (fs : Fs) (p : String) (c : Content) : Fs :=
  match fs with
  | [] => [(p, c)]
  | (q, c') :: rest => if q = p then (p, c) :: rest else (q, c') :: fsSet rest p c

def fsErase (fs : Fs) (p : String) : Fs :=
  match fs with
  | [] => []
  | (q, c') :: rest => if q = p then rest else (q, c') :: fsErase rest p

/-- primitive, individually fallible effects of one `save` call -/
inductive Step where
  | stageOpen        -- `os.makedirs(staged)` (dir) / `ZipFile(staged, "w")` (zip)
  | tmpWrite         -- a write into the system temp dir of the zip store (not in our namespace)
  | stageWrite       -- one attr / array / bytes / group write (dir) or one `zf.write` (zip) into staged
  | stageFinish      -- last write: `write_skip_metadata` (dir) / archive close (zip): staged is complete
  | removeOld        -- `_install`: rmtree / remove of an existing target
  | replace          -- `_install`: `os.replace(staged, path)`
  deriving DecidableEq, Repr, Inhabited

structure Cfg where
  target : String
  staged : String
  id : Nat            -- identity of this save (which object graph / call)
  deriving Repr, Inhabited

/-- effect of a step that completed -/
def exec (c : Cfg) (fs : Fs) : Step → Fs
  | .stageOpen => fsSet fs c.staged (.partialObj c.id 0)
  | .tmpWrite => fs
  | .stageWrite =>
      match fsGet fs c.staged with
      | some (.partialObj i k) => fsSet fs c.staged (.partialObj i (k + 1))
      | _ => fs
  | .stageFinish => fsSet fs c.staged (.complete c.id)
  | .removeOld => fsErase fs c.target
  | .replace =>
      match fsGet fs c.staged with
      | some x => fsErase (fsSet fs c.target x) c.staged
      | .none => fs

/-- `except BaseException: _discard(); raise` -/
def discard (c : Cfg) (fs : Fs) : Fs := fsErase fs c.staged

/-- run the steps; `fault = some k` makes the k-th step (0-based) raise instead of acting.
Returns the final filesystem and whether the call raised. -/
def run (c : Cfg) : Fs → List Step → Option Nat → Fs × Bool
  | fs, [], _ => (fs, false)
  | fs, _ :: _, some 0 => (discard c fs, true)
  | fs, s :: rest, some (k + 1) => run c (exec c fs s) rest (some k)
  | fs, s :: rest, .none => run c (exec c fs s) rest .none

/-- staging: everything is written next to the target -/
def stagePart (zip : Bool) (nTmp nWrites : Nat) : List Step :=
  (if zip then List.replicate nTmp Step.tmpWrite else []) ++
  ([Step.stageOpen] ++ (List.replicate nWrites Step.stageWrite ++ [Step.stageFinish]))

/-- `_install()` -/
def installPart (targetExists : Bool) : List Step :=
  (if targetExists then [Step.removeOld] else []) ++ [Step.replace]

/-- the step list of the code as it is: staging, then install -/
def steps (zip : Bool) (nTmp nWrites : Nat) (targetExists : Bool) : List Step :=
  stagePart zip nTmp nWrites ++ installPart targetExists

inductive Outcome where
  | raisedBeforeAnyEffect (e : String)
  | ran (fs : Fs) (raised : Bool)
  deriving Repr

/-- `save(path, mode, store, compression_level)` up to the first effect: validation and the
write-once check happen before anything is touched -/
def save (c : Cfg) (fs : Fs) (modeO levelOk dirHasExt zip : Bool) (nTmp nWrites : Nat) (fault : Option Nat) : Outcome :=
  if !levelOk then .raisedBeforeAnyEffect "ValueError"
  else if (fsGet fs c.target).isSome && !modeO then .raisedBeforeAnyEffect "FileExistsError"
  else if !zip && dirHasExt then .raisedBeforeAnyEffect "ValueError"
  else
    let r := run c fs (steps zip nTmp nWrites (fsGet fs c.target).isSome) fault
    .ran r.1 r.2

/-! ### histories of calls -/

/-- one `save(...)` call of a history: its configuration, options and (possibly) the
position at which an exception strikes -/
structure Call where
  cfg : Cfg
  modeO : Bool
  levelOk : Bool
  dirHasExt : Bool
  zip : Bool
  nTmp : Nat
  nWrites : Nat
  fault : Option Nat

def Call.outcome (fs : Fs) (k : Call) : Outcome :=
  save k.cfg fs k.modeO k.levelOk k.dirHasExt k.zip k.nTmp k.nWrites k.fault

/-- the filesystem after the call -/
def Call.apply (fs : Fs) (k : Call) : Fs :=
  match k.outcome fs with
  | .raisedBeforeAnyEffect _ => fs
  | .ran fs' _ => fs'

/-- the call returned normally -/
def Call.succeeded (fs : Fs) (k : Call) : Bool :=
  match k.outcome fs with
  | .raisedBeforeAnyEffect _ => false
  | .ran _ raised => !raised

def runCalls (fs : Fs) (ks : List Call) : Fs := ks.foldl Call.apply fs

/-- the ids of the calls of a history that returned normally -/
def succeededIds : Fs → List Call → List Nat
  | _, [] => []
  | fs, k :: rest => (if k.succeeded fs then [k.cfg.id] else []) ++ succeededIds (k.apply fs) rest


end QuantemModel.SaveFs
