/-
C05 — protocol-level model of checkpoint / resume for iterative ptychography.  Core Lean only.

Anchors: diffractive_imaging/ptychography.py (`reconstruct`, `_record_iter`, `save`, `from_file`,
`clone`), ptychography_opt.py (`optimizers`, `step_optimizers`, `step_schedulers`),
core/ml/optimizer_mixin.py (`reconnect_optimizer_to_parameters`), core/io/serialize.py (through
Model/Serialize.lean — imported, not copied).

What is concrete:
* the torch-style optimizer of one model: its parameter list (`param_groups[0]["params"]`,
  tensor identities in order), its `state` dict keyed by tensor identity in insertion order, lr;
* `reconnect` = `reconnect_optimizer_to_parameters` as the code is now (state re-bound by
  parameter: same tensor, else same position of the previous param group) and
  `reconnectPositional` = the code before commit 669ceed (i-th state entry ↦ i-th parameter);
* `recordIter` = `_record_iter` (LR history per optimizer, zero back-fill, 0.0 for removed);
* the attribute view of a Ptychography object as a C01 value (`toVal`), `save` = skip-list
  projection ∘ `Serialize.save`, `fromFile` = `Serialize.load` ∘ `ofVal`, `clone` = deepcopy
  failed → save(raw) / from_file / `.to(device)`.
What is abstract (parameters of every theorem): the full-batch loss, which parameter receives a
gradient, the per-parameter optimizer update, the scheduler (`Step`); what `torch.save` /
`torch.load` do to a whole module (`Pickle`: an encoding of the module state into the opaque
token of the serializer model, with the law `dec (enc m) = some m` as its only assumption).
-/
import QuantemModel.Model.SerializeSpec

namespace QuantemModel.Checkpoint
open QuantemModel.Serialize (Val Scalar Skip Saved)

/-- identity of a parameter tensor -/
abbrev PId := Nat

/-! ### insertion-ordered dicts -/

def lookup {κ ν : Type} [DecidableEq κ] (k : κ) : List (κ × ν) → Option ν
  | [] => none
  | (k', v) :: rest => if k' = k then some v else lookup k rest

/-- `d[k] = v` on an insertion-ordered dict -/
def setKey {κ ν : Type} [DecidableEq κ] (k : κ) (v : ν) : List (κ × ν) → List (κ × ν)
  | [] => [(k, v)]
  | (k', v') :: rest => if k' = k then (k, v) :: rest else (k', v') :: setKey k v rest

def idxOf (k : PId) : List PId → Option Nat
  | [] => none
  | p :: rest => if p = k then some 0 else (idxOf k rest).map (· + 1)

/-! ### optimizer and its re-binding -/

/-- a torch optimizer as far as checkpointing sees it -/
structure Optim (μ : Type) where
  /-- `param_groups[0]["params"]`: tensor identities, in order -/
  params : List PId
  /-- `optimizer.state`: insertion-ordered dict keyed by tensor identity (Adam moments + step,
  SGD momentum buffer); parameters that never received a gradient have no entry -/
  state : List (PId × μ)
  /-- `param_groups[0]["lr"]` (IEEE bits) -/
  lr : Nat
  /-- optimizer class and remaining hyper-parameters (opaque code) -/
  hyper : Nat
  deriving Repr, DecidableEq

/-- the parameter a state entry keyed by `k` is re-bound to:
`next(i for p in optimizable_params if p is old_param)`, else the position of `old_param` in the
previous param group, else dropped -/
def target (cur old : List PId) (k : PId) : Option PId :=
  if cur.contains k then some k
  else match idxOf k old with
    | some i => cur[i]?
    | none => none

/-- `for old_param, st in old_state.items(): new_state[target] = st` -/
def rekey {μ : Type} (cur old : List PId) : List (PId × μ) → List (PId × μ) → List (PId × μ)
  | [], acc => acc
  | (k, m) :: rest, acc =>
      match target cur old k with
      | some k' => rekey cur old rest (setKey k' m acc)
      | none => rekey cur old rest acc

/-- `reconnect_optimizer_to_parameters` (current code); `none`: "No optimizable parameters
found … removing optimizer".  lr / hyper-parameters are restored from the old param group. -/
def reconnect {μ : Type} (cur : List PId) (o : Optim μ) : Option (Optim μ) :=
  if cur.isEmpty then none
  else some { o with params := cur, state := rekey cur o.params o.state [] }

/-- the code before the repair: `for i, old_param in enumerate(old_state.keys()):
if i < len(params): new_state[params[i]] = old_state[old_param]` -/
def reconnectPositional {μ : Type} (cur : List PId) (o : Optim μ) : Option (Optim μ) :=
  if cur.isEmpty then none
  else some { o with params := cur, state := cur.zip (o.state.map (·.2)) }

/-! ### LR bookkeeping (`_record_iter`) -/

structure Book where
  /-- `_iter_losses` (IEEE bits) -/
  iterLosses : List Nat
  /-- `_iter_lrs`: key ↦ LR per iteration -/
  iterLrs : List (String × List Nat)
  deriving Repr, DecidableEq

def Book.empty : Book := ⟨[], []⟩

/-- `num_iters = len(self.iter_losses)` -/
def Book.numIters (b : Book) : Nat := b.iterLosses.length

def hasKey {ν : Type} (k : String) (d : List (String × ν)) : Bool := d.any (·.1 == k)

/-- `_record_iter(iter_loss)` with `optimizers = opts` (key ↦ current lr; +0.0 has bits 0):
existing key, optimizer present → append its lr; existing key, optimizer gone → append 0.0;
new key → `[0.0] * (num_iters - 1) + [lr]` -/
def recordIter (opts : List (String × Nat)) (loss : Nat) (b : Book) : Book :=
  { iterLosses := b.iterLosses ++ [loss],
    iterLrs := b.iterLrs.map (fun kl => (kl.1, kl.2 ++ [(lookup kl.1 opts).getD 0])) ++
      (opts.filter (fun kv => !hasKey kv.1 b.iterLrs)).map
        (fun kv => (kv.1, List.replicate b.iterLosses.length 0 ++ [kv.2])) }

inductive BookEv where
  | record (opts : List (String × Nat)) (loss : Nat)
  | reset                                      -- `reset_recon`: `_iter_losses = []; _iter_lrs = {}`
  deriving Repr

def Book.apply (b : Book) : BookEv → Book
  | .record opts loss => recordIter opts loss b
  | .reset => Book.empty

def Book.run (b : Book) (evs : List BookEv) : Book := evs.foldl Book.apply b

def Book.inv (b : Book) : Bool := b.iterLrs.all (fun kl => kl.2.length == b.iterLosses.length)

/-! ### the reconstruction state -/

/-- how `set_optimizer` treats a stored `_optimizer_params` dict -/
inductive OptKind where
  | ok        -- "adam" / "adamw" / "sgd" (any case) or an optimizer class, keywords the optimizer accepts
  | none_     -- `"type": "none"`: `remove_optimizer()`
  | unknown   -- any other type string: `NotImplementedError`
  | badkw     -- a keyword the optimizer class rejects: `TypeError` from torch
  deriving Repr, DecidableEq

/-- a stored `_optimizer_params` dict: its classification, the remaining hyper-parameters (opaque code), `"lr"` (IEEE bits) -/
structure OptCfg where
  kind : OptKind
  hyper : Nat
  lr : Nat
  deriving Repr, DecidableEq

/-- one of the three models (object / probe / dataset): an `nn.Module` that carries its own
optimizer, scheduler and constraints and is pickled as a whole -/
structure ModelSt (θ μ σ : Type) where
  /-- `get_optimization_parameters()`: identity and value, in order -/
  params : List (PId × θ)
  opt : Option (Optim μ)
  sched : Option σ
  /-- `_constraints` (values as opaque codes) -/
  cons : List (String × Nat)
  /-- `_optimizer_params` (`{}` = `none`): what `reset_optimizer` / `set_optimizers` rebuild from.  It is stored
  BEFORE the optimizer is built, so a rejected configuration stays here -/
  optCfg : Option OptCfg := none
  /-- `_scheduler_params` (`{}` = `none`; validated before it is stored): `(is "none", opaque code)` -/
  schedCfg : Option (Bool × Nat) := none
  /-- the values `reset()` restores (`initial_obj`, `_initial_probe`, initial positions / descan) -/
  init : List θ := []
  /-- per parameter: `reset()` writes the initial value into the EXISTING tensor (`self._x.data = …`: probe tilt, scan
  positions, descan shifts) instead of creating a new `nn.Parameter` (object, probe); missing entries = new tensor -/
  keepId : List Bool := []

structure Recon (θ μ σ : Type) where
  object : ModelSt θ μ σ
  probe : ModelSt θ μ σ
  dataset : ModelSt θ μ σ
  book : Book
  /-- plain attributes carried along (`_verbose`, `_batch_size`, `_preprocessed`, `_device`) -/
  verbose : Int
  batchSize : Int
  preprocessed : Bool
  device : String

def Recon.numIters {θ μ σ : Type} (r : Recon θ μ σ) : Nat := r.book.numIters

/-- what the forward pass sees: parameter values and constraints of every model -/
abbrev View (θ : Type) := List (String × List (PId × θ) × List (String × Nat))

def Recon.view {θ μ σ : Type} (r : Recon θ μ σ) : View θ :=
  [("object", r.object.params, r.object.cons), ("probe", r.probe.params, r.probe.cons),
   ("dataset", r.dataset.params, r.dataset.cons)]

/-- the abstract full-batch step -/
structure Step (θ γ μ σ : Type) where
  /-- full-batch loss (IEEE bits) at the current values -/
  loss : View θ → Nat
  /-- gradient reaching parameter `p` of model `key`; `none`: `.grad is None` -/
  grad : View θ → String → PId → Option γ
  /-- torch optimizers update parameter by parameter: hyper, lr, previous state, value,
  gradient ↦ new state (`none`: the optimizer keeps no state, plain SGD), new value -/
  upd : Nat → Nat → Option μ → θ → γ → Option μ × θ
  /-- scheduler step: state, loss, lr ↦ new state, new lr -/
  sched : σ → Nat → Nat → σ × Nat

/-- `optimizer.step()` over the parameters of one model: parameters outside the optimizer's
param group or without gradient are skipped (no state entry is created for them) -/
def stepParams {θ γ μ σ : Type} (S : Step θ γ μ σ) (v : View θ) (key : String) (o : Optim μ) :
    List (PId × θ) → List (PId × μ) → List (PId × θ) × List (PId × μ)
  | [], st => ([], st)
  | (p, x) :: rest, st =>
      if o.params.contains p then
        match S.grad v key p with
        | none => let r := stepParams S v key o rest st; ((p, x) :: r.1, r.2)
        | some g =>
            let u := S.upd o.hyper o.lr (lookup p st) x g
            let st1 := match u.1 with | some s => setKey p s st | none => st
            let r := stepParams S v key o rest st1
            ((p, u.2) :: r.1, r.2)
      else let r := stepParams S v key o rest st; ((p, x) :: r.1, r.2)

def stepModel {θ γ μ σ : Type} (S : Step θ γ μ σ) (v : View θ) (key : String) (m : ModelSt θ μ σ) : ModelSt θ μ σ :=
  match m.opt with
  | none => m
  | some o =>
      let r := stepParams S v key o m.params o.state
      { m with params := r.1, opt := some { o with state := r.2 } }

/-- `step_scheduler(loss)`: only if the model has a scheduler (a scheduler needs an optimizer) -/
def schedModel {θ γ μ σ : Type} (S : Step θ γ μ σ) (loss : Nat) (m : ModelSt θ μ σ) : ModelSt θ μ σ :=
  match m.opt, m.sched with
  | some o, some s =>
      let r := S.sched s loss o.lr
      { m with opt := some { o with lr := r.2 }, sched := some r.1 }
  | _, _ => m

/-- `self.optimizers`: key ↦ lr for the models that have an optimizer -/
def optLrs {θ μ σ : Type} (ms : List (String × ModelSt θ μ σ)) : List (String × Nat) :=
  ms.filterMap (fun km => km.2.opt.map (fun o => (km.1, o.lr)))

/-- one iteration of the `reconstruct` loop (full batch): forward + backward at the current
values, `step_optimizers`, `_record_iter(total_loss)`, `step_schedulers(total_loss)` -/
def iter {θ γ μ σ : Type} (S : Step θ γ μ σ) (r : Recon θ μ σ) : Recon θ μ σ :=
  let v := r.view
  let ℓ := S.loss v
  let o := stepModel S v "object" r.object
  let p := stepModel S v "probe" r.probe
  let d := stepModel S v "dataset" r.dataset
  { r with
    object := schedModel S ℓ o, probe := schedModel S ℓ p, dataset := schedModel S ℓ d,
    book := recordIter (optLrs [("object", o), ("probe", p), ("dataset", d)]) ℓ r.book }

/-! ### device moves -/

/-- `model.to(device)`: `nn.Module.to` keeps the Parameter objects, then
`reconnect_optimizer_to_parameters()` with the current parameter list -/
def toModel {θ μ σ : Type} (rc : List PId → Optim μ → Option (Optim μ)) (m : ModelSt θ μ σ) : ModelSt θ μ σ :=
  match m.opt with
  | none => m
  | some o =>
      match rc (m.params.map (·.1)) o with
      | some o' => { m with opt := some o' }
      | none => { m with opt := none, sched := none }     -- `remove_optimizer()`

/-- `Ptychography.to(device)` -/
def toDevice {θ μ σ : Type} (rc : List PId → Optim μ → Option (Optim μ)) (r : Recon θ μ σ) : Recon θ μ σ :=
  { r with object := toModel rc r.object, probe := toModel rc r.probe, dataset := toModel rc r.dataset }

/-! ### the attribute view and the file -/

/-- what `torch.save` / `torch.load` do to a whole module: the state becomes the opaque token of
the serializer model and comes back from it -/
structure Pickle (α : Type) where
  enc : α → Nat
  dec : Nat → Option α
  dec_enc : ∀ a, dec (enc a) = some a

def floatList (bs : List Nat) : List Val := bs.map (fun b => .scalar (.float b))

def lrsDict (d : List (String × List Nat)) : List (String × Val) := d.map (fun kl => (kl.1, .list (floatList kl.2)))

/-- the `__dict__` of a Ptychography object as a C01 value (plain attributes first: the order of
`__dict__` is irrelevant to `_recursive_load`, which restores by name) -/
def toVal {θ μ σ : Type} (pk : Pickle (ModelSt θ μ σ)) (r : Recon θ μ σ) : Val :=
  .obj "Ptychography" [
    ("_verbose", .scalar (.int r.verbose)),
    ("_batch_size", .scalar (.int r.batchSize)),
    ("_preprocessed", .scalar (.bool r.preprocessed)),
    ("_device", .scalar (.str r.device)),
    ("_dset", .torch .module "PtychographyDatasetRaster" (pk.enc r.dataset)),
    ("_rng", .npRng "PCG64"),
    ("_rng_torch", .torchRng),
    ("_iter_losses", .list (floatList r.book.iterLosses)),
    ("_iter_lrs", .dict (lrsDict r.book.iterLrs)),
    ("_probe_model", .torch .module "ProbePixelated" (pk.enc r.probe)),
    ("_obj_model", .torch .module "ObjectPixelated" (pk.enc r.object))]

def parseFloats : List Val → Option (List Nat)
  | [] => some []
  | .scalar (.float b) :: rest => (parseFloats rest).map (b :: ·)
  | _ => none

def parseLrs : List (String × Val) → Option (List (String × List Nat))
  | [] => some []
  | (k, .list xs) :: rest =>
      match parseFloats xs, parseLrs rest with
      | some l, some d => some ((k, l) :: d)
      | _, _ => none
  | _ => none

def getModule {α : Type} (pk : Pickle α) (attrs : List (String × Val)) (name : String) : Option α :=
  match lookup name attrs with
  | some (.torch .module _ tok) => pk.dec tok
  | _ => none

/-- read the state back from a loaded attribute list (`getattr` by name) -/
def ofVal {θ μ σ : Type} (pk : Pickle (ModelSt θ μ σ)) : Val → Option (Recon θ μ σ)
  | .obj "Ptychography" attrs =>
      match lookup "_verbose" attrs, lookup "_batch_size" attrs, lookup "_preprocessed" attrs, lookup "_device" attrs,
            lookup "_iter_losses" attrs, lookup "_iter_lrs" attrs,
            getModule pk attrs "_obj_model", getModule pk attrs "_probe_model", getModule pk attrs "_dset" with
      | some (.scalar (.int v)), some (.scalar (.int b)), some (.scalar (.bool p)), some (.scalar (.str dev)),
        some (.list ls), some (.dict lrs), some o, some pr, some d =>
          match parseFloats ls, parseLrs lrs with
          | some losses, some lrs' =>
              some { object := o, probe := pr, dataset := d, book := ⟨losses, lrs'⟩,
                     verbose := v, batchSize := b, preprocessed := p, device := dev }
          | _, _ => none
      | _, _, _, _, _, _, _, _, _ => none
  | _ => none

/-- `Ptychography.save(path, save_raw_data=True)`: `self.to("cpu")`, then the AutoSerialize save
of the whole object (no skip list).  (`self.to(current_device)` afterwards acts on the source
object, see `saveSource`.) -/
def save {θ μ σ : Type} (rc : List PId → Optim μ → Option (Optim μ)) (pk : Pickle (ModelSt θ μ σ))
    (r : Recon θ μ σ) : Saved :=
  Serialize.save {} (toVal pk (toDevice rc r))

/-- the skip list of `Ptychography.save(save_raw_data=False)` -/
def skipNoRaw : Skip := ⟨["_dset", "dset"], []⟩

/-- `save(save_raw_data=False)`: the dataset is projected away by the skip list -/
def saveNoRaw {θ μ σ : Type} (rc : List PId → Optim μ → Option (Optim μ)) (pk : Pickle (ModelSt θ μ σ))
    (r : Recon θ μ σ) : Saved :=
  Serialize.save skipNoRaw (toVal pk (toDevice rc r))

/-- what `save()` does to the object being saved: `.to("cpu")` then `.to(current_device)` -/
def saveSource {θ μ σ : Type} (rc : List PId → Optim μ → Option (Optim μ)) (r : Recon θ μ σ) : Recon θ μ σ :=
  toDevice rc (toDevice rc r)

/-- `Ptychography.from_file(path)` (device=None: no `.to()`) -/
def fromFile {θ μ σ : Type} (pk : Pickle (ModelSt θ μ σ)) (s : Saved) : Option (Recon θ μ σ) :=
  match Serialize.load {} s with
  | .ok v => ofVal pk v
  | .error _ => none

/-- `clone()`: `copy.deepcopy` fails on a reconstruction that has run (non-leaf tensors), so the
fallback is taken: `save(tmp, save_raw_data=True)`, `from_file(tmp)`, `cloned.to(device)` -/
def clone {θ μ σ : Type} (rc : List PId → Optim μ → Option (Optim μ)) (pk : Pickle (ModelSt θ μ σ))
    (r : Recon θ μ σ) : Option (Recon θ μ σ) :=
  (fromFile pk (save rc pk r)).map (toDevice rc)

/-! ### well-formed states -/

def Optim.wf {μ : Type} (cur : List PId) (o : Optim μ) : Prop :=
  o.params = cur ∧ cur ≠ [] ∧ (o.state.map (·.1)).Nodup ∧ ∀ k ∈ o.state.map (·.1), k ∈ cur

def ModelSt.wf {θ μ σ : Type} (m : ModelSt θ μ σ) : Prop :=
  ∀ o, m.opt = some o → o.wf (m.params.map (·.1))

def Recon.wf {θ μ σ : Type} (r : Recon θ μ σ) : Prop :=
  r.object.wf ∧ r.probe.wf ∧ r.dataset.wf

end QuantemModel.Checkpoint
