import QuantemModel.Core.Cx
import QuantemModel.Core.Dft
/-!
C10 — executable model of the hard constraints of the ptychography object / probe models
(`diffractive_imaging/object_models.py:ObjectConstraints.apply_hard_constraints`,
`probe_models.py:ProbeConstraints._probe_orthogonalization_constraint`,
`ProbePixelated._apply_weights`, `tomography/object_models.py:ObjectConstraints.apply_hard_constraints`).

Core Lean only; written once over `[Num R]`, executed at `Float`, reasoned about at `ℝ`.

Array layout: an object is `slices × pixels` (the two spatial axes flattened — nothing in the
hard constraints without smoothing filters depends on 2-D geometry); the FOV mask is the
already expanded `slices × pixels` real array (`ObjectBase.mask` setter expands a 2-D mask to
every slice; for complex objects the tensor is complex with zero imaginary part, which
multiplies like the real number).  A probe stack is `modes × pixels` for the
orthogonalisation and `modes × rows × cols` for `_apply_weights` (it needs `fft2`).
Gaussian / Butterworth filters are not modelled (excluded by the property's quantifier).
-/
namespace QuantemModel.Constraints
open QuantemModel
variable {R : Type} [Num R]

/-! ## small array helpers -/

/-- `x.mean()` of a flat real array -/
def mean (xs : List R) : R := Num.sum xs / Num.ofNat xs.length

/-- `x.max()` / `x.min()` of a flat real array (driver guarantees non-empty) -/
def maxL : List R → R
  | [] => Num.zero
  | x :: xs => xs.foldl Num.max x
def minL : List R → R
  | [] => Num.zero
  | x :: xs => xs.foldl Num.min x

/-- complex number divided by a real number (`z / n`, `torch.mean` on complex) -/
def cdivR (z : Cx R) (n : R) : Cx R := ⟨z.re / n, z.im / n⟩

/-- `torch.mean(x, dim=0)` for a real `slices × pixels` array (sum over slices first) -/
def meanSlicesR (rows : List (List R)) : List R :=
  match rows with
  | [] => []
  | r :: rs => (rs.foldl (fun acc row => List.zipWith (· + ·) acc row) r).map (· / Num.ofNat rows.length)

/-- `torch.mean(x, dim=0)` for a complex `slices × pixels` array -/
def meanSlicesC (rows : List (List (Cx R))) : List (Cx R) :=
  match rows with
  | [] => []
  | r :: rs => (rs.foldl (fun acc row => List.zipWith (· + ·) acc row) r).map (cdivR · (Num.ofNat rows.length))

/-- `if self.num_slices > 1: if identical_slices: obj2[:] = torch.mean(obj2, dim=0, keepdim=True)` -/
def tieSlicesR (identical : Bool) (obj2 : List (List R)) : List (List R) :=
  if 1 < obj2.length && identical then List.replicate obj2.length (meanSlicesR obj2) else obj2
def tieSlicesC (identical : Bool) (obj2 : List (List (Cx R))) : List (List (Cx R)) :=
  if 1 < obj2.length && identical then List.replicate obj2.length (meanSlicesC obj2) else obj2

/-! ## object constraints (`ObjectConstraints.apply_hard_constraints`) -/

/-- the entries of the constraints dict that the hard constraints read (filters excluded) -/
structure ObjCons (R : Type) where
  positivity : Bool
  fixBaseline : Bool
  baselineFactor : R
  identicalSlices : Bool
  applyFovMask : Bool

/-- the two complex-valued object types -/
inductive CxType where
  | complex
  | purePhase
  deriving Repr, DecidableEq

/-- `amp = torch.clamp(torch.abs(obj), 0.0, 1.0)` (complex) / `amp = 1.0` (pure_phase) -/
def ampOf (t : CxType) (z : Cx R) : R :=
  match t with
  | .complex => Num.clip (Cx.abs z) Num.zero Num.one
  | .purePhase => Num.one

/-- `obj.angle().mean()` — over every element of every slice -/
def meanPhase (obj : List (List (Cx R))) : R := mean (obj.flatten.map Cx.angle)

/-- `a * torch.exp(1.0j * φ)` -/
def polar (a φ : R) : Cx R := Cx.smul a (Cx.cis φ)

/-- first block of the complex / pure_phase branch, one element.
```
phase = obj.angle() - obj.angle().mean()
if mask is not None and apply_fov_mask:
    if obj_type == "complex":  obj2 = amp * mask * exp(1j * phase * mask)
    else:                      obj2 = exp(1j * phase * mask)          # pure_phase
else:                          obj2 = amp * exp(1j * phase)
``` -/
def cxElem (t : CxType) (μ : R) (m : Option R) (z : Cx R) : Cx R :=
  let phase := Cx.angle z - μ
  match m with
  | some mk =>
      match t with
      | .complex => polar (ampOf t z * mk) (phase * mk)
      | .purePhase => Cx.cis (phase * mk)
  | none => polar (ampOf t z) phase

/-- trailing `if apply_fov_mask and mask is not None and obj_type != "pure_phase": obj2 *= mask`,
one element (the complex branch is therefore multiplied by the mask a second time) -/
def cxMaskAgain (t : CxType) (m : Option R) (z : Cx R) : Cx R :=
  match m, t with
  | some mk, .complex => Cx.smul mk z
  | _, _ => z

/-- the mask actually used: `mask is not None and constraints["apply_fov_mask"]` -/
def effMask (apply : Bool) (mask : Option (List (List R))) : Option (List (List R)) :=
  if apply then mask else none

/-- map a function over a `slices × pixels` array together with the (optional) mask -/
def mapMasked {α β : Type} (f : Option R → α → β) (mask : Option (List (List R)))
    (obj : List (List α)) : List (List β) :=
  match mask with
  | none => obj.map (·.map (f none))
  | some m => List.zipWith (fun row mrow => List.zipWith (fun z mk => f (some mk) z) row mrow) obj m

/-- `apply_hard_constraints` for `obj_type in ["complex", "pure_phase"]` (no smoothing filters) -/
def applyHardCx (t : CxType) (c : ObjCons R) (mask : Option (List (List R)))
    (obj : List (List (Cx R))) : List (List (Cx R)) :=
  let μ := meanPhase obj
  let em := effMask c.applyFovMask mask
  let obj2 := mapMasked (fun m z => cxMaskAgain t m (cxElem t μ m z)) em obj
  tieSlicesC c.identicalSlices obj2

/-- the baseline offset of the potential branch
```
if fix_potential_baseline:
    if mask is not None:
        background = mask < 0.5 * mask.max()
        offset = obj[background].mean() if background.any() else obj.min()
    else: offset = obj.min()
    offset *= fix_potential_baseline_factor
else: offset = 0
``` -/
def potOffset (c : ObjCons R) (mask : Option (List (List R))) (obj : List (List R)) : R :=
  if c.fixBaseline then
    let off :=
      match mask with
      | some m =>
          let thr := Num.ofRat (1/2) * maxL m.flatten
          let bg := (List.zip obj.flatten m.flatten).filter (fun p => Num.ltb p.2 thr)
          if bg.isEmpty then minL obj.flatten else mean (bg.map (·.1))
      | none => minL obj.flatten
    off * c.baselineFactor
  else Num.zero

/-- `torch.clamp(x, min=0.0)` -/
def clampMin0 (x : R) : R := Num.max x Num.zero

/-- `apply_hard_constraints` for `obj_type == "potential"` (no smoothing filters) -/
def applyHardPot (c : ObjCons R) (mask : Option (List (List R))) (obj : List (List R)) :
    List (List R) :=
  let offset := potOffset c mask obj
  -- `torch.clamp(obj - offset, min=0.0)` if positivity else `obj - offset`
  let obj2 := obj.map (·.map fun v => if c.positivity then clampMin0 (v - offset) else v - offset)
  -- `if apply_fov_mask and mask is not None: obj2 *= mask`
  let obj3 := mapMasked (fun m v => match m with | some mk => v * mk | none => v)
                (effMask c.applyFovMask mask) obj2
  tieSlicesR c.identicalSlices obj3

/-- amplitude array of a complex object (`torch.abs(obj)`) -/
def ampArr (obj : List (List (Cx R))) : List (List R) := obj.map (·.map Cx.abs)

/-! ## tomography object (`tomography/object_models.py:ObjectConstraints.apply_hard_constraints`)
```
obj2 = obj.clone()
if positivity: obj2 = torch.clamp(obj, min=0.0)
if shrinkage:  obj2 = torch.max(obj2 - shrinkage, zeros)     # truthiness: False / 0 skip
``` -/
def tomoApplyHard (positivity : Bool) (shrinkage : Option R) (obj : List R) : List R :=
  let o1 := if positivity then obj.map clampMin0 else obj
  match shrinkage with
  | some s => o1.map fun v => Num.max (v - s) Num.zero
  | none => o1

/-! ## probe orthogonalisation (`_probe_orthogonalization_constraint`) -/

abbrev Vec (R : Type) := List (Cx R)

/-- `torch.sum(v.real.square() + v.imag.square())` -/
def norm2 (v : Vec R) : R := Num.sum (v.map fun z => z.re * z.re + z.im * z.im)
/-- `torch.sqrt(torch.sum(v.real.square() + v.imag.square()))` -/
def vnorm (v : Vec R) : R := Num.sqrt (norm2 v)
/-- `torch.sum(q.conj() * v)` -/
def cdot (q v : Vec R) : Cx R := Cx.sum (List.zipWith (fun a b => Cx.conj a * b) q v)
/-- `projection = torch.sum(q.conj() * probe_i) * q ; probe_i = probe_i - projection` -/
def subProj (r q : Vec R) : Vec R :=
  let c := cdot q r
  List.zipWith (fun ri qi => ri - c * qi) r q
/-- inner loop `for j in range(len(orthogonal_probes))` (in order, on the running residual) -/
def residual (qs : List (Vec R)) (v : Vec R) : Vec R := qs.foldl subProj v
/-- the `clamp_min(1e-12)` threshold -/
def gsEps : R := Num.ofRat (1 / 1000000000000)
/-- `norm = sqrt(sum(|r|²)).clamp_min(1e-12)` -/
def clampedNorm (r : Vec R) : R := Num.max (vnorm r) gsEps
/-- `probe_i / norm` -/
def normalize (r : Vec R) : Vec R := let n := clampedNorm r; r.map (cdivR · n)
/-- outer loop `for i in range(n_probes)`: `qs` are the already produced orthonormal probes -/
def orthoLoop (qs : List (Vec R)) : List (Vec R) → List (Vec R)
  | [] => qs
  | v :: rest => orthoLoop (qs ++ [normalize (residual qs v)]) rest
/-- `orthogonal_probes * original_norms.view(-1, 1, 1)` -/
def rescale (qs : List (Vec R)) (norms : List R) : List (Vec R) :=
  List.zipWith (fun q n => q.map (Cx.smul n)) qs norms
/-- Gram–Schmidt with the original norms restored, before sorting -/
def gsUnsorted (vs : List (Vec R)) : List (Vec R) := rescale (orthoLoop [] vs) (vs.map vnorm)
/-- `torch.sum(torch.abs(p).square())` — real-space intensity of one mode -/
def intensity (v : Vec R) : R := Num.sum (v.map fun z => Num.sq (Cx.abs z))
/-- order used by `argsort(intensities, descending=True)`: `a` may precede `b` iff not `I a < I b`.
(torch's argsort is not stable; ties are outside the correspondence — `mergeSort` is stable.) -/
def descLe (a b : Vec R) : Bool := !(Num.ltb (intensity a) (intensity b))
/-- `_probe_orthogonalization_constraint` -/
def gramSchmidt (vs : List (Vec R)) : List (Vec R) := (gsUnsorted vs).mergeSort descLe

/-! ## `_apply_weights` -/

abbrev Img (R : Type) := List (List (Cx R))

/-- `torch.fft.fft2(p, norm="ortho")` -/
def fft2Ortho (p : Img R) : Img R :=
  let n := (p.length * (p.headD []).length : Nat)
  let s : R := Num.sqrt (Num.ofNat n)
  (Dft.dft2 p).map (·.map (cdivR · s))
/-- `torch.sum(torch.abs(x).square())` over a 2-D complex array -/
def energy (p : Img R) : R := Num.sum (p.flatten.map fun z => Num.sq (Cx.abs z))
/-- total diffraction intensity `torch.sum(torch.abs(torch.fft.fft2(probes, norm="ortho")).square())` -/
def diffIntensity (ps : List (Img R)) : R := Num.sum (ps.map fun p => energy (fft2Ortho p))
def scaleImg (s : R) (p : Img R) : Img R := p.map (·.map (Cx.smul s))

/-- ```
probe_intensity = sum(|fft2(probes, ortho)|²)
probes *= sqrt(mean_diffraction_intensity / probe_intensity)
current_weights = sum(|probes|², dim=(1,2)); current_weights /= sum(current_weights)
probes = probes * sqrt(initial_probe_weights / current_weights)[:, None, None]
``` -/
def applyWeights (meanInt : R) (w : List R) (probes : List (Img R)) : List (Img R) :=
  let probeIntensity := diffIntensity probes
  let intensityNorm := Num.sqrt (meanInt / probeIntensity)
  let p1 := probes.map (scaleImg intensityNorm)
  let cw := p1.map energy
  let tot := Num.sum cw
  let cw' := cw.map (· / tot)
  let ws := List.zipWith (fun wk ck => Num.sqrt (wk / ck)) w cw'
  List.zipWith scaleImg ws p1

/-- `initial_probe_weights` setter: `w2 / torch.sum(w2)` -/
def normWeights (w : List R) : List R := let s := Num.sum w; w.map (· / s)
/-- default `[1 - 0.02 * (n - 1)] + [0.02] * (n - 1)` (used as is, not renormalised) -/
def defaultWeights (n : Nat) : List R :=
  Num.ofRat (1 - (2 / 100 : Rat) * ((n : Rat) - 1)) :: List.replicate (n - 1) (Num.ofRat (2 / 100))

/-! ## histories of the probe model (`set_initial_probe` called repeatedly on one `ProbePixelated`)

State of a `from_array` probe model as far as the initial-probe clause is concerned: the requested
(normalised) `initial_probe_weights` and the stored `initial_probe` stack. -/
structure ProbeState (R : Type) where
  weights : List R
  stack : List (Img R)

/-- elementwise product of two images -/
def mulImg (a b : Img R) : Img R := List.zipWith (List.zipWith (· * ·)) a b

/-- `set_initial_probe` (array route): `probes = self.initial_probe.clone()`, the random phase ramps
of `_apply_random_phase_shifts` (an opaque input here: `ramps`, one unit-modulus image per mode, the
first all ones), `_apply_weights`, result stored as the new `initial_probe`.  The requested weights are
READ, never written. -/
def setInitialProbe (meanInt : R) (ramps : List (Img R)) (st : ProbeState R) : ProbeState R :=
  { st with stack := applyWeights meanInt st.weights (List.zipWith mulImg st.stack ramps) }

/-- any number of (re-)initialisations, each with its own mean intensity and phase ramps -/
def runProbeHistory (st : ProbeState R) (steps : List (R × List (Img R))) : ProbeState R :=
  steps.foldl (fun s step => setInitialProbe step.1 step.2 s) st

/-! ## the constraints dictionary (`constraints.py:BaseConstraints`)

`self._constraints = DEFAULT_CONSTRAINTS.copy()`; `add_constraint(key, value)` and the `constraints`
setter validate the key against `DEFAULT_CONSTRAINTS.keys()` and assign ONE entry; nothing else is
touched.  Values are opaque (`V`). -/
abbrev CDict (V : Type) := List (String × V)

/-- `d[k]` (None when absent) -/
def cget {V : Type} : CDict V → String → Option V
  | [], _ => none
  | (k', v) :: rest, k => if k' = k then some v else cget rest k

/-- `d[k] = v` : replace in place, append when absent (Python dict order) -/
def cset {V : Type} : CDict V → String → V → CDict V
  | [], k, v => [(k, v)]
  | (k', v') :: rest, k, v => if k' = k then (k, v) :: rest else (k', v') :: cset rest k v

inductive CErr where
  | keyError
  deriving Repr, DecidableEq

/-- `add_constraint(key, value)`: `KeyError` for a key outside `DEFAULT_CONSTRAINTS`, else `_constraints[key] = value` -/
def addConstraint {V : Type} (allowed : List String) (d : CDict V) (k : String) (v : V) :
    Except CErr (CDict V) :=
  if k ∈ allowed then .ok (cset d k v) else .error .keyError

/-- `constraints` setter: `for key, value in c.items(): check; _constraints[key] = value` — entries are
applied in order, the first invalid key raises and the entries before it stay applied -/
def setConstraints {V : Type} (allowed : List String) : CDict V → List (String × V) → CDict V × Option CErr
  | d, [] => (d, none)
  | d, (k, v) :: rest =>
      match addConstraint allowed d k v with
      | .ok d' => setConstraints allowed d' rest
      | .error e => (d, some e)


/-- the first entries of a `constraints = {...}` assignment that are applied: everything before the first
invalid key (the setter raises there, the earlier entries stay assigned) -/
def effectiveItems {V : Type} (allowed : List String) : List (String × V) → List (String × V)
  | [] => []
  | (k, v) :: rest => if k ∈ allowed then (k, v) :: effectiveItems allowed rest else []

/-! ## several live models of one class (growth round 5)

`BaseConstraints.__init__`: `self._constraints = self.DEFAULT_CONSTRAINTS.copy()` — every instance gets its
OWN dictionary; the class attribute `DEFAULT_CONSTRAINTS` is only read.  A registry is the list of the
dictionaries of all live models of one class, in creation order. -/
abbrev Registry (V : Type) := List (CDict V)

/-- the public operations on the models of one class -/
inductive RegOp (V : Type) where
  /-- `cls(...)`: build another model -/
  | new : RegOp V
  /-- `models[i].add_constraint(k, v)` -/
  | add : Nat → String → V → RegOp V
  /-- `models[i].constraints = dict(items)` -/
  | set : Nat → List (String × V) → RegOp V
  /-- `models[i].constraints = cls.DEFAULT_CONSTRAINTS` (what `PtychographyBase.reset_recon` does) -/
  | resetDefaults : Nat → RegOp V

/-- one operation; the second component is the exception it raises (if any).  An index that names no
model is a harness error and changes nothing. -/
def regStep {V : Type} (allowed : List String) (defaults : CDict V) (reg : Registry V) :
    RegOp V → Registry V × Option CErr
  | .new => (reg ++ [defaults], none)
  | .add i k v =>
      match reg[i]? with
      | none => (reg, none)
      | some d =>
          match addConstraint allowed d k v with
          | .ok d' => (reg.set i d', none)
          | .error e => (reg, some e)
  | .set i items =>
      match reg[i]? with
      | none => (reg, none)
      | some d => let r := setConstraints allowed d items; (reg.set i r.1, r.2)
  | .resetDefaults i =>
      match reg[i]? with
      | none => (reg, none)
      | some d => let r := setConstraints allowed d defaults; (reg.set i r.1, r.2)

/-- a whole history (exceptions are caught by the caller, who carries on) -/
def runReg {V : Type} (allowed : List String) (defaults : CDict V) (reg : Registry V)
    (ops : List (RegOp V)) : Registry V :=
  ops.foldl (fun r op => (regStep allowed defaults r op).1) reg

/-- the same operation seen by ONE model `j` alone: operations addressed to other models (and `new`) do nothing -/
def dictStep {V : Type} (allowed : List String) (defaults : CDict V) (j : Nat) (d : CDict V) :
    RegOp V → CDict V
  | .new => d
  | .add i k v => if i = j then (match addConstraint allowed d k v with | .ok d' => d' | .error _ => d) else d
  | .set i items => if i = j then (setConstraints allowed d items).1 else d
  | .resetDefaults i => if i = j then (setConstraints allowed d defaults).1 else d

def runDict {V : Type} (allowed : List String) (defaults : CDict V) (j : Nat) (d : CDict V)
    (ops : List (RegOp V)) : CDict V :=
  ops.foldl (dictStep allowed defaults j) d

/-- `ProbeConstraints.apply_hard_constraints` with `center_probe` off (the Fourier-shift recentring is
outside the property): `if constraints["orthogonalize_probe"]: probe = _probe_orthogonalization_constraint(probe)` -/
def probeApplyHard (orthogonalize : Bool) (vs : List (Vec R)) : List (Vec R) :=
  if orthogonalize then gramSchmidt vs else vs

/-! ## the probe model as a state machine with its validation branches (growth round 5)

`ProbePixelated` as far as the initial-probe clause is concerned.  Every public mutator validates BEFORE
it stores; a rejected call (`ValueError`) leaves the model as it was. -/
inductive PErr where
  | valueError
  deriving Repr, DecidableEq

structure ProbeModel (R : Type) where
  /-- `num_probes` -/
  numProbes : Nat
  /-- `roi_shape` (fixed by `from_array`) -/
  roi : Nat × Nat
  /-- `_initial_probe_weights` -/
  weights : List R
  /-- `_initial_probe` -/
  initial : List (Img R)
  /-- `_probe` (the raw parameter the optimiser drives) -/
  param : List (Img R)
  /-- `_mean_diffraction_intensity` (unset before the first `set_initial_probe`) -/
  meanInt : Option R

/-- `rows × cols` of every image of a stack equals `roi` and there are `n` of them
(`validate_tensor(..., shape=(num_probes, *roi_shape))`) -/
def stackShapeOk (n : Nat) (roi : Nat × Nat) (p : List (Img R)) : Bool :=
  p.length == n && p.all fun img => img.length == roi.1 && img.all fun row => row.length == roi.2

inductive ProbeOp (R : Type) where
  /-- `pm.initial_probe_weights = w` (`none` = `None`: the defaults) -/
  | setWeights : Option (List R) → ProbeOp R
  /-- `pm.set_initial_probe(roi, recip, M)`; `ramps` are the random phase ramps drawn by this call -/
  | setInitial : Nat × Nat → R → List (Img R) → ProbeOp R
  /-- `pm.probe = p` -/
  | setProbe : List (Img R) → ProbeOp R
  /-- `pm.reset()` -/
  | reset : ProbeOp R

/-- ```
initial_probe_weights.setter:  None -> defaults
                               len(weights) != num_probes -> ValueError   (nothing stored)
                               else w2 / sum(w2)
set_initial_probe:  roi_shape conflicts -> ValueError; mean_diffraction_intensity <= 0 -> ValueError
                    (both before anything of the probe is touched)
                    probes = _apply_weights(_apply_random_phase_shifts(initial_probe.clone()))
                    _initial_probe = probes; _probe = Parameter(probes.clone())
probe.setter:       validate_tensor(shape=(num_probes, *roi_shape)) -> ValueError, else _probe.data = prb
reset():            _probe = Parameter(_initial_probe.clone())
``` -/
def probeStep (st : ProbeModel R) : ProbeOp R → ProbeModel R × Option PErr
  | .setWeights none => ({ st with weights := defaultWeights st.numProbes }, none)
  | .setWeights (some w) =>
      if w.length != st.numProbes then (st, some .valueError)
      else ({ st with weights := normWeights w }, none)
  | .setInitial roi m ramps =>
      if roi != st.roi then (st, some .valueError)
      else if Num.leb m Num.zero then (st, some .valueError)
      else
        let probes := applyWeights m st.weights (List.zipWith mulImg st.initial ramps)
        ({ st with initial := probes, param := probes, meanInt := some m }, none)
  | .setProbe p =>
      if stackShapeOk st.numProbes st.roi p then ({ st with param := p }, none)
      else (st, some .valueError)
  | .reset => ({ st with param := st.initial }, none)

def runProbeOps (st : ProbeModel R) (ops : List (ProbeOp R)) : ProbeModel R :=
  ops.foldl (fun s op => (probeStep s op).1) st

/-- the weights a history leaves behind, computed from the REQUESTS alone: the last accepted
`initial_probe_weights` assignment (normalised; `None` = defaults), else the weights before the history -/
def lastAcceptedWeights (n : Nat) (w0 : List R) : List (ProbeOp R) → List R
  | [] => w0
  | .setWeights none :: rest => lastAcceptedWeights n (defaultWeights n) rest
  | .setWeights (some w) :: rest =>
      if w.length != n then lastAcceptedWeights n w0 rest else lastAcceptedWeights n (normWeights w) rest
  | _ :: rest => lastAcceptedWeights n w0 rest

/-! ## the tomography constraint dictionary (`tomography/object_models.py:ObjectConstraints`)

`hard_constraints` setter / `add_hard_constraint` are the same per-entry validated assignment as
`BaseConstraints` (modelled by `setConstraints` / `addConstraint` with `allowed = DEFAULT_HARD_CONSTRAINTS.keys()`);
`ObjectVoxelwise.__init__` installs `DEFAULT_HARD_CONSTRAINTS.copy()` into the instance's own `{}`.
Python truthiness of the `shrinkage` entry: `False`, `0`, `0.0`, `None` skip the shrinkage step. -/
inductive TomoVal (R : Type) where
  | bool : Bool → TomoVal R
  | num : R → TomoVal R
  | none : TomoVal R

/-- `if value:` for the values a constraint entry can hold (`NaN` is truthy in Python; `ltb`/`leb` are false on it) -/
def TomoVal.truthy : TomoVal R → Bool
  | .bool b => b
  | .num x => !(Num.leb x Num.zero && Num.leb Num.zero x)
  | .none => false

/-- `apply_hard_constraints` reading its two entries from the dictionary -/
def tomoApplyHardD (pos shr : TomoVal R) (obj : List R) : List R :=
  tomoApplyHard pos.truthy
    (match shr with
     | .num s => if (TomoVal.num s).truthy then some s else none
     | .bool true => some Num.one        -- `obj2 - True` : True is 1
     | _ => none) obj

/-! ## class defaults (pinned against the class attributes on every run) -/

/-- `ObjectConstraints.DEFAULT_CONSTRAINTS`, the entries the hard constraints read -/
def objDefaultCons : ObjCons R :=
  { positivity := true, fixBaseline := false, baselineFactor := Num.one, identicalSlices := false,
    applyFovMask := false }
/-- `ProbeConstraints.DEFAULT_CONSTRAINTS["orthogonalize_probe"]` / `["center_probe"]` -/
def probeDefaultOrthogonalize : Bool := true
def probeDefaultCenter : Bool := false
/-- tomography `DEFAULT_HARD_CONSTRAINTS["positivity"]` / `["shrinkage"]` -/
def tomoDefaultPositivity : TomoVal R := .bool false
def tomoDefaultShrinkage : TomoVal R := .bool false

end QuantemModel.Constraints
