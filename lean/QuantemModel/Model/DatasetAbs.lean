import QuantemModel.Model.Dataset
/-!
C03, growth round 6 — the *calibration skeleton* of the Dataset state machine.

`forget` erases the array values of a dataset (`data := none`, the state the model is in anyway after
`fourier_resample`), `forgetOp` erases the values an operation carries (the array handed to the `array`
setter).  The skeleton machine is the SAME state machine `Dataset.step` run on value-free datasets: shape,
dtype kind, class, origin, sampling, units and the raise / no-raise outcome of every public call.
`Props/C03Ext.lean` proves that every history (raising calls included) of the full machine refines to the
skeleton machine: nothing the coherence clauses of C03 speak about depends on the array values.
-/
namespace QuantemModel.DatasetAbs
open QuantemModel.Nd QuantemModel.Resample QuantemModel.Dataset

/-- everything but the array values -/
@[reducible] def forget (d : Ds) : Ds := { d with data := none }

/-- the same call without the values it carries (only the `array` setter carries any) -/
def forgetOp : Op → Op
  | .setArray sh _ k => .setArray sh none k
  | op => op

/-- receiver and returned dataset of one call, values erased -/
def forgetRes (p : Ds × Option Ds) : Ds × Option Ds := (forget p.1, p.2.map forget)

/-- a history with the values its calls carry erased -/
def forgetHist (ops : List (Op × Bool)) : List (Op × Bool) := ops.map fun p => (forgetOp p.1, p.2)

/-- result of a call mapped through `f`, a raised error passed on -/
def mapOk {α β : Type} (f : α → β) : Except Err α → Except Err β
  | .ok a => .ok (f a)
  | .error e => .error e

end QuantemModel.DatasetAbs
