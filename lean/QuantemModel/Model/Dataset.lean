import QuantemModel.Model.Resample
/-
C03 — state-machine model of `quantem.core.datastructures.Dataset` (dataset.py,
dataset2d/3d/4d/4dstem.py, validators.py): array (shape + exact values), per-axis
calibration (origin, sampling, units) and the class of the object, under construction,
copy, calibration setters, the `array` setter, pad, crop, bin, fourier_resample and
`__getitem__`, in place or copying.  Core Lean only.  Branch comments quote the Python.
-/
namespace QuantemModel.Dataset
open QuantemModel.Nd QuantemModel.Resample

/-- array element: exact complex rational (integer / dyadic data in the correspondence) -/
structure Val where
  re : Rat
  im : Rat
  deriving DecidableEq, Repr, Inhabited

instance : Add Val := ⟨fun a b => ⟨a.re + b.re, a.im + b.im⟩⟩
instance : Zero Val := ⟨⟨0, 0⟩⟩
def Val.divNat (v : Val) (n : Nat) : Val := ⟨v.re / (n : Rat), v.im / (n : Rat)⟩
instance : Mul Val := ⟨fun a b => ⟨a.re * b.re - a.im * b.im, a.re * b.im + a.im * b.re⟩⟩

/-- `type(ds)` -/
inductive DsClass | base | d2 | d3 | d4 | d4stem
  deriving DecidableEq, Repr, Inhabited

/-- dtype kind of the array -/
inductive Kind | bool | int | float | complex
  deriving DecidableEq, Repr, Inhabited

/-- the dimensionality a subclass's `from_array` enforces (`ensure_valid_array(array, ndim=k)`) -/
def DsClass.reqNdim : DsClass → Option Nat
  | .base => none | .d2 => some 2 | .d3 => some 3 | .d4 => some 4 | .d4stem => some 4

/-- "the object's class matches its dimensionality" -/
def classOk (c : DsClass) (ndim : Nat) : Prop := ∀ k, c.reqNdim = some k → ndim = k

/-- `Dataset._registry` as filled by `@Dataset.register_dimension(k)`; KeyError → `Dataset` -/
def registry : Nat → DsClass
  | 2 => .d2 | 3 => .d3 | 4 => .d4 | _ => .base

structure Ds where
  cls : DsClass
  shape : List Nat
  data : Option (List Val)     -- `none`: values not tracked (after `fourier_resample`, see C06)
  kind : Kind
  origin : List Rat
  sampling : List Rat
  units : List String
  deriving Repr, Inhabited

def Ds.ndim (d : Ds) : Nat := d.shape.length

/-- a NumPy array always has `prod shape` elements -/
def dataOk (shape : List Nat) (data : Option (List Val)) : Prop :=
  ∀ dat, data = some dat → dat.length = prod shape

/-- the coherence invariant of C03: one origin / sampling / units entry per array axis, the
class matches the dimensionality, the data fills the shape -/
def Inv (d : Ds) : Prop :=
  d.origin.length = d.ndim ∧ d.sampling.length = d.ndim ∧ d.units.length = d.ndim ∧
    classOk d.cls d.ndim ∧ dataOk d.shape d.data

/-! ### validators.py -/

inductive NdInfo | scalar (q : Rat) | list (qs : List Rat) | badType
  deriving Repr, Inhabited

/-- `validate_ndinfo`: scalar → `np.full(ndim, value)`; sequence → length must equal ndim
(ValueError); anything else TypeError -/
def validateNdinfo (v : NdInfo) (ndim : Nat) : Except Err (List Rat) :=
  match v with
  | .scalar q => .ok (List.replicate ndim q)
  | .list qs => if qs.length ≠ ndim then .error .value else .ok qs
  | .badType => .error .type

inductive UnitsArg | str (s : String) | list (ss : List String) | badType
  deriving Repr, Inhabited

/-- `validate_units`: str → `[value]*ndim`; list/tuple → length check (ValueError); else TypeError -/
def validateUnits (v : UnitsArg) (ndim : Nat) : Except Err (List String) :=
  match v with
  | .str s => .ok (List.replicate ndim s)
  | .list ss => if ss.length ≠ ndim then .error .value else .ok ss
  | .badType => .error .type

/-- `ensure_valid_array(value, ndim=k)`: fewer dims → `expand_dims(axis=0)` until k (warns);
more → ValueError -/
def ensureNdim (shape : List Nat) (k : Nat) : Except Err (List Nat) :=
  if shape.length > k then .error .value
  else .ok (List.replicate (k - shape.length) 1 ++ shape)

/-! ### construction, copy -/

def defaultUnits : DsClass → Nat → List String
  | .d3, _ => ["index", "pixels", "pixels"]
  | .d4, _ => ["index", "index", "pixels", "pixels"]
  | _, n => List.replicate n "pixels"

/-- the subclasses' `from_array` start with `ensure_valid_array(array, ndim=k)` -/
def reqShape (cls : DsClass) (shape : List Nat) : Except Err (List Nat) :=
  match cls.reqNdim with
  | none => .ok shape
  | some k => ensureNdim shape k

/-- `cls.from_array(array, origin=…, sampling=…, units=…)` followed by `__init__`
(origin, sampling, units setters in that order) -/
def fromArray (cls : DsClass) (shape : List Nat) (data : Option (List Val)) (kind : Kind)
    (o s : Option NdInfo) (u : Option UnitsArg) : Except Err Ds :=
  match reqShape cls shape with
  | .error e => .error e
  | .ok shape' =>
    let nd := shape'.length
    match validateNdinfo (o.getD (.list (List.replicate nd 0))) nd with
    | .error e => .error e
    | .ok origin =>
      match validateNdinfo (s.getD (.list (List.replicate nd 1))) nd with
      | .error e => .error e
      | .ok sampling =>
        match validateUnits (u.getD (.list (defaultUnits cls nd))) nd with
        | .error e => .error e
        | .ok units => .ok ⟨cls, shape', data, kind, origin, sampling, units⟩

/-- `Dataset.copy`: `type(self).from_array(array.copy(), origin.copy(), sampling.copy(), units[:])` -/
def copy (d : Ds) : Except Err Ds :=
  fromArray d.cls d.shape d.data d.kind (some (.list d.origin)) (some (.list d.sampling))
    (some (.list d.units))

/-- the `array` setter: `ensure_valid_array(value, ndim=self.ndim)` -/
def setArray (d : Ds) (shape : List Nat) (data : Option (List Val)) (kind : Kind) : Except Err Ds :=
  match ensureNdim shape d.ndim with
  | .error e => .error e
  | .ok shape' => .ok { d with shape := shape', data := data, kind := kind }

def setOrigin (d : Ds) (v : NdInfo) : Except Err Ds :=
  match validateNdinfo v d.ndim with
  | .error e => .error e
  | .ok o => .ok { d with origin := o }

def setSampling (d : Ds) (v : NdInfo) : Except Err Ds :=
  match validateNdinfo v d.ndim with
  | .error e => .error e
  | .ok o => .ok { d with sampling := o }

def setUnits (d : Ds) (v : UnitsArg) : Except Err Ds :=
  match validateUnits v d.ndim with
  | .error e => .error e
  | .ok u => .ok { d with units := u }

/-! ### operation arguments -/

/-- `axes` argument of crop / bin / fourier_resample -/
inductive AxesArg | all | one (a : Int) | many (as : List Int)
  deriving Repr, Inhabited

/-- `numpy.lib.array_utils.normalize_axis_index`: `-ndim ≤ a < ndim`, else AxisError (IndexError) -/
def normAxes (nd : Nat) : List Int → Except Err (List Nat) := mapMExcept (normPos nd)

inductive PadWidth | all (n : Int) | pair (b a : Int) | perAxis (ws : List (Int × Int))
  deriving Repr, Inhabited
inductive PadArg | width (w : PadWidth) | outShape (o : List Int) | both | neither
  deriving Repr, Inhabited

/-- bin factors: an int, a tuple (entries that are not `numbers.Integral` are `none`),
or some other type -/
inductive FacArg | one (f : Int) | many (fs : List (Option Int)) | badType
  deriving Repr, Inhabited

inductive RsArg
  | outShape (o : List Int) | factor1 (f : Rat) | factors (fs : List Rat) | both | neither
  deriving Repr, Inhabited

/-- which reduction over the scan axes: `get_dp_mean`, `get_dp_max`, `get_dp_median` -/
inductive DpKind | mean | max | median
  deriving DecidableEq, Repr, Inhabited

inductive Op
  | copy
  | setOrigin (v : NdInfo)
  | setSampling (v : NdInfo)
  | setUnits (v : UnitsArg)
  | setArray (shape : List Nat) (data : Option (List Val)) (kind : Kind)
  | touch                                     -- name / signal_units setters: no calibration change
  | pad (arg : PadArg) (inplace : Bool)
  | crop (widths : List (Int × Int)) (axes : AxesArg) (inplace : Bool)
  | bin (f : FacArg) (axes : AxesArg) (mean : Bool) (badReducer : Bool) (inplace : Bool)
  | resample (arg : RsArg) (axes : AxesArg) (inplace : Bool)
  | getitem (ix : List Item)
  | dpReduce (kind : DpKind)                                 -- Dataset4dstem.get_dp_mean / _max / _median(attach=False)
  | virtualImage (maskShape : List Nat) (mask : List Val)    -- Dataset4dstem.get_virtual_image(mask=…, attach=False)
  | frame (k : Nat)                                          -- Dataset3d.to_dataset2d()[k]
  deriving Repr, Inhabited

/-- well-formed operation arguments: an array handed to the `array` setter is a NumPy array -/
def Op.WF : Op → Prop
  | .setArray sh dat _ => dataOk sh dat
  | _ => True

def listSet {β : Type} (l : List β) (i : Nat) (v : β) : List β := l.set i v

/-! ### pad -/

def nonneg2 (p : Int × Int) : Bool := decide (0 ≤ p.1) && decide (0 ≤ p.2)
def toNat2 (p : Int × Int) : Nat × Nat := (p.1.toNat, p.2.toNat)

/-- the `pad_width` NumPy ends up using, or the error `Dataset.pad` / `np.pad` raise -/
def padWidthsOf (shape : List Nat) : PadArg → Except Err (List (Nat × Nat))
  | .both => .error .value          -- "pad_width and output_shape cannot both be specified."
  | .neither => .error .value       -- "pad_width or output_shape must be specified."
  | .width (.all n) =>              -- np.pad: int → every axis, both sides
      if n < 0 then .error .value else .ok (List.replicate shape.length (n.toNat, n.toNat))
  | .width (.pair b a) =>           -- np.pad: (before, after) → every axis
      if nonneg2 (b, a) then .ok (List.replicate shape.length (b.toNat, a.toNat)) else .error .value
  | .width (.perAxis ws) =>         -- np.pad: one pair per axis, or a single pair broadcast
      if !(ws.all nonneg2) then .error .value
      else if ws.length = shape.length then .ok (ws.map toNat2)
      else if ws.length = 1 then .ok (List.replicate shape.length (toNat2 (ws.headD (0, 0))))
      else .error .value            -- "operands could not be broadcast together"
  | .outShape o =>
      if o.length ≠ shape.length then .error .value   -- "output_shape must be a tuple of length ndim."
      else .ok (List.zipWith padWidths o shape)

def padData (d : Ds) (w : List (Nat × Nat)) : Option (List Val) :=
  d.data.map fun dat => (padNd (0 : Val) ⟨d.shape, dat⟩ w).data

/-- `Dataset.pad` -/
def pad (d : Ds) (arg : PadArg) (inplace : Bool) : Except Err (Ds × Option Ds) :=
  match padWidthsOf d.shape arg with
  | .error e => .error e
  | .ok w =>
    let shape' := padShape d.shape w
    let data' := padData d w
    if inplace then
      -- self._array = padded_array
      .ok ({ d with shape := shape', data := data' }, none)
    else
      -- new_dataset = self.copy(); new_dataset.array = padded_array
      match copy d with
      | .error e => .error e
      | .ok c => match setArray c shape' data' d.kind with
        | .error e => .error e
        | .ok r => .ok (d, some r)

/-! ### crop -/

/-- `axes` / `crop_widths` handling at the top of `Dataset.crop` -/
def cropArgs (nd : Nat) (widths : List (Int × Int)) (axes : AxesArg) :
    Except Err (List Nat × List (Int × Int)) :=
  match axes with
  | .all =>
      -- "crop_widths must match number of dimensions when axes is None."
      if widths.length ≠ nd then .error .value else .ok (List.range nd, widths)
  | .one a =>
      match normAxes nd [a] with
      | .error e => .error e
      | .ok ax => match widths with
        | [] => .error .index                  -- crop_widths[0]
        | w :: _ => .ok (ax, [w])
  | .many as =>
      match normAxes nd as with
      | .error e => .error e
      | .ok ax =>
        -- "Length of crop_widths must match length of axes."
        if widths.length ≠ ax.length then .error .value else .ok (ax, widths)

def cropPlan (d : Ds) (ax : List Nat) (ws : List (Int × Int)) : Except Err Plan :=
  plan d.shape (cropItems d.ndim (dictZip (ax.map Int.ofNat) ws))

def planData (d : Ds) (p : Plan) : Option (List Val) :=
  d.data.map fun dat => (applyPlan ⟨d.shape, dat⟩ p).data

/-- `Dataset.crop` -/
def crop (d : Ds) (widths : List (Int × Int)) (axes : AxesArg) (inplace : Bool) :
    Except Err (Ds × Option Ds) :=
  match cropArgs d.ndim widths axes with
  | .error e => .error e
  | .ok (ax, ws) =>
    match cropPlan d ax ws with
    | .error e => .error e
    | .ok p =>
      if inplace then
        -- self.array = self.array[tuple(full_slices)]
        match setArray d p.shape (planData d p) d.kind with
        | .error e => .error e
        | .ok r => .ok (r, none)
      else
        -- dataset = self.copy(); dataset.array = dataset.array[tuple(full_slices)]
        match copy d with
        | .error e => .error e
        | .ok c => match setArray c p.shape (planData c p) c.kind with
          | .error e => .error e
          | .ok r => .ok (d, some r)

/-! ### bin -/

def axesList (nd : Nat) : AxesArg → Except Err (List Nat)
  | .all => .ok (List.range nd)
  | .one a => normAxes nd [a]
  | .many as => normAxes nd as

/-- the checks on `bin_factors`, in the code's order -/
def binFactors (naxes : Nat) : FacArg → Except Err (List Int)
  | .one f => .ok (List.replicate naxes f)              -- numbers.Integral
  | .many fs =>
      if fs.length ≠ naxes then .error .value           -- same length
      else if fs.any Option.isNone then .error .type     -- "Each bin factor must be an integer"
      else .ok (fs.map fun o => o.getD 1)
  | .badType => .error .type

def natKeys {β : Type} (d : List (Int × β)) : List (Nat × β) := d.map fun p => (p.1.toNat, p.2)

/-- factor per axis: the dict entry, 1 for axes that are not binned -/
def facsPerAxis (nd : Nat) (d : List (Int × Int)) : List Nat :=
  (List.range nd).map fun (ax : Nat) => ((dictGet d (Int.ofNat ax)).getD 1).toNat

def binData (d : Ds) (facs : List Nat) (mean : Bool) (vol : Nat) : Option (List Val) :=
  d.data.map fun dat =>
    let b := (binNd (⟨d.shape, dat⟩ : Arr Val) facs).data
    if mean then b.map (·.divNat vol) else b

/-- sequential update of (origin, sampling) over `axis_to_factor.items()` -/
def binCalib (o s : List Rat) (d : List (Int × Int)) : List Rat × List Rat :=
  d.foldl (fun (acc : List Rat × List Rat) (p : Int × Int) =>
    let ax := p.1.toNat
    let m := binMeta (acc.1.getD ax 0) (acc.2.getD ax 0) p.2.toNat
    (acc.1.set ax m.1, acc.2.set ax m.2)) (o, s)

/-- dtype kind of a binned array: `np.sum` turns booleans into integers and keeps the other
kinds; `/ block_volume` turns booleans and integers into floats -/
def binKind (k : Kind) (mean : Bool) : Kind :=
  if mean then (if k == .int || k == .bool then Kind.float else k)
  else (if k == .bool then Kind.int else k)

/-- `Dataset.bin` -/
def bin (d : Ds) (f : FacArg) (axes : AxesArg) (mean badReducer inplace : Bool) :
    Except Err (Ds × Option Ds) :=
  if badReducer then .error .value else           -- "reducer must be 'sum' or 'mean'"
  match axesList d.ndim axes with
  | .error e => .error e
  | .ok ax =>
    match binFactors ax.length f with
    | .error e => .error e
    | .ok fs =>
      if fs.any (· ≤ 0) then .error .value else   -- "All bin factors must be positive integers."
      let dict := dictZip (ax.map Int.ofNat) fs
      let facs := facsPerAxis d.ndim dict
      let vol := prod (dict.map fun p => p.2.toNat)
      let shape' := binShape d.shape facs
      let data' := binData d facs mean vol
      -- np.sum keeps the kind; `/ block_volume` turns integers into floats
      let kind' := binKind d.kind mean
      let o' := (binCalib d.origin d.sampling dict).1
      let s' := (binCalib d.origin d.sampling dict).2
      if inplace then
        -- self._array = …; self._sampling = …; self._origin = …
        .ok ({ d with shape := shape', data := data', kind := kind', origin := o', sampling := s' }, none)
      else
        -- dataset = self.copy(); dataset.array = …; dataset.sampling = …; dataset.origin = …
        match copy d with
        | .error e => .error e
        | .ok c => match setArray c shape' data' kind' with
          | .error e => .error e
          | .ok c1 => match setSampling c1 (.list s') with
            | .error e => .error e
            | .ok c2 => match setOrigin c2 (.list o') with
              | .error e => .error e
              | .ok r => .ok (d, some r)

/-! ### fourier_resample (shape and calibration; values are C06's subject) -/

/-- resolve `out_shape` / `factors` into output lengths, with the code's errors in order -/
def resampleOuts (shape : List Nat) (ax : List Nat) : RsArg → Except Err (List Int)
  | .both => .error .value | .neither => .error .value   -- "Specify exactly one of …"
  | .factor1 f => .ok (ax.map fun a => outLen (shape.getD a 0) f)
  | .factors fs =>
      if fs.length ≠ ax.length then .error .value          -- "factors length must match …"
      else .ok (List.zipWith (fun a f => outLen (shape.getD a 0) f) ax fs)
  | .outShape o =>
      if o.length ≠ ax.length then .error .value           -- "out_shape length must match …"
      else if ax.any (fun a => shape.getD a 0 = 0) then .error .zeroDiv  -- out_len / self.shape[a]
      else .ok o

def resampleCalib (shape : List Nat) (o s : List Rat) (pairs : List (Nat × Nat)) :
    List Rat × List Rat :=
  pairs.foldl (fun (acc : List Rat × List Rat) (p : Nat × Nat) =>
    let m := resampleMeta (o.getD p.1 0) (s.getD p.1 0) (shape.getD p.1 0) p.2
    (acc.1.set p.1 m.1, acc.2.set p.1 m.2)) (o, s)

def resampleShape (shape : List Nat) (pairs : List (Nat × Nat)) : List Nat :=
  pairs.foldl (fun (acc : List Nat) (p : Nat × Nat) => acc.set p.1 p.2) shape

/-- `Dataset.fourier_resample` -/
def resample (d : Ds) (arg : RsArg) (axes : AxesArg) (inplace : Bool) :
    Except Err (Ds × Option Ds) :=
  match axesList d.ndim axes with
  | .error e => .error e
  | .ok ax =>
    match resampleOuts d.shape ax arg with
    | .error e => .error e
    | .ok outs =>
      if outs.any (· < 1) then .error .value         -- "All output lengths must be >= 1."
      else if ax.any (fun a => d.shape.getD a 0 = 0) then .error .value  -- np.fft: 0 data points
      else
      let pairs := ax.zip (outs.map Int.toNat)
      let shape' := resampleShape d.shape pairs
      let kind' := if d.kind == .complex then Kind.complex else Kind.float
      let o' := (resampleCalib d.shape d.origin d.sampling pairs).1
      let s' := (resampleCalib d.shape d.origin d.sampling pairs).2
      if inplace then
        .ok ({ d with shape := shape', data := none, kind := kind', origin := o', sampling := s' }, none)
      else
        match copy d with
        | .error e => .error e
        | .ok c => match setArray c shape' none kind' with
          | .error e => .error e
          | .ok c1 => match setSampling c1 (.list s') with
            | .error e => .error e
            | .ok c2 => match setOrigin c2 (.list o') with
              | .error e => .error e
              | .ok r => .ok (d, some r)

/-! ### __getitem__ -/

/-- the order in which `__getitem__` lists the kept axes' calibration: the order NumPy gives
the result axes -/
def calibOrder (p : Plan) : List Nat := p.order

/-- `Dataset.__getitem__` -/
def getitem (d : Ds) (ix : List Item) : Except Err Ds :=
  match plan d.shape ix with
  | .error e => .error e                     -- raised by `self.array[index]`
  | .ok p =>
    if p.multiList then
      -- several lists index pointwise: fewer result axes than kept calibrations,
      -- `validate_ndinfo` raises ValueError in `from_array`
      .error .value
    else
    let shape' := p.shape
    -- all axes indexed by integers: NumPy returns a scalar ("Array must be at least 1D",
    -- re-raised as TypeError) unless an Ellipsis is present, then a 0-d array
    if shape'.length = 0 ∧ !(ix.any Item.isEllipsis) then .error .type
    else
    let order := calibOrder p
    let cls' := if shape'.length = d.ndim then d.cls else registry shape'.length
    let origin' := order.map fun ax => d.origin.getD ax 0
    -- `new_sampling[j] *= idx.step` for slices with a step other than None / 1
    let sampling' := order.map fun ax => d.sampling.getD ax 0 * ((p.sels.getD ax default).step : Rat)
    let units' := order.map fun ax => d.units.getD ax ""
    fromArray cls' shape' (planData d p) d.kind (some (.list origin')) (some (.list sampling'))
      (some (.list units'))

/-! ### subclass methods that return datasets (dataset4dstem.py, dataset3d.py) -/

/-- `l[-2:]` -/
def last2 {β : Type} (l : List β) : List β := l.drop (l.length - 2)

/-- `np.mean(array, axis=(0, 1))` of a 4-D array: exact mean over the scan positions -/
def dpMeanData (shape : List Nat) (dat : List Val) : List Val :=
  let a : Arr Val := ⟨shape, dat⟩
  let n := shape.getD 0 0 * shape.getD 1 0
  (build (shape.drop 2) fun j =>
    (((allIdx (shape.take 2)).map fun s => a.get (s ++ j)).sum).divNat n).data

/-- `Dataset4dstem.get_dp_mean / get_dp_max / get_dp_median (attach=False)`:
`Dataset2d.from_array(reduce(array, axis=(0,1)), origin=self.origin[-2:], sampling=self.sampling[-2:],
units=self.units[-2:])`.  Values are tracked for the mean only. -/
def dpReduce (d : Ds) (kind : DpKind) : Except Err Ds :=
  if d.cls ≠ .d4stem then .error .attribute else       -- methods of Dataset4dstem only
  let data' : Option (List Val) := match kind with
    | .mean => d.data.map (dpMeanData d.shape)
    | _ => none
  -- mean / median of integers are floats; max keeps the dtype
  let kind' := match kind with
    | .max => d.kind
    | _ => if d.kind == .int || d.kind == .bool then Kind.float else d.kind
  fromArray .d2 (d.shape.drop 2) data' kind' (some (.list (last2 d.origin))) (some (.list (last2 d.sampling)))
    (some (.list (last2 d.units)))

/-- `np.sum(array * mask, axis=(-1, -2))` -/
def virtualImageData (shape : List Nat) (dat mask : List Val) : List Val :=
  let a : Arr Val := ⟨shape, dat⟩
  let m : Arr Val := ⟨shape.drop 2, mask⟩
  (build (shape.take 2) fun s =>
    ((allIdx (shape.drop 2)).map fun j => a.get (s ++ j) * m.get j).sum).data

/-- `Dataset4dstem.get_virtual_image(mask=mask, attach=False)`:
`Dataset2d.from_array(sum(array*mask, axis=(-1,-2)), origin=self.origin[0:2], …)` -/
def virtualImage (d : Ds) (maskShape : List Nat) (mask : List Val) : Except Err Ds :=
  if d.cls ≠ .d4stem then .error .attribute else
  if maskShape ≠ last2 d.shape then .error .value else   -- "Mask shape … does not match diffraction pattern shape"
  fromArray .d2 (d.shape.take 2) (d.data.map fun dat => virtualImageData d.shape dat mask)
    (if d.kind == .bool then Kind.int else d.kind)      -- bool * uint8 mask is an integer array
    (some (.list (d.origin.take 2))) (some (.list (d.sampling.take 2))) (some (.list (d.units.take 2)))

/-- `Dataset3d.to_dataset2d()[k]`: the list `[self[i] for i in range(self.shape[0])]` -/
def frame (d : Ds) (k : Nat) : Except Err Ds :=
  if d.cls ≠ .d3 then .error .attribute else
  if k < d.shape.getD 0 0 then getitem d [.int (k : Int)] else .error .index

/-! ### the state machine -/

/-- one public operation: the receiver afterwards and the dataset returned (if any) -/
def step (d : Ds) : Op → Except Err (Ds × Option Ds)
  | .copy => match copy d with
      | .error e => .error e
      | .ok c => .ok (d, some c)
  | .setOrigin v => match setOrigin d v with
      | .error e => .error e
      | .ok r => .ok (r, none)
  | .setSampling v => match setSampling d v with
      | .error e => .error e
      | .ok r => .ok (r, none)
  | .setUnits v => match setUnits d v with
      | .error e => .error e
      | .ok r => .ok (r, none)
  | .setArray sh dat k => match setArray d sh dat k with
      | .error e => .error e
      | .ok r => .ok (r, none)
  | .touch => .ok (d, none)
  | .pad a ip => pad d a ip
  | .crop w a ip => crop d w a ip
  | .bin f a m b ip => bin d f a m b ip
  | .resample a ax ip => resample d a ax ip
  | .getitem ix => match getitem d ix with
      | .error e => .error e
      | .ok r => .ok (d, some r)
  | .dpReduce k => match dpReduce d k with
      | .error e => .error e
      | .ok r => .ok (d, some r)
  | .virtualImage ms m => match virtualImage d ms m with
      | .error e => .error e
      | .ok r => .ok (d, some r)
  | .frame k => match frame d k with
      | .error e => .error e
      | .ok r => .ok (d, some r)

/-- a history: each operation with the choice of continuing on the returned dataset
(`true`, when one is returned) or on the receiver.  A raising operation leaves the receiver. -/
def run (d : Ds) : List (Op × Bool) → Ds
  | [] => d
  | (op, follow) :: rest =>
    match step d op with
    | .error _ => run d rest
    | .ok (d', r) =>
      match follow, r with
      | true, some x => run x rest
      | _, _ => run d' rest

/-- the in-place flag of an operation that has one -/
def Op.inplace? : Op → Option Bool
  | .pad _ ip => some ip | .crop _ _ ip => some ip | .bin _ _ _ _ ip => some ip
  | .resample _ _ ip => some ip | _ => none

def Op.setInplace (ip : Bool) : Op → Op
  | .pad a _ => .pad a ip | .crop w a _ => .crop w a ip | .bin f a m b _ => .bin f a m b ip
  | .resample a ax _ => .resample a ax ip | op => op

end QuantemModel.Dataset
