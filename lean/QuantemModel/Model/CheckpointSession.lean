/-
C05 — the call level of a reconstruction session: `Ptychography.reconstruct(...)` as the code processes its
arguments, branch by branch, INCLUDING the branches that raise part-way.  Core Lean only.

Anchors: diffractive_imaging/ptychography.py (`reconstruct`, `reset_recon`), ptychography_base.py (`reset_recon`,
`constraints` setter, `batch_size` setter), ptychography_opt.py (`optimizer_params` / `scheduler_params` setters,
`set_optimizers`, `set_schedulers`), core/ml/optimizer_mixin.py (`set_optimizer`,
`set_scheduler`, `remove_optimizer`, `reset_optimizer`), constraints.py (`add_constraint`),
dataset_models.py (`_set_targets`).

A call that raises returns the state it leaves behind and `true`; the caller carries on with that state.
-/
import QuantemModel.Model.Checkpoint

namespace QuantemModel.Checkpoint

/-- `f` applied `n` times (the `for a0 in range(num_iters)` loop) -/
def iterN {α : Type} (f : α → α) : Nat → α → α
  | 0, a => a
  | n + 1, a => iterN f n (f a)

/-! ### parameter re-creation (`model.reset()`) -/

def maxId : List PId → Nat
  | [] => 0
  | p :: ps => max p (maxId ps)

/-- an identity above every tensor the model or its optimizer refers to: `nn.Parameter(...)` creates NEW objects -/
def freshBase {θ μ σ : Type} (m : ModelSt θ μ σ) : Nat :=
  1 + max (maxId (m.params.map (·.1)))
        (match m.opt with
         | some o => max (maxId o.params) (maxId (o.state.map (·.1)))
         | none => 0)

/-- the recorded initial values in new tensors (identity shifted by `b`) — or, where `keep` says so, written into
the existing tensor -/
def renew {θ : Type} (b : Nat) : List (PId × θ) → List θ → List Bool → List (PId × θ)
  | [], _, _ => []
  | (p, x) :: ps, xs, keep =>
      ((if keep.headD false then p else p + b), xs.headD x) :: renew b ps xs.tail keep.tail

/-- `obj_model.reset()` / `probe_model.reset()` / `dset.reset()`: the optimizer is NOT touched -/
def resetParams {θ μ σ : Type} (m : ModelSt θ μ σ) : ModelSt θ μ σ :=
  { m with params := renew (freshBase m) m.params m.init m.keepId }

/-! ### optimizer / scheduler management of one model (`OptimizerMixin`) -/

/-- `remove_optimizer()` -/
def removeOptimizer {θ μ σ : Type} (m : ModelSt θ μ σ) : ModelSt θ μ σ :=
  { m with opt := none, optCfg := none, sched := none, schedCfg := none }

/-- `set_optimizer(self._optimizer_params)`; second component: the call raised (the optimizer is then unchanged) -/
def setOptimizer {θ μ σ : Type} (m : ModelSt θ μ σ) : ModelSt θ μ σ × Bool :=
  match m.optCfg with
  | none => ({ m with opt := none }, false)                 -- `if not self._optimizer_params: self._optimizer = None`
  | some c =>
      match c.kind with
      | .none_ => (removeOptimizer m, false)                -- `if opt_type == "none": self.remove_optimizer()`
      | .unknown => (m, true)                               -- NotImplementedError
      | .badkw => (m, true)                                 -- TypeError raised by the torch constructor
      -- a new optimizer over the current parameters, no state; the scheduler of the previous optimizer does not
      -- outlive it (`if self._scheduler.optimizer is not self._optimizer: self._scheduler = None`)
      | .ok => ({ m with opt := some { params := m.params.map (·.1), state := [], lr := c.lr, hyper := c.hyper },
                         sched := none }, false)

/-- what `set_scheduler` is handed: nothing (`None`), or a dict — empty, missing `"type"`, of unknown type, `"none"`, valid -/
inductive SchedArg where
  | empty
  | notype
  | unknown
  | cfg (isNone : Bool) (code : Nat)
  deriving Repr, DecidableEq

/-- the `scheduler_params` setter of the model: validates, then stores -/
def storeSched {θ μ σ : Type} (a : SchedArg) (m : ModelSt θ μ σ) : ModelSt θ μ σ × Bool :=
  match a with
  | .empty => ({ m with schedCfg := none }, false)
  | .notype => (m, true)                                    -- KeyError: 'type'
  | .unknown => (m, true)                                   -- ValueError: Unknown scheduler type
  | .cfg isNone code => ({ m with schedCfg := some (isNone, code) }, false)

/-- the second half of `set_scheduler` (the stored dict was validated when it was stored): `mk code lr` is the torch
constructor — it returns the scheduler and the learning rate it leaves in the optimizer -/
def buildSched {θ μ σ : Type} (mk : Nat → Nat → σ × Nat) (m : ModelSt θ μ σ) : ModelSt θ μ σ :=
  match m.schedCfg, m.opt with
  | some (false, code), some o =>
      let r := mk code o.lr
      { m with sched := some r.1, opt := some { o with lr := r.2 } }
  | _, _ => { m with sched := none }         -- no stored dict, no optimizer, or type "none"

/-- `reset_optimizer()`: `set_optimizer(self._optimizer_params); set_scheduler(self._scheduler_params)` -/
def resetOptimizer {θ μ σ : Type} (mk : Nat → Nat → σ × Nat) (m : ModelSt θ μ σ) : ModelSt θ μ σ × Bool :=
  let r := setOptimizer m
  if r.2 then r else (buildSched mk r.1, false)

/-! ### the three models -/

inductive Key where
  | object | probe | dataset
  deriving Repr, DecidableEq

def Key.ofString : String → Option Key
  | "object" => some .object
  | "probe" => some .probe
  | "dataset" => some .dataset
  | _ => none

def Recon.get {θ μ σ : Type} (r : Recon θ μ σ) : Key → ModelSt θ μ σ
  | .object => r.object
  | .probe => r.probe
  | .dataset => r.dataset

def Recon.set {θ μ σ : Type} (r : Recon θ μ σ) (k : Key) (m : ModelSt θ μ σ) : Recon θ μ σ :=
  match k with
  | .object => { r with object := m }
  | .probe => { r with probe := m }
  | .dataset => { r with dataset := m }

/-- apply a raising per-model operation to the models in `ks`, in order, stopping at the first that raises -/
def overKeys {θ μ σ : Type} (f : ModelSt θ μ σ → ModelSt θ μ σ × Bool) : List Key → Recon θ μ σ → Recon θ μ σ × Bool
  | [], r => (r, false)
  | k :: ks, r =>
      let x := f (r.get k)
      if x.2 then (r.set k x.1, true) else overKeys f ks (r.set k x.1)

def allKeys : List Key := [.object, .probe, .dataset]

/-! ### `reset_recon` -/

/-- `PtychographyBase.reset_recon`: new parameters for the three models, default object constraints, empty histories -/
def baseReset {θ μ σ : Type} (dflt : List (String × Nat)) (r : Recon θ μ σ) : Recon θ μ σ :=
  { r with object := { resetParams r.object with cons := dflt }, probe := resetParams r.probe,
           dataset := resetParams r.dataset, book := Book.empty }

/-- `Ptychography.reset_recon` as it is now: when rebuilding an optimizer is rejected, every optimizer is re-bound to
the live parameters (`reconnect_optimizer_to_parameters`) before the exception travels on -/
def resetRecon {θ μ σ : Type} (mk : Nat → Nat → σ × Nat) (dflt : List (String × Nat)) (r : Recon θ μ σ) : Recon θ μ σ × Bool :=
  let x := overKeys (resetOptimizer mk) allKeys (baseReset dflt r)
  if x.2 then (toDevice reconnect x.1, true) else x

/-- the code before commit 556a796: the exception leaves the optimizers of the failing model and of the models after
it bound to the discarded parameters -/
def resetReconUnrepaired {θ μ σ : Type} (mk : Nat → Nat → σ × Nat) (dflt : List (String × Nat)) (r : Recon θ μ σ) : Recon θ μ σ × Bool :=
  overKeys (resetOptimizer mk) allKeys (baseReset dflt r)

/-! ### the arguments of one `reconstruct` call -/

/-- one entry of the `constraints` dict: category, then (key, value, key is in DEFAULT_CONSTRAINTS) in dict order -/
structure ConsEntry where
  category : String
  items : List (String × Nat × Bool)
  deriving Repr

structure Call where
  /-- `batch_size` passes `validate_int` / `validate_gt` (None passes) -/
  batchOk : Bool := true
  reset : Bool := false
  cons : List ConsEntry := []
  /-- `optimizer_params` in dict order (`none`: argument not given) -/
  opt : Option (List (String × OptCfg)) := none
  /-- `scheduler_params` in dict order -/
  sched : Option (List (String × SchedArg)) := none
  /-- `loss_type` is one `_set_targets` knows -/
  lossOk : Bool := true
  /-- `num_iters` -/
  n : Nat := 0
  deriving Repr

/-- `add_constraint` for the items of one category; raises at the first unknown key (the earlier ones are set) -/
def addItems : List (String × Nat × Bool) → List (String × Nat) → List (String × Nat) × Bool
  | [], cs => (cs, false)
  | (k, v, ok) :: rest, cs => if ok then addItems rest (setKey k v cs) else (cs, true)

/-- the `constraints` setter: categories in dict order; "detector" is skipped with a warning; an unknown category raises -/
def setConstraints {θ μ σ : Type} : List ConsEntry → Recon θ μ σ → Recon θ μ σ × Bool
  | [], r => (r, false)
  | e :: rest, r =>
      match Key.ofString e.category with
      | some k =>
          let m := r.get k
          let x := addItems e.items m.cons
          let r' := r.set k { m with cons := x.1 }
          if x.2 then (r', true) else setConstraints rest r'
      | none => if e.category = "detector" then setConstraints rest r else (r, true)

/-- the `optimizer_params` setter of PtychographyOpt: stores each dict in its model, raises at the first unknown key -/
def storeOpts {θ μ σ : Type} : List (String × OptCfg) → Recon θ μ σ → Recon θ μ σ × Bool
  | [], r => (r, false)
  | (k, c) :: rest, r =>
      match Key.ofString k with
      | some key => storeOpts rest (r.set key { r.get key with optCfg := some c })
      | none => (r, true)

/-- `set_optimizers()`: the models that have a stored configuration, in the order object, probe, dataset -/
def setOptimizers {θ μ σ : Type} (r : Recon θ μ σ) : Recon θ μ σ × Bool :=
  overKeys setOptimizer (allKeys.filter (fun k => (r.get k).optCfg.isSome)) r

/-- the `scheduler_params` setter: the given keys in order, then `{}` for every model that was not named -/
def storeScheds {θ μ σ : Type} : List (String × SchedArg) → Recon θ μ σ → Recon θ μ σ × Bool
  | [], r => (r, false)
  | (k, a) :: rest, r =>
      match Key.ofString k with
      | some key =>
          let x := storeSched a (r.get key)
          if x.2 then (r.set key x.1, true) else storeScheds rest (r.set key x.1)
      | none => (r, true)

def fillScheds (given : List (String × SchedArg)) : List (String × SchedArg) :=
  given ++ (["object", "probe", "dataset"].filter (fun k => !given.any (·.1 == k))).map (fun k => (k, SchedArg.empty))

/-- `set_schedulers(self.scheduler_params, num_iters)` -/
def setSchedulers {θ μ σ : Type} (mk : Nat → Nat → σ × Nat) (r : Recon θ μ σ) : Recon θ μ σ :=
  { r with object := buildSched mk r.object, probe := buildSched mk r.probe, dataset := buildSched mk r.dataset }

/-- continue with `g` unless `x` raised -/
def andThen {α : Type} (x : α × Bool) (g : α → α × Bool) : α × Bool := if x.2 then x else g x.1

/-- **one `reconstruct(...)` call**, in the order of the source:
`batch_size` setter · `reset_recon()` · `constraints` setter · `optimizer_params` setter + `set_optimizers()` ·
`scheduler_params` setter · `set_schedulers` (if reset or either dict was given) · `_set_targets(loss_type)` · the
iteration loop.  Returns the state left behind and whether the call raised. -/
def exec {θ γ μ σ : Type} (S : Step θ γ μ σ) (mk : Nat → Nat → σ × Nat) (dflt : List (String × Nat)) (c : Call)
    (r : Recon θ μ σ) : Recon θ μ σ × Bool :=
  if !c.batchOk then (r, true) else
  andThen (if c.reset then resetRecon mk dflt r else (r, false)) fun r =>
  andThen (setConstraints c.cons r) fun r =>
  andThen (match c.opt with
           | some d => andThen (storeOpts d r) setOptimizers
           | none => (r, false)) fun r =>
  andThen (match c.sched with
           | some d => storeScheds (fillScheds d) r
           | none => (r, false)) fun r =>
  let r := if c.reset || c.opt.isSome || c.sched.isSome then setSchedulers mk r else r
  if !c.lossOk then (r, true) else
  (iterN (iter S) c.n r, false)

/-- a history of calls on one object: the caller carries on after a rejected call -/
def runCalls {θ γ μ σ : Type} (S : Step θ γ μ σ) (mk : Nat → Nat → σ × Nat) (dflt : List (String × Nat))
    (cs : List Call) (r : Recon θ μ σ) : Recon θ μ σ :=
  cs.foldl (fun r c => (exec S mk dflt c r).1) r

/-- the same with the unrepaired `reset_recon` -/
def execUnrepaired {θ γ μ σ : Type} (S : Step θ γ μ σ) (mk : Nat → Nat → σ × Nat) (dflt : List (String × Nat)) (c : Call)
    (r : Recon θ μ σ) : Recon θ μ σ × Bool :=
  if !c.batchOk then (r, true) else
  andThen (if c.reset then resetReconUnrepaired mk dflt r else (r, false)) fun r =>
  andThen (setConstraints c.cons r) fun r =>
  andThen (match c.opt with
           | some d => andThen (storeOpts d r) setOptimizers
           | none => (r, false)) fun r =>
  andThen (match c.sched with
           | some d => storeScheds (fillScheds d) r
           | none => (r, false)) fun r =>
  let r := if c.reset || c.opt.isSome || c.sched.isSome then setSchedulers mk r else r
  if !c.lossOk then (r, true) else
  (iterN (iter S) c.n r, false)

def runCallsUnrepaired {θ γ μ σ : Type} (S : Step θ γ μ σ) (mk : Nat → Nat → σ × Nat) (dflt : List (String × Nat))
    (cs : List Call) (r : Recon θ μ σ) : Recon θ μ σ :=
  cs.foldl (fun r c => (execUnrepaired S mk dflt c r).1) r

/-! ### session invariant -/

/-- every model has optimisable parameters (torch rejects an empty parameter list) -/
def Recon.nonempty {θ μ σ : Type} (r : Recon θ μ σ) : Prop :=
  r.object.params ≠ [] ∧ r.probe.params ≠ [] ∧ r.dataset.params ≠ []

/-- what a checkpoint needs and every call keeps: optimizers bound to the live parameters -/
def Recon.swf {θ μ σ : Type} (r : Recon θ μ σ) : Prop := r.wf ∧ r.nonempty

end QuantemModel.Checkpoint
