import QuantemModel.Core.Proto
import QuantemModel.Model.Dataset
import QuantemModel.Model.DatasetHeap
/- JSON codec and protocol step of the Dataset state machine (shared by the C03 and C06 drivers). -/
open Lean QuantemModel QuantemModel.Proto QuantemModel.Nd QuantemModel.Dataset

namespace DrvC03

def ratOfJson (j : Json) : Except String Rat :=
  match j with
  | .num n => if n.exponent == 0 then pure (n.mantissa : Rat) else throw "rat: decimal"
  | .str s =>
      match s.splitOn "/" with
      | [a] => match a.toInt? with
          | some i => pure (i : Rat)
          | none => throw "rat"
      | [a, b] => match a.toInt?, b.toNat? with
          | some i, some d => pure (mkRat i d)
          | _, _ => throw "rat"
      | _ => throw "rat"
  | _ => throw "rat"

def ratToJson (q : Rat) : Json :=
  if q.den == 1 then Json.num (JsonNumber.fromInt q.num) else Json.str s!"{q.num}/{q.den}"

def ratList (j : Json) : Except String (List Rat) := do
  (← j.getArr?).toList.mapM ratOfJson

def optInt (j : Json) : Except String (Option Int) :=
  match j with
  | .null => pure none
  | _ => do pure (some (← j.getInt?))

def pairOfJson (j : Json) : Except String (Int × Int) := do
  let a ← j.getArr?
  if a.size != 2 then throw "pair" else pure (← a[0]!.getInt?, ← a[1]!.getInt?)

def clsOfStr : String → Except String DsClass
  | "Dataset" => pure .base | "Dataset2d" => pure .d2 | "Dataset3d" => pure .d3
  | "Dataset4d" => pure .d4 | "Dataset4dstem" => pure .d4stem | s => throw s!"cls {s}"
def clsToStr : DsClass → String
  | .base => "Dataset" | .d2 => "Dataset2d" | .d3 => "Dataset3d" | .d4 => "Dataset4d"
  | .d4stem => "Dataset4dstem"
def kindOfStr : String → Except String Kind
  | "bool" => pure .bool | "int" => pure .int | "float" => pure .float | "complex" => pure .complex | s => throw s!"kind {s}"
def kindToStr : Kind → String | .bool => "bool" | .int => "int" | .float => "float" | .complex => "complex"

def errName : Err → String
  | .value => "ValueError" | .type => "TypeError" | .index => "IndexError"
  | .zeroDiv => "ZeroDivisionError" | .attribute => "AttributeError"

def ndinfoOfJson (j : Json) : Except String (Option NdInfo) :=
  match j with
  | .null => pure none
  | _ =>
    match j.getObjVal? "s" with
    | .ok v => do pure (some (.scalar (← ratOfJson v)))
    | .error _ => match j.getObjVal? "l" with
      | .ok v => do pure (some (.list (← ratList v)))
      | .error _ => pure (some .badType)

def unitsOfJson (j : Json) : Except String (Option UnitsArg) :=
  match j with
  | .null => pure none
  | _ =>
    match j.getObjVal? "s" with
    | .ok v => do pure (some (.str (← v.getStr?)))
    | .error _ => match j.getObjVal? "l" with
      | .ok v => do pure (some (.list (← (← v.getArr?).toList.mapM (·.getStr?))))
      | .error _ => pure (some .badType)

/-- array payload: shape, re, optional im, kind; `re = null` → values not tracked -/
def arrayOfJson (j : Json) : Except String (List Nat × Option (List Val) × Kind) := do
  let shape ← natList (← field j "shape")
  let kind ← kindOfStr (← strField j "kind")
  match fieldD j "re" Json.null with
  | .null => pure (shape, none, kind)
  | rej =>
    let re ← ratList rej
    let im ← match fieldD j "im" Json.null with
      | .null => pure (re.map fun _ => (0 : Rat))
      | imj => ratList imj
    pure (shape, some (List.zipWith (fun a b => (⟨a, b⟩ : Val)) re im), kind)

def axesOfJson (j : Json) : Except String AxesArg :=
  match j with
  | .null => pure .all
  | _ => match j.getObjVal? "one" with
    | .ok v => do pure (.one (← v.getInt?))
    | .error _ => do pure (.many (← intList (← field j "many")))

def padOfJson (j : Json) : Except String PadArg :=
  match j with
  | .str "both" => pure .both
  | .str "neither" => pure .neither
  | _ =>
    match j.getObjVal? "all" with
    | .ok v => do pure (.width (.all (← v.getInt?)))
    | .error _ => match j.getObjVal? "pair" with
      | .ok v => do let p ← pairOfJson v; pure (.width (.pair p.1 p.2))
      | .error _ => match j.getObjVal? "per" with
        | .ok v => do pure (.width (.perAxis (← (← v.getArr?).toList.mapM pairOfJson)))
        | .error _ => do pure (.outShape (← intList (← field j "out")))

def facOfJson (j : Json) : Except String FacArg :=
  match j with
  | .str _ => pure .badType
  | _ => match j.getObjVal? "one" with
    | .ok v => do pure (.one (← v.getInt?))
    | .error _ => do pure (.many (← (← arrField j "many").toList.mapM optInt))

def rsOfJson (j : Json) : Except String RsArg :=
  match j with
  | .str "both" => pure .both
  | .str "neither" => pure .neither
  | _ => match j.getObjVal? "out" with
    | .ok v => do pure (.outShape (← intList v))
    | .error _ => match j.getObjVal? "f1" with
      | .ok v => do pure (.factor1 (← ratOfJson v))
      | .error _ => do pure (.factors (← ratList (← field j "fs")))

def itemOfJson (j : Json) : Except String Item :=
  match j with
  | .str _ => pure .ellipsis
  | _ => match j.getObjVal? "i" with
    | .ok v => do pure (.int (← v.getInt?))
    | .error _ => match j.getObjVal? "l" with
      | .ok v => do pure (.list (← intList v))
      | .error _ => do
        let a ← arrField j "s"
        if a.size != 3 then throw "slice" else
        pure (.slice (← optInt a[0]!) (← optInt a[1]!) (← optInt a[2]!))

def dsToJson (d : Ds) : Json :=
  let (re, im) := match d.data with
    | none => (Json.null, Json.null)
    | some vs =>
      (Json.arr (vs.map fun v => ratToJson v.re).toArray,
       if d.kind == .complex then Json.arr (vs.map fun v => ratToJson v.im).toArray else Json.null)
  Json.mkObj [("cls", Json.str (clsToStr d.cls)),
    ("shape", Json.arr (d.shape.map fun n => Json.num (JsonNumber.fromNat n)).toArray),
    ("kind", Json.str (kindToStr d.kind)), ("re", re), ("im", im),
    ("origin", Json.arr (d.origin.map ratToJson).toArray),
    ("sampling", Json.arr (d.sampling.map ratToJson).toArray),
    ("units", Json.arr (d.units.map Json.str).toArray)]

structure St where
  cur : Option Ds := none

def opOfJson (j : Json) : Except String Op := do
  let op ← strField j "op"
  let ip := (boolField j "inplace").toOption.getD false
  match op with
  | "copy" => pure .copy
  | "touch" => pure .touch
  | "set_origin" => match ← ndinfoOfJson (← field j "v") with
      | some v => pure (.setOrigin v) | none => throw "v"
  | "set_sampling" => match ← ndinfoOfJson (← field j "v") with
      | some v => pure (.setSampling v) | none => throw "v"
  | "set_units" => match ← unitsOfJson (← field j "v") with
      | some v => pure (.setUnits v) | none => throw "v"
  | "set_array" =>
      let (sh, dat, k) ← arrayOfJson (← field j "array")
      pure (.setArray sh dat k)
  | "pad" => pure (.pad (← padOfJson (← field j "arg")) ip)
  | "crop" =>
      let ws ← (← arrField j "widths").toList.mapM pairOfJson
      pure (.crop ws (← axesOfJson (fieldD j "axes" Json.null)) ip)
  | "bin" =>
      pure (.bin (← facOfJson (← field j "f")) (← axesOfJson (fieldD j "axes" Json.null))
        ((boolField j "mean").toOption.getD false) ((boolField j "bad_reducer").toOption.getD false) ip)
  | "resample" =>
      pure (.resample (← rsOfJson (← field j "arg")) (← axesOfJson (fieldD j "axes" Json.null)) ip)
  | "getitem" => pure (.getitem (← (← arrField j "ix").toList.mapM itemOfJson))
  | "dp" =>
      let k ← strField j "kind"
      pure (.dpReduce (match k with | "max" => .max | "median" => .median | _ => .mean))
  | "vimg" =>
      let (sh, dat, _) ← arrayOfJson (← field j "mask")
      pure (.virtualImage sh (dat.getD []))
  | "frame" => pure (.frame (← natField j "k"))
  | _ => throw s!"unknown op {op}"

def stJson (st : St) : Json := match st.cur with | none => Json.null | some d => dsToJson d

def hopOfJson (j : Json) : Except String DatasetHeap.HOp := do
  let a ← j.getArr?
  let k ← (a[0]!).getStr?
  let i := ((a[1]?.getD (Json.num 0)).getNat?).toOption.getD 0
  match k with
  | "new" => pure .new | "copy" => pure (.copy i) | "padIp" => pure (.padIp i) | "padCp" => pure (.padCp i)
  | "cropIp" => pure (.cropIp i) | "cropCp" => pure (.cropCp i) | "binIp" => pure (.binIp i)
  | "binCp" => pure (.binCp i) | "resampleIp" => pure (.resampleIp i) | "resampleCp" => pure (.resampleCp i)
  | "getitemView" => pure (.getitemView i) | "getitemCopy" => pure (.getitemCopy i) | "derived" => pure (.derived i)
  | "setOrigin" => pure (.setOrigin i) | "setSampling" => pure (.setSampling i) | "setArray" => pure (.setArray i)
  | "writeOrigin" => pure (.writeOrigin i 1) | "writeSampling" => pure (.writeSampling i 1)
  | "writeArray" => pure (.writeArray i 1)
  | _ => throw s!"heap op {k}"

def boolMatrix (m : List (List Bool)) : Json :=
  Json.arr (m.map fun r => Json.arr (r.map Json.bool).toArray).toArray

def step (st : St) (j : Json) : St × Json :=
  match (do
    let op ← strField j "op"
    if op == "heap" then
      -- reference bookkeeping of a whole history: which objects hold the same buffer / calibration cells
      let ops ← (← arrField j "ops").toList.mapM hopOfJson
      let s := DatasetHeap.run DatasetHeap.init ops
      pure (st, Json.mkObj [("buf", boolMatrix (DatasetHeap.shareMatrix s)), ("cal", boolMatrix (DatasetHeap.calShare s))])
    else if op == "new" then
      let (sh, dat, k) ← arrayOfJson (← field j "array")
      let cls ← clsOfStr (← strField j "cls")
      let o ← ndinfoOfJson (fieldD j "origin" Json.null)
      let s ← ndinfoOfJson (fieldD j "sampling" Json.null)
      let u ← unitsOfJson (fieldD j "units" Json.null)
      match fromArray cls sh dat k o s u with
      | .ok d => pure (({ cur := some d } : St), Json.mkObj [("r", okJson Json.null), ("st", dsToJson d)])
      | .error e => pure (({ cur := none } : St), Json.mkObj [("r", errJson (errName e)), ("st", Json.null)])
    else
      let o ← opOfJson j
      let follow := (boolField j "follow").toOption.getD false
      match st.cur with
      | none => throw "no dataset"
      | some d =>
        match Dataset.step d o with
        | .error e => pure (st, Json.mkObj [("r", errJson (errName e)), ("recv", dsToJson d)])
        | .ok (d', r) =>
          let rj := match r with | none => Json.null | some x => dsToJson x
          let next := match follow, r with | true, some x => x | _, _ => d'
          pure (({ cur := some next } : St),
                Json.mkObj [("r", okJson rj), ("recv", dsToJson d')])
    : Except String (St × Json)) with
  | .ok r => r
  | .error e => (st, errJson s!"driver:{e}")

end DrvC03

