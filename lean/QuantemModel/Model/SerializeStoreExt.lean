import QuantemModel.Model.SerializeExt
import QuantemModel.Model.SaveInstall
/-
C01, growth round 6 (own file; core Lean only): ONE `save()` call end to end on one target path —
front end (`resolveSave`: level / store / path / write protection), core (`save {} v` = `encode`), back end
(`SaveInstall.install`: `_install()` on the KIND of directory entry it meets: nothing, file, empty / non-empty
directory, symbolic link to a directory / a file / nothing) — and `load()` from what is then at the target.

The history model of round 5 (`hstep`) ASSUMES "a target holds what the last save that returned normally
wrote"; here that sentence is the result of running `_install()` on every kind of entry, for the file the zip
store stages and for the directory the dir store stages (`Props/C01Ext.lean`: `saveOnto_roundtrip`,
`saveOnto_config_independent`, `saveOnto_refines_hstep`).
-/
namespace QuantemModel.Serialize
open QuantemModel

/-- what sits at the target path: the kind of directory entry and — when a completed `save()` put it
there — the stored object tree (`none`: a foreign file / directory / link, nothing `load` can read) -/
structure Slot where
  kind : SaveInstall.Kind
  content : Option Saved
  deriving Repr, Inhabited

inductive StoreErr where
  | call (e : CallErr)       -- raised by the argument checks / by load
  | os (e : String)          -- raised by a filesystem primitive inside `_install()`
  deriving Repr, Inhabited

/-- the entry staging leaves next to the target: `ZipFile(staged, "w")` writes a FILE, `os.makedirs(staged)` +
`LocalStore(staged)` a non-empty DIRECTORY -/
def stagedKind (store : String) : SaveInstall.Kind := if store = "zip" then .file else .dir false

/-- the kind of entry at the target (`none` = nothing there) -/
def slotEnt (s : Option Slot) : SaveInstall.Ent := s.map (·.kind)

/-- what `load` would read at the target -/
def slotContent (s : Option Slot) : Option Saved := s.bind (·.content)

/-- `obj.save(path, mode, store, compression_level)` onto ONE target, whatever sits there:
```
<argument checks>                      -- resolveSave; `os.path.lexists(path)` on the entry
staged = f"{path}.tmp-{uuid}" ; write everything to staged
_install()                             -- SaveInstall.install on the entry kinds
```
Returns what is at the target afterwards. -/
def saveOnto (pre : Option Slot) (v : Val) (a : SaveArgs) : Except StoreErr (Option Slot) :=
  match resolveSave (fun _ => SaveInstall.lexists (slotEnt pre)) a with
  | .error e => .error (.call e)                                        -- rejected before anything is written
  | .ok (store, _) =>
      match SaveInstall.install (some (stagedKind store)) (slotEnt pre) with
      | .error e => .error (.os e)                                      -- `_discard(); raise`
      | .ok (_, none) => .ok none
      | .ok (_, some k) => .ok (some ⟨k, some (save {} v)⟩)             -- os.replace moved the staged tree

/-- `load(path)` from what is at the target -/
def loadFrom : Option Slot → Except StoreErr Val
  | none => .error (.call .fileNotFound)
  | some ⟨_, none⟩ => .error (.call .valueError)
  | some ⟨_, some s⟩ =>
      match load {} s with
      | .ok v => .ok v
      | .error e => .error (.call (errOfLoad e))

/-- pre-states in which the coarse history model (`hstep`: a path exists iff an object was saved there) and
the entry-kind model agree: whatever is at the target was put there by a completed save -/
def slotTracked (s : Option Slot) : Bool :=
  match s with
  | none => true
  | some ⟨_, c⟩ => c.isSome

/-- a HISTORY of `save()` calls onto the one target (any graphs, any configurations); a call that raises leaves
the entry as it was (`_discard()`; the argument checks touch nothing) -/
def soRun (pre : Option Slot) : List (Val × SaveArgs) → Option Slot
  | [] => pre
  | (v, a) :: rest =>
      match saveOnto pre v a with
      | .ok post => soRun post rest
      | .error _ => soRun pre rest

end QuantemModel.Serialize
