import QuantemModel.Model.DirectPtycho
/-!
# Half-set masks of `DirectPtychography` (growth round 6, property C04)

`_make_checkerboard_bf_masks(gpts, bf_mask)` and the two `reconstruct(bf_mask=…)` calls of
`_reconstruct_with_halfsets`: the construction mask is split by a checkerboard pattern into two complementary
sub-masks, each of which goes through `_return_bf_context` (model: `bfContext` / `indexMapping`).
Core Lean only; flattened row-major boolean masks as everywhere in `Model/DirectPtycho.lean`.
-/
namespace QuantemModel.DirectPtycho

/-- `torch.fft.ifftshift(((i_grid + j_grid) % 2).bool())` on a `gr × gc` grid: `ifftshift` rolls axis `a` by
`-(n_a // 2)`, so entry `(i, j)` is the parity of `((i + gr//2) mod gr) + ((j + gc//2) mod gc)` -/
def checkerboard (gr gc : Nat) : List Bool :=
  (List.range (gr * gc)).map fun p =>
    (((p / gc + gr / 2) % gr + (p % gc + gc / 2) % gc) % 2 == 1)

/-- `bf1 = bf_mask & pattern; bf2 = bf_mask & (~pattern)` for ANY boolean pattern of the mask's shape -/
def splitBy (mask pat : List Bool) : List Bool × List Bool :=
  (List.zipWith (fun m c => m && c) mask pat, List.zipWith (fun m c => m && !c) mask pat)

/-- `_make_checkerboard_bf_masks(gpts, bf_mask)` -/
def halfsetMasks (gr gc : Nat) (mask : List Bool) : List Bool × List Bool :=
  splitBy mask (checkerboard gr gc)

/-- what the two `reconstruct(bf_mask=bf1 / bf2)` calls of `_reconstruct_with_halfsets` get from
`_return_bf_context`: the two half masks with their bf contexts (`cols` = detector columns) -/
def halfsetContexts (gr gc : Nat) (mask : List Bool) : Except Err (BFContext × BFContext) := do
  let h := halfsetMasks gr gc mask
  let b1 ← bfContext gc mask h.1
  let b2 ← bfContext gc mask h.2
  pure (b1, b2)

end QuantemModel.DirectPtycho
