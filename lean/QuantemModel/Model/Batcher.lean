/-
Model of the mini-batch scheduling code (property C09).  Core Lean only.

  * `SimpleBatcher`            src/quantem/diffractive_imaging/ptycho_utils.py
  * `subdivide_batches`, `generate_batches`   src/quantem/core/utils/utils.py
  * the batch-fraction scaling of `error_estimate`   src/quantem/diffractive_imaging/ptychography_base.py
  * the per-epoch averaging of `Ptychography.reconstruct`   src/quantem/diffractive_imaging/ptychography.py

The permutations drawn from the NumPy generator are *inputs* of the model, so every theorem
holds for every shuffle the RNG could produce.
-/
import QuantemModel.Core.Num

namespace QuantemModel.Batcher

/-! ### strided slicing -/

/-- `[l[i : i + b] for i in range(0, len(l), b)]`; `fuel` bounds the number of slices
(`len(l)` always suffices when `b ≥ 1`). -/
def chunksAux {α : Type} (b : Nat) : Nat → List α → List (List α)
  | 0, _ => []
  | _ + 1, [] => []
  | fuel + 1, x :: xs => (x :: xs).take b :: chunksAux b fuel ((x :: xs).drop b)

/-- `for i in range(0, len(l), b): yield l[i : i + b]`  (`b ≥ 1`; Python raises for `b = 0`,
the driver reports that case separately). -/
def chunks {α : Type} (b : Nat) (l : List α) : List (List α) := chunksAux b l.length l

/-- `l[::k]` written with a countdown to the next kept element (`k ≥ 1`). -/
def strideAux {α : Type} (k : Nat) : Nat → List α → List α
  | _, [] => []
  | 0, x :: xs => x :: strideAux k (k - 1) xs
  | i + 1, _ :: xs => strideAux k i xs

/-- `l[::k]` -/
def stride {α : Type} (k : Nat) (l : List α) : List α := strideAux k 0 l

/-- `np.setdiff1d(a, b)` for an `a` that is already sorted and duplicate free (it is only
called with `a = np.arange(num)`): the elements of `a` that do not occur in `b`, in order. -/
def setdiff (a b : List Nat) : List Nat := a.filter (fun x => !b.contains x)

/-- `ceil(m / b)` on naturals -/
def ceilDiv (m b : Nat) : Nat := (m + b - 1) / b

/-! ### the split of `SimpleBatcher.__init__` -/

inductive Mode where
  | grid
  | random
  deriving Repr, DecidableEq

structure Split where
  train : List Nat
  val : List Nat
  deriving Repr, DecidableEq

/-- The split once `n_val`, the grid step `k` and the `invert` flag are known.  `perm` is the
permutation of `arange(n)` drawn by `rng.permutation` (used in random mode only). -/
def splitWith (n nVal : Nat) (mode : Mode) (k : Nat) (invert : Bool) (perm : List Nat) : Split :=
  let indices := List.range n                                   -- self.indices = np.arange(num)
  if nVal > 0 then                                              -- if n_val > 0:
    match mode with
    | .random =>                                                --   if val_mode == "random":
        let val := perm.take nVal                               --     perm[:n_val]
        { train := setdiff indices val, val := val }            --     np.setdiff1d(indices, val)
    | .grid =>                                                  --   else:
        let sel := stride k indices                             --     grid_sel = self.indices[::k]
        let sel := if sel.length > nVal then sel.take nVal else sel  -- if len(grid_sel) > n_val: grid_sel[:n_val]
        if invert then
          { train := sel, val := setdiff indices sel }          --     invert: train = grid_sel
        else
          { train := setdiff indices sel, val := sel }          --     else: val = grid_sel
  else
    { train := indices, val := [] }                             -- else: val = [], train = indices

/-- Python's `round(x)` on a finite float (ties to even), as an integer. -/
def pyRound (x : Float) : Int :=
  let f := x.floor
  let d := x - f                       -- exact in binary64 for |x| < 2^52
  let fi := f.toInt64.toInt
  if d < 0.5 then fi else if d > 0.5 then fi + 1 else if fi % 2 == 0 then fi else fi + 1

/-- `val_ratio` after validation: `if val_ratio < 0 or val_ratio >= 1: val_ratio = 0.0` -/
def cleanRatio (ratio : Float) : Float := if ratio < 0 || ratio >= 1 then 0.0 else ratio

/-- `n_val = int(round(len(self.indices) * val_ratio))` -/
def nValOf (n : Nat) (ratio : Float) : Nat := (pyRound (Float.ofNat n * ratio)).toNat

/-- grid step and invert flag:
`k = max(1, int(round(1.0 / val_ratio)))` if `val_ratio <= 0.5`,
else `k = max(1, int(round(1.0 / (1.0 - val_ratio))))` with `invert = True`. -/
def gridStep (ratio : Float) : Nat × Bool :=
  if ratio <= 0.5 then (Nat.max 1 (pyRound (1.0 / ratio)).toNat, false)
  else (Nat.max 1 (pyRound (1.0 / (1.0 - ratio))).toNat, true)

/-- `SimpleBatcher.__init__` without user supplied indices. -/
def split (n : Nat) (ratio : Float) (mode : Mode) (perm : List Nat) : Split :=
  let r := cleanRatio ratio
  let ks := gridStep r
  splitWith n (nValOf n r) mode ks.1 ks.2 perm

/-! ### iteration -/

/-- `SimpleBatcher.__iter__`: `order` is `rng.permutation(train_indices)` if `shuffle`
else `train_indices`. -/
def epoch (b : Nat) (order : List Nat) : List (List Nat) := chunks b order

/-- `SimpleBatcher.__len__`: `int(ceil(len(self.train_indices) / self.batch_size))` -/
def numBatches (b : Nat) (train : List Nat) : Nat := ceilDiv train.length b

/-- `SimpleBatcher.iter_val` (never shuffled; empty iterator when there is no validation set) -/
def iterVal (b : Nat) (val : List Nat) : List (List Nat) :=
  if val.length == 0 then [] else chunks b val

/-- `SimpleBatcher.val_len` -/
def valLen (b : Nat) (val : List Nat) : Nat :=
  if val.length > 0 then ceilDiv val.length b else 0

/-! ### `subdivide_batches` / `generate_batches` -/

inductive SubErr where
  | runtimeError
  | valueError
  | zeroDivisionError
  deriving Repr, DecidableEq

/-- the number of batches: given, or `(num_items + max_batch - 1) // max_batch` -/
def resolveNumBatches (numItems : Nat) : Option Nat → Option Nat → Except SubErr Nat
  | some _, some _ => .error .runtimeError         -- "Specify only one of ..."
  | none, none => .error .runtimeError             -- "Must provide either ..."
  | some nb, none => .ok nb
  | none, some mb => if mb = 0 then .error .zeroDivisionError else .ok ((numItems + mb - 1) / mb)

/-- `[base + 1] * remainder + [base] * (num_batches - remainder)` -/
def batchSizes (numItems nb : Nat) : List Nat :=
  List.replicate (numItems % nb) (numItems / nb + 1) ++ List.replicate (nb - numItems % nb) (numItems / nb)

def subdivideBatches (numItems : Nat) (numBatches maxBatch : Option Nat) : Except SubErr (List Nat) :=
  match resolveNumBatches numItems numBatches maxBatch with
  | .error e => .error e
  | .ok nb =>
    if numItems < nb then .error .valueError        -- "`num_batches` may not exceed `num_items`."
    else if nb = 0 then .error .zeroDivisionError   -- num_items // 0
    else .ok (batchSizes numItems nb)

/-- the `(start, end)` pairs yielded by `generate_batches` for given batch sizes -/
def rangesFrom : Nat → List Nat → List (Nat × Nat)
  | _, [] => []
  | idx, s :: ss => (idx, idx + s) :: rangesFrom (idx + s) ss

def generateBatches (numItems : Nat) (numBatches maxBatch : Option Nat) (start : Nat) :
    Except SubErr (List (Nat × Nat)) :=
  match subdivideBatches numItems numBatches maxBatch with
  | .error e => .error e
  | .ok sizes => .ok (rangesFrom start sizes)

/-! ### loss scaling (`error_estimate`) and per-epoch averaging (`reconstruct`) -/

section Loss
variable {R : Type} [Num R]

/-- `error_estimate` for the l1/l2 losses, given the per-pattern sums
`s_i = Σ_pixels |diff_i|^p` of the patterns of one batch:
`error = sum / (diff.shape[0] / num_gpts)`, `loss = error / mean_diffraction_intensity`. -/
def batchLoss (numGpts : Nat) (mu : R) (perPattern : List R) : R :=
  Num.sum perPattern / (Num.ofNat perPattern.length / Num.ofNat numGpts) / mu

/-- the value `reconstruct` records for an epoch: the sum of the batch losses divided by
`len(batcher)`; `ell i` is the per-pattern sum of pattern `i`. -/
def epochLoss (numGpts : Nat) (mu : R) (b : Nat) (order : List Nat) (ell : Nat → R) : R :=
  Num.sum ((epoch b order).map (fun B => batchLoss numGpts mu (B.map ell)))
    / Num.ofNat (numBatches b order)

end Loss

end QuantemModel.Batcher
