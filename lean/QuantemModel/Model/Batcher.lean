/-
Model of the mini-batch scheduling code (property C09).  Core Lean only.

  * `SimpleBatcher`            src/quantem/diffractive_imaging/ptycho_utils.py
  * `subdivide_batches`, `generate_batches`   src/quantem/core/utils/utils.py
  * the batch-fraction scaling of `error_estimate`   src/quantem/diffractive_imaging/ptychography_base.py
  * the per-epoch averaging of `Ptychography.reconstruct`   src/quantem/diffractive_imaging/ptychography.py

The permutations drawn from the NumPy generator are *inputs* of the model, so every theorem
holds for every shuffle the RNG could produce.
-/
import QuantemModel.Core.Num

namespace QuantemModel.Batcher

/-! ### strided slicing -/

/-- `[l[i : i + b] for i in range(0, len(l), b)]`; `fuel` bounds the number of slices
(`len(l)` always suffices when `b ≥ 1`). -/
def chunksAux {α : Type} (b : Nat) : Nat → List α → List (List α)
  | 0, _ => []
  | _ + 1, [] => []
  | fuel + 1, x :: xs => (x :: xs).take b :: chunksAux b fuel ((x :: xs).drop b)

/-- `for i in range(0, len(l), b): yield l[i : i + b]`  (`b ≥ 1`; Python raises for `b = 0`,
the driver reports that case separately). -/
def chunks {α : Type} (b : Nat) (l : List α) : List (List α) := chunksAux b l.length l

/-- `l[::k]` written with a countdown to the next kept element (`k ≥ 1`). -/
def strideAux {α : Type} (k : Nat) : Nat → List α → List α
  | _, [] => []
  | 0, x :: xs => x :: strideAux k (k - 1) xs
  | i + 1, _ :: xs => strideAux k i xs

/-- `l[::k]` -/
def stride {α : Type} (k : Nat) (l : List α) : List α := strideAux k 0 l

/-- `np.setdiff1d(a, b)` for an `a` that is already sorted and duplicate free (it is only
called with `a = np.arange(num)`): the elements of `a` that do not occur in `b`, in order. -/
def setdiff (a b : List Nat) : List Nat := a.filter (fun x => !b.contains x)

/-- `ceil(m / b)` on naturals -/
def ceilDiv (m b : Nat) : Nat := (m + b - 1) / b

/-! ### the split of `SimpleBatcher.__init__` -/

inductive Mode where
  | grid
  | random
  deriving Repr, DecidableEq

structure Split where
  train : List Nat
  val : List Nat
  deriving Repr, DecidableEq

/-- The split once `n_val`, the grid step `k` and the `invert` flag are known.  `perm` is the
permutation of `arange(n)` drawn by `rng.permutation` (used in random mode only). -/
def splitWith (n nVal : Nat) (mode : Mode) (k : Nat) (invert : Bool) (perm : List Nat) : Split :=
  let indices := List.range n                                   -- self.indices = np.arange(num)
  if nVal > 0 then                                              -- if n_val > 0:
    match mode with
    | .random =>                                                --   if val_mode == "random":
        let val := perm.take nVal                               --     perm[:n_val]
        { train := setdiff indices val, val := val }            --     np.setdiff1d(indices, val)
    | .grid =>                                                  --   else:
        let sel := stride k indices                             --     grid_sel = self.indices[::k]
        let sel := if sel.length > nVal then sel.take nVal else sel  -- if len(grid_sel) > n_val: grid_sel[:n_val]
        if invert then
          { train := sel, val := setdiff indices sel }          --     invert: train = grid_sel
        else
          { train := setdiff indices sel, val := sel }          --     else: val = grid_sel
  else
    { train := indices, val := [] }                             -- else: val = [], train = indices

/-- Python's `round(x)` on a finite float (ties to even), as an integer. -/
def pyRound (x : Float) : Int :=
  let f := x.floor
  let d := x - f                       -- exact in binary64 for |x| < 2^52
  let fi := f.toInt64.toInt
  if d < 0.5 then fi else if d > 0.5 then fi + 1 else if fi % 2 == 0 then fi else fi + 1

/-- `val_ratio` after validation: `if val_ratio < 0 or val_ratio >= 1: val_ratio = 0.0` -/
def cleanRatio (ratio : Float) : Float := if ratio < 0 || ratio >= 1 then 0.0 else ratio

/-- `n_val = int(round(len(self.indices) * val_ratio))` -/
def nValOf (n : Nat) (ratio : Float) : Nat := (pyRound (Float.ofNat n * ratio)).toNat

/-- grid step and invert flag:
`k = max(1, int(round(1.0 / val_ratio)))` if `val_ratio <= 0.5`,
else `k = max(1, int(round(1.0 / (1.0 - val_ratio))))` with `invert = True`. -/
def gridStep (ratio : Float) : Nat × Bool :=
  if ratio <= 0.5 then (Nat.max 1 (pyRound (1.0 / ratio)).toNat, false)
  else (Nat.max 1 (pyRound (1.0 / (1.0 - ratio))).toNat, true)

/-- `SimpleBatcher.__init__` without user supplied indices. -/
def split (n : Nat) (ratio : Float) (mode : Mode) (perm : List Nat) : Split :=
  let r := cleanRatio ratio
  let ks := gridStep r
  splitWith n (nValOf n r) mode ks.1 ks.2 perm

/-! ### iteration -/

/-- `SimpleBatcher.__iter__`: `order` is `rng.permutation(train_indices)` if `shuffle`
else `train_indices`. -/
def epoch (b : Nat) (order : List Nat) : List (List Nat) := chunks b order

/-- `SimpleBatcher.__len__`: `int(ceil(len(self.train_indices) / self.batch_size))` -/
def numBatches (b : Nat) (train : List Nat) : Nat := ceilDiv train.length b

/-- `SimpleBatcher.iter_val` (never shuffled; empty iterator when there is no validation set) -/
def iterVal (b : Nat) (val : List Nat) : List (List Nat) :=
  if val.length == 0 then [] else chunks b val

/-- `SimpleBatcher.val_len` -/
def valLen (b : Nat) (val : List Nat) : Nat :=
  if val.length > 0 then ceilDiv val.length b else 0

/-! ### `subdivide_batches` / `generate_batches` -/

inductive SubErr where
  | runtimeError
  | valueError
  | zeroDivisionError
  deriving Repr, DecidableEq

/-- the number of batches: given, or `(num_items + max_batch - 1) // max_batch` -/
def resolveNumBatches (numItems : Nat) : Option Nat → Option Nat → Except SubErr Nat
  | some _, some _ => .error .runtimeError         -- "Specify only one of ..."
  | none, none => .error .runtimeError             -- "Must provide either ..."
  | some nb, none => .ok nb
  | none, some mb => if mb = 0 then .error .zeroDivisionError else .ok ((numItems + mb - 1) / mb)

/-- `[base + 1] * remainder + [base] * (num_batches - remainder)` -/
def batchSizes (numItems nb : Nat) : List Nat :=
  List.replicate (numItems % nb) (numItems / nb + 1) ++ List.replicate (nb - numItems % nb) (numItems / nb)

def subdivideBatches (numItems : Nat) (numBatches maxBatch : Option Nat) : Except SubErr (List Nat) :=
  match resolveNumBatches numItems numBatches maxBatch with
  | .error e => .error e
  | .ok nb =>
    if numItems < nb then .error .valueError        -- "`num_batches` may not exceed `num_items`."
    else if nb = 0 then .error .zeroDivisionError   -- num_items // 0
    else .ok (batchSizes numItems nb)

/-- the `(start, end)` pairs yielded by `generate_batches` for given batch sizes -/
def rangesFrom : Nat → List Nat → List (Nat × Nat)
  | _, [] => []
  | idx, s :: ss => (idx, idx + s) :: rangesFrom (idx + s) ss

def generateBatches (numItems : Nat) (numBatches maxBatch : Option Nat) (start : Nat) :
    Except SubErr (List (Nat × Nat)) :=
  match subdivideBatches numItems numBatches maxBatch with
  | .error e => .error e
  | .ok sizes => .ok (rangesFrom start sizes)

/-! ### loss scaling (`error_estimate`) and per-epoch averaging (`reconstruct`) -/

section Loss
variable {R : Type} [Num R]

/-- `error_estimate` for the l1/l2 losses, given the per-pattern sums
`s_i = Σ_pixels |diff_i|^p` of the patterns of one batch:
`error = sum / (diff.shape[0] / num_gpts)`, `loss = error / mean_diffraction_intensity`. -/
def batchLoss (numGpts : Nat) (mu : R) (perPattern : List R) : R :=
  Num.sum perPattern / (Num.ofNat perPattern.length / Num.ofNat numGpts) / mu

/-- the value `reconstruct` records for an epoch: the sum of the batch losses divided by
`len(batcher)`; `ell i` is the per-pattern sum of pattern `i`. -/
def epochLoss (numGpts : Nat) (mu : R) (b : Nat) (order : List Nat) (ell : Nat → R) : R :=
  Num.sum ((epoch b order).map (fun B => batchLoss numGpts mu (B.map ell)))
    / Num.ofNat (numBatches b order)

end Loss

/-! ### user supplied indices (`SimpleBatcher(train_indices=…, val_indices=…)`) -/

inductive InitErr where
  | valueError
  deriving Repr, DecidableEq

/-- `SimpleBatcher.__init__` as a whole: user lists are taken as given (`np.asarray(dtype=int)`,
no validation, no RNG draw); giving only one of them raises. -/
def initSplit (n : Nat) (ratio : Float) (mode : Mode) (perm : List Nat)
    (userTrain userVal : Option (List Nat)) : Except InitErr Split :=
  match userTrain, userVal with
  | some t, some v => .ok { train := t, val := v }
  | none, none => .ok (split n ratio mode perm)
  | _, _ => .error .valueError          -- "Both train_indices and val_indices must be provided together."

/-! ### `reset_recon` / `_reset_rng` / the bookkeeping of `Ptychography.reconstruct`

The NumPy generator is modelled by its seed and the number of `permutation` calls made so far;
what a call returns is an abstract oracle `draw` (a parameter: the theorems hold for every
oracle).  The numerical work of one batch (forward model, loss, backward, optimizer step) is an
abstract `stepFn : P → batch → P × loss`, the validation loss of a batch an abstract `valFn`. -/

structure Gen where
  seed : Nat
  pos : Nat
  deriving Repr, DecidableEq

/-- `RNGMixin`: `_rng_seed` (None when the object was built without a seed) and `_rng` -/
structure RngState where
  rngSeed : Option Nat
  gen : Gen
  deriving Repr, DecidableEq

/-- `_reset_rng`: `if self._rng_seed is not None: self.rng = self._rng_seed` (a fresh generator) -/
def resetRng (r : RngState) : RngState :=
  match r.rngSeed with
  | some k => { r with gen := { seed := k, pos := 0 } }
  | none => r

structure Recon (P R : Type) where
  rng : RngState
  params : P                 -- object / probe / dataset parameters and optimizer state
  initParams : P             -- what `obj_model.reset()`, `probe_model.reset()`, `dset.reset()`, `reset_optimizer()` restore
  iterLosses : List R        -- `_iter_losses`
  valLosses : List R         -- `_iter_val_losses`

/-- `Ptychography.reset_recon` -/
def resetRecon {P R : Type} (s : Recon P R) : Recon P R :=
  { s with rng := resetRng s.rng, params := s.initParams, iterLosses := [], valLosses := [] }

structure RunCfg where
  reset : Bool
  numIters : Nat
  b : Nat
  n : Nat
  ratio : Float
  mode : Mode

section Reconstruct
variable {P R : Type} [Num R]
variable (draw : Gen → List Nat → List Nat)
variable (stepFn : P → List Nat → P × R) (valFn : P → List Nat → R)

/-- `SimpleBatcher(num_gpts, batch_size, rng=self.rng, val_ratio=…, val_mode=…)`: the batcher
shares the generator object; a permutation is drawn only in random mode with `n_val > 0`. -/
def makeBatcher (g : Gen) (n : Nat) (ratio : Float) (mode : Mode) : Split × Gen :=
  if nValOf n (cleanRatio ratio) > 0 ∧ mode = .random then
    (split n ratio mode (draw g (List.range n)), { seed := g.seed, pos := g.pos + 1 })
  else (split n ratio mode [], g)

/-- the inner `for batch_indices in batcher:` loop: parameters after the epoch and the batch
losses in the order of the yielded batches -/
def runBatches (batches : List (List Nat)) (p : P) : P × List R :=
  batches.foldl (fun acc B => let r := stepFn acc.1 B; (r.1, acc.2 ++ [r.2])) (p, [])

/-- `total_loss = Σ batch_loss.item()`; `total_loss / len(batcher)` -/
def recordedEpochLoss (b : Nat) (train : List Nat) (losses : List R) : R :=
  Num.sum losses / Num.ofNat (numBatches b train)

/-- the validation pass of one iteration: `Σ batch_val_loss / val_batches` if any batch was yielded -/
def recordedValLoss (b : Nat) (val : List Nat) (p : P) : Option R :=
  if val.length > 0 then                                   -- if batcher.has_validation:
    let vb := iterVal b val
    let vs := vb.map (valFn p)
    if vb.length > 0 then some (Num.sum vs / Num.ofNat vb.length) else none   -- if val_batches > 0:
  else none

structure LoopState (P R : Type) where
  gen : Gen
  params : P
  iterLosses : List R
  valLosses : List R
  schedule : List (List (List Nat))      -- per iteration: the yielded training batches
  batchLosses : List (List R)            -- trace (not a Python attribute): per iteration the batch losses that were summed

/-- one pass of the body of `for a0 in range(num_iters):` -/
def iterStep (b : Nat) (sp : Split) (st : LoopState P R) : LoopState P R :=
  let order := draw st.gen sp.train                       -- rng.permutation(train_indices)  (shuffle=True)
  let batches := epoch b order
  let r := runBatches stepFn batches st.params
  let vl := match recordedValLoss valFn b sp.val r.1 with
    | some v => st.valLosses ++ [v]
    | none => st.valLosses
  { gen := { seed := st.gen.seed, pos := st.gen.pos + 1 }, params := r.1,
    iterLosses := st.iterLosses ++ [recordedEpochLoss b sp.train r.2],   -- self._record_iter(total_loss)
    valLosses := vl, schedule := st.schedule ++ [batches], batchLosses := st.batchLosses ++ [r.2] }

/-- `for a0 in range(num_iters):` -/
def iterate (b : Nat) (sp : Split) : Nat → LoopState P R → LoopState P R
  | 0, st => st
  | k + 1, st => iterate b sp k (iterStep draw stepFn valFn b sp st)

/-- `Ptychography.reconstruct`: reset first (if asked), then build the batcher on the object's
generator, then iterate.  Returns the new state and the schedule of this call. -/
def reconstruct (cfg : RunCfg) (s : Recon P R) : Recon P R × List (List (List Nat)) :=
  let s1 := if cfg.reset then resetRecon s else s           -- if reset: self.reset_recon()
  let bt := makeBatcher draw s1.rng.gen cfg.n cfg.ratio cfg.mode
  let fin := iterate draw stepFn valFn cfg.b bt.1 cfg.numIters
    { gen := bt.2, params := s1.params, iterLosses := s1.iterLosses, valLosses := s1.valLosses, schedule := [],
      batchLosses := [] }
  ({ s1 with rng := { s1.rng with gen := fin.gen }, params := fin.params,
             iterLosses := fin.iterLosses, valLosses := fin.valLosses }, fin.schedule)

/-- a sequence of `reconstruct` calls on one object -/
def runHistory (hist : List RunCfg) (s : Recon P R) : Recon P R :=
  hist.foldl (fun st cfg => (reconstruct draw stepFn valFn cfg st).1) s

end Reconstruct

/-! ### configuration calls between runs (`batch_size`, `val_ratio`, `val_mode`, `rng` setters)

A call either is accepted and updates the session, or is rejected (raises) — and then nothing may
have been stored. -/

/-- a Python value handed to a setter, as far as the validators distinguish -/
inductive CfgVal where
  | none
  | int (i : Int)
  | float (f : Float)
  | str (s : String)
  | other                       -- lists, arbitrary objects
  deriving Repr

inductive CfgCall where
  | batchSize (v : CfgVal)      -- `self.batch_size = v`   (also the first statement of `reconstruct(batch_size=v)`)
  | valRatio (v : CfgVal)       -- `self.val_ratio = v`
  | valMode (v : CfgVal)        -- `self.val_mode = v`
  | rng (v : CfgVal)            -- `self.rng = v`
  deriving Repr

/-- what `reconstruct` reads besides the reconstruction state -/
structure Session (P R : Type) where
  recon : Recon P R
  batchSize : Nat               -- `_batch_size` (initially `num_gpts`)
  valRatio : Float              -- `_val_ratio`
  valMode : Mode                -- `_val_mode`

/-- `validate_gt(validate_int(val, …), 0, …)`: the accepted positive integer, if any -/
def validBatchSize : CfgVal → Option Nat
  | .int i => if i > 0 then some i.toNat else Option.none
  | .float f =>                                        -- int(round(value))
      if f.isFinite then (if pyRound f > 0 then some (pyRound f).toNat else Option.none) else Option.none
  | _ => Option.none                                   -- round("a") → TypeError

/-- `r = float(r); if r < 0.0 or r > 1.0: raise ValueError` (strings are taken as non-numeric) -/
def validValRatio : CfgVal → Option Float
  | .int i => let r := Float.ofInt i; if r < 0.0 || r > 1.0 then Option.none else some r
  | .float r => if r < 0.0 || r > 1.0 then Option.none else some r
  | _ => Option.none

/-- `if mode not in ["grid", "random"]: raise ValueError` -/
def validValMode : CfgVal → Option Mode
  | .str s => if s == "grid" then some .grid else if s == "random" then some .random else Option.none
  | _ => Option.none

/-- applies one configuration call; the Boolean says whether it was rejected (raised).
`entropy` is the OS entropy an unseeded generator would get. -/
def applyCall {P R : Type} (entropy : Nat) (s : Session P R) : CfgCall → Session P R × Bool
  | .batchSize .none => (s, false)                      -- `if val is not None:` — None keeps the current value
  | .batchSize v =>
      match validBatchSize v with
      | some b => ({ s with batchSize := b }, false)
      | Option.none => (s, true)
  | .valRatio v =>
      match validValRatio v with
      | some r => ({ s with valRatio := r }, false)
      | Option.none => (s, true)
  | .valMode v =>
      match validValMode v with
      | some m => ({ s with valMode := m }, false)
      | Option.none => (s, true)
  | .rng .none =>                                       -- unseeded: fresh generator, `_rng_seed = None`
      ({ s with recon := { s.recon with rng := { rngSeed := Option.none, gen := { seed := entropy, pos := 0 } } } }, false)
  | .rng (.int k) =>
      if k ≥ 0 then                                     -- np.random.default_rng(k) succeeds, then the seed is stored
        ({ s with recon := { s.recon with rng := { rngSeed := some k.toNat, gen := { seed := k.toNat, pos := 0 } } } }, false)
      else (s, true)                                    -- ValueError: expected non-negative integer
  | .rng _ => (s, true)                                 -- floats (SeedSequence wants ints), strings, other objects: TypeError

section SessionRun
variable {P R : Type} [Num R]
variable (draw : Gen → List Nat → List Nat)
variable (stepFn : P → List Nat → P × R) (valFn : P → List Nat → R)

/-- `reconstruct(num_iters, reset, batch_size=v)` on a session: the batch size is assigned first
(a rejected value aborts the call before anything else happens). -/
def reconstructS (entropy n : Nat) (reset : Bool) (numIters : Nat) (v : CfgVal) (s : Session P R) :
    Session P R × List (List (List Nat)) × Bool :=
  let a := applyCall entropy s (.batchSize v)
  if a.2 then (s, [], true)
  else
    let out := reconstruct draw stepFn valFn
      { reset := reset, numIters := numIters, b := a.1.batchSize, n := n, ratio := a.1.valRatio, mode := a.1.valMode } a.1.recon
    ({ a.1 with recon := out.1 }, out.2, false)

end SessionRun

end QuantemModel.Batcher
