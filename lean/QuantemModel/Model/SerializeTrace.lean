import QuantemModel.Model.Serialize
/-
The sequence of primitive store writes `save()` performs for a value, in order
(`require_group`, attribute sets, `_write_ndarray`, `_write_bytes`) — written from
`_serialize_value` / `_serialize_container` / `_recursive_save`.  Compared on every C08 run
with the trace recorded from the real code; it ties the *order* of the write operations of
the serializer model to the implementation.  Core Lean only.
-/
namespace QuantemModel.Serialize

inductive W where
  | group | attr | array | bytes
  deriving DecidableEq, Repr, Inhabited

mutual
def traceVal (sk : Skip) : Val → List W
  | .torch .tensor _ _ | .torch .parameter _ _ => [.group, .attr, .attr, .attr, .attr, .attr, .bytes]
  | .torch .optimizer _ _ | .torch .scheduler _ _ => [.group, .attr, .attr, .bytes]
  | .torch .module _ _ | .torch .other _ _ => [.group, .attr, .bytes]
  | .pyLogger _ _ => [.group, .attr, .attr, .attr, .attr]
  | .ndarray _ shape _ =>
      if !shape.isEmpty && shape.any (· == 0) then [.array, .attr]   -- `_original_shape`
      else [.array]
  | .scalar _ | .npScalar .. => [.attr]
  | .path _ => [.attr, .attr]
  | .obj _ attrs => [.group, .attr] ++ traceAttrs sk attrs
  | .list xs => [.group] ++ traceSeq sk xs
  | .tuple xs => [.group] ++ traceSeq sk xs
  | .dict kvs => [.group, .attr] ++ traceKids sk kvs
  | .set xs => [.group] ++ traceSeq sk xs ++ [.attr]
  | .npRng _ => [.group, .attr, .attr, .attr, .attr]
  | .torchRng => [.group, .attr, .attr]
  | .fallback .. | .rawBytes _ => [.bytes]
def traceSeq (sk : Skip) (xs : List Val) : List W :=
  if xs.all isNumeric && !xs.isEmpty then [.attr, .attr, .array]
  else [.attr] ++ traceItems sk xs
def traceItems (sk : Skip) : List Val → List W
  | [] => []
  | v :: rest => traceVal sk v ++ traceItems sk rest
def traceKids (sk : Skip) : List (String × Val) → List W
  | [] => []
  | (_, v) :: rest => traceVal sk v ++ traceKids sk rest
def traceAttrs (sk : Skip) : List (String × Val) → List W
  | [] => []
  | (k, v) :: rest =>
      if sk.names.contains k || sk.types.any (isInstance v) then traceAttrs sk rest
      else traceVal sk v ++ traceAttrs sk rest
end

/-- the whole `save()`: root group creation, the object, `write_skip_metadata` -/
def traceSave (sk : Skip) (v : Val) : List W :=
  match v with
  | .obj _ attrs => [.group, .attr] ++ traceAttrs sk attrs ++ [.attr, .attr]
  | _ => []

end QuantemModel.Serialize
