import QuantemModel.Model.Aberration
/-!
C12 (growth round 5) — the alias code as it is USED: with values `float()` rejects, and as STATE that
is carried between calls.  Core Lean only, generic over `[Num R]`.

* `XVal`, `processStepX`, `processFromX`, `validateX`: `validators.validate_aberration_coefficients`
  with the error branch of `float(value)` (a non-numeric string raises ValueError, a list / object
  TypeError) — the loop stops at the FIRST such value in dict order.
* `PState`, `PState.assign`, `PState.run`: the `ProbeBase.probe_params` setter as a state machine on
  `_probe_params` (top-level entries + `aberration_coefs`): key check, standardisation on a deep copy,
  and only then the rebinding `DEFAULT | old | params` — a rejected assignment leaves the state alone.
* `HState`, `HOp`, `HState.step`, `HState.run`: `direct_ptychography.HyperparameterState`
  (`__post_init__`, `current_aberrations`, `clear_optimized`, `clear_all`) together with the
  write-backs of the DirectPtychography entry points that accept coefficient dicts
  (`optimize_hyperparameters` / `grid_search_hyperparameters`, `fit_hyperparameters_cross_correlation`,
  `fit_hyperparameters_least_squares`).
-/
namespace QuantemModel.Aberration
open QuantemModel
variable {R : Type} [Num R]

/-- a dict value as the alias code sees it -/
inductive XVal (R : Type)
  | none                 -- None
  | num (x : R)          -- anything `float()` accepts (read as its real value)
  | bad (e : Err)        -- `float(value)` raises `e`
  deriving DecidableEq

/-- `symbol in POLAR_SYMBOLS or symbol == "defocus" or symbol in POLAR_ALIASES`: the keys whose value is converted -/
def isCoefKey (syms : List String) (aliases : List (String × String)) (k : String) : Bool :=
  syms.contains k || k == "defocus" || (aliasTarget aliases k).isSome

/-- one iteration of `process_polar_params` on a non-dict value -/
def processStepX (syms : List String) (aliases : List (String × String))
    (out : List (String × R)) (k : String) (v : XVal R) : Except Err (List (String × R)) :=
  match v with
  | .none => .ok out                                            -- if value is None: continue
  | .num x => .ok (processStep syms aliases out k (some x))     -- the three float(value) branches
  | .bad e => if isCoefKey syms aliases k then .error e else .ok out   -- float(value) raises / key is ignored

def processFromX (syms : List String) (aliases : List (String × String)) :
    List (String × R) → List (String × XVal R) → Except Err (List (String × R))
  | out, [] => .ok out
  | out, (k, v) :: rest =>
    match processStepX syms aliases out k v with
    | .error e => .error e
    | .ok out' => processFromX syms aliases out' rest

/-- `validators.validate_aberration_coefficients` (key check first, then the loop) -/
def validateX (syms : List String) (aliases : List (String × String))
    (l : List (String × XVal R)) : Except Err (List (String × R)) :=
  if l.all (fun kv => syms.contains kv.1 || (aliasTarget aliases kv.1).isSome) then
    processFromX syms aliases [] l
  else .error .valueError

/-! ## the probe_params setter as a state machine -/

/-- a value of the dict assigned to `probe_params` -/
inductive XTop (R : Type)
  | leaf (v : XVal R)
  | dict (items : List (String × XVal R))        -- e.g. "aberration_coefs": {...}
  deriving DecidableEq

def processTopX (syms : List String) (aliases : List (String × String)) :
    List (String × R) → List (String × XTop R) → Except Err (List (String × R))
  | out, [] => .ok out
  | out, (_, .dict items) :: rest =>               -- if isinstance(value, dict): process_polar_params(value)
    match processFromX syms aliases out items with
    | .error e => .error e
    | .ok out' => processTopX syms aliases out' rest
  | out, (k, .leaf v) :: rest =>
    match processStepX syms aliases out k v with
    | .error e => .error e
    | .ok out' => processTopX syms aliases out' rest

/-- insertion-ordered dict assignment for any value type -/
def dsetG {β : Type} : List (String × β) → String → β → List (String × β)
  | [], k, v => [(k, v)]
  | (a, x) :: rest, k, v => if a = k then (a, v) :: rest else (a, x) :: dsetG rest k v

/-- `_probe_params`: every top-level entry except `aberration_coefs`, and `aberration_coefs` itself -/
structure PState (R : Type) where
  top : List (String × XTop R)
  aber : List (String × R)

/-- the `aberration_coefs` dict an accepted assignment stores: `set_aberrations(deepcopy(params), max_order)` -/
def aberOf (syms : List String) (aliases : List (String × String)) (maxOrder : Option Nat)
    (params : List (String × XTop R)) : Except Err (List (String × R)) :=
  match processTopX syms aliases [] params with
  | .error e => .error e
  | .ok out =>
    match maxOrder with
    | none => .ok out
    | some mo => .ok (fillZeros syms mo out syms)

def keysOk (defaults syms : List String) (aliases : List (String × String)) (params : List (String × XTop R)) : Bool :=
  params.all (fun kv => defaults.contains kv.1 || syms.contains kv.1 || (aliasTarget aliases kv.1).isSome)

/-- `probe.probe_params = params`: the result (error class, if rejected) and the state afterwards -/
def PState.assign (defaults syms : List String) (aliases : List (String × String)) (maxOrder : Option Nat)
    (st : PState R) (params : List (String × XTop R)) : Option Err × PState R :=
  if keysOk defaults syms aliases params then        -- validate_dict_keys(...)  → ValueError, nothing touched
    match aberOf syms aliases maxOrder params with   -- works on a deep copy      → error, nothing touched
    | .error e => (some e, st)
    | .ok aber =>
      -- params["aberration_coefs"] = polar_parameters; self._probe_params = DEFAULT | self._probe_params | params
      (none, { top := (params.filter (fun kv => kv.1 != "aberration_coefs")).foldl (fun t kv => dsetG t kv.1 kv.2) st.top,
               aber := aber })
  else (some .valueError, st)

/-- a history of assignments: the outcome and the state after each -/
def PState.run (defaults syms : List String) (aliases : List (String × String)) (maxOrder : Option Nat) :
    PState R → List (List (String × XTop R)) → List (Option Err × PState R)
  | _, [] => []
  | st, p :: rest =>
    let r := PState.assign defaults syms aliases maxOrder st p
    r :: PState.run defaults syms aliases maxOrder r.2 rest

/-- the state after a history -/
def PState.final (defaults syms : List String) (aliases : List (String × String)) (maxOrder : Option Nat) :
    PState R → List (List (String × XTop R)) → PState R
  | st, [] => st
  | st, p :: rest =>
    PState.final defaults syms aliases maxOrder (PState.assign defaults syms aliases maxOrder st p).2 rest

/-! ## HyperparameterState and the write-backs of the DirectPtychography entry points -/

/-- `dict.update` -/
def dupdate (a b : List (String × R)) : List (String × R) :=
  b.foldl (fun d kv => dset d kv.1 kv.2) a

structure HState (R : Type) where
  initial : List (String × R)
  optimized : List (String × R)

/-- `HyperparameterState(initial_aberrations=…)`: `__post_init__` validates (a copy of) the initial dict -/
def HState.create (syms : List String) (aliases : List (String × String))
    (initial : List (String × XVal R)) : Except Err (HState R) :=
  match validateX syms aliases initial with
  | .error e => .error e
  | .ok v => .ok { initial := v, optimized := [] }

/-- `current_aberrations(override_fixed)`: `out = dict(initial); out.update(optimized);
out.update(validate_aberration_coefficients(override_fixed))` -/
def HState.current (syms : List String) (aliases : List (String × String)) (st : HState R)
    (override : Option (List (String × XVal R))) : Except Err (List (String × R)) :=
  let out := dupdate st.initial st.optimized
  match override with
  | none => .ok out
  | some o =>
    match validateX syms aliases o with
    | .error e => .error e
    | .ok v => .ok (dupdate out v)

/-- `trial |= fixed` on raw key names -/
def dupdateX (a b : List (String × XVal R)) : List (String × XVal R) :=
  b.foldl (fun d kv => dsetG d kv.1 kv.2) a

inductive HOp (R : Type)
  /-- `reconstruct(override_aberration_coefs=o)` / `.aberration_coefs` (o = None): reads, never writes -/
  | current (override : Option (List (String × XVal R)))
  | clearOptimized
  | clearAll
  /-- `optimize_hyperparameters` / `grid_search_hyperparameters` with best raw parameter dict `best` (user's key
  names) and the fixed (non-optimised) entries `fixed`: `clear_optimized()`; every trial reconstructs with
  `override = trial ∪ fixed`; then `optimized = validate(best)`; `optimized = current_aberrations(fixed)` -/
  | search (best fixed : List (String × XVal R))
  /-- `fit_hyperparameters_cross_correlation(aberration_coefs=o)` returning `fit`: `clear_optimized()`;
  `reconstruct(override=o)`; initial shifts from `validate(o)`; `optimized = validate(fit)` -/
  | crossCorrelation (o : List (String × XVal R)) (fit : List (String × XVal R))

/-- one operation: the coefficient dict it hands to the surface code (or the error) and the state afterwards -/
def HState.step (syms : List String) (aliases : List (String × String)) (st : HState R) :
    HOp R → Except Err (List (String × R)) × HState R
  | .current o => (HState.current syms aliases st o, st)
  | .clearOptimized => (.ok [], { st with optimized := [] })
  | .clearAll => (.ok [], { initial := [], optimized := [] })
  | .search best fixed =>
    let st1 : HState R := { st with optimized := [] }                       -- state.clear_optimized()
    match HState.current syms aliases st1 (some (dupdateX best fixed)) with      -- first trial: reconstruct(override=trial)
    | .error e => (.error e, st1)
    | .ok _ =>
      match validateX syms aliases best with                                -- state.optimized_aberrations = validate(best)
      | .error e => (.error e, st1)
      | .ok vb =>
        let st2 : HState R := { st1 with optimized := vb }
        match HState.current syms aliases st2 (some fixed) with             -- … = state.current_aberrations(fixed)
        | .error e => (.error e, st2)
        | .ok cur =>
          let st3 : HState R := { st2 with optimized := cur }
          (HState.current syms aliases st3 none, st3)                       -- final reconstruct()
  | .crossCorrelation o fit =>
    let st1 : HState R := { st with optimized := [] }
    match HState.current syms aliases st1 (some o) with                     -- reconstruct(override=o, kernel="parallax")
    | .error e => (.error e, st1)
    | .ok _ =>
      match validateX syms aliases fit with
      | .error e => (.error e, st1)
      | .ok vf =>
        let st2 : HState R := { st1 with optimized := vf }
        (HState.current syms aliases st2 none, st2)

def HState.run (syms : List String) (aliases : List (String × String)) :
    HState R → List (HOp R) → List (Except Err (List (String × R)) × HState R)
  | _, [] => []
  | st, op :: rest =>
    let r := HState.step syms aliases st op
    r :: HState.run syms aliases r.2 rest

def HState.final (syms : List String) (aliases : List (String × String)) :
    HState R → List (HOp R) → HState R
  | st, [] => st
  | st, op :: rest => HState.final syms aliases (HState.step syms aliases st op).2 rest

/-- the lateral shifts `fit_hyperparameters_cross_correlation(aberration_coefs=o)` seeds the alignment with: the
coefficient dict handed to `_return_lateral_shifts` is `validate_aberration_coefficients(o)` -/
def crossCorrelationShiftCoefs (syms : List String) (aliases : List (String × String))
    (o : List (String × XVal R)) : Except Err (List (String × R)) :=
  validateX syms aliases o

end QuantemModel.Aberration
