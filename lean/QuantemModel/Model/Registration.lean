import QuantemModel.Core.Cx
/-!
Model of the image-registration code of `quantem/core/utils/imaging_utils.py`
(`cross_correlation_shift`, `dft_upsample`, `cross_correlation_shift_torch`,
`align_images_fourier_torch`, `upsampled_correlation_torch`, `dftUpsample_torch`).

Everything is written once over the law-free carrier `[Num R] [NumFloor R]` and is
* executed at `Rat`   (exact streams: integer images, no upsampling),
* executed at `Float` (float64 streams: sub-pixel shifts, upsampled patches, aligned image),
* reasoned about at `ℝ` (Lemmas/Registration.lean, Props/C13.lean).

Images are functions `Nat → Nat → R` that are only read inside the cell `i < M`, `j < N`
(the driver tabulates arrays into such functions).  The coarse stage models
`real(ifft2(fft2(ref) * conj(fft2(im))))` by the *spatial* circular cross-correlation it is
equal to (correlation theorem; NumPy/torch FFTs are trusted to compute the defining sums —
the exact correspondence stream measures this on every run).  Core Lean only.
-/
namespace QuantemModel

/-- `floor` for the carrier (`np.floor`, Python/torch float `%`, `torch.round`). -/
class NumFloor (R : Type) where
  floor : R → Int

instance : NumFloor Rat := ⟨Rat.floor⟩
instance : NumFloor Float := ⟨fun x => x.floor.toInt64.toInt⟩

namespace Registration
variable {R : Type} [Num R]

/-- `Σ_{i<n} f i`, accumulated in index order -/
def sumN : Nat → (Nat → R) → R
  | 0, _ => Num.zero
  | n + 1, f => sumN n f + f n

/-- complex `Σ_{i<n} f i` -/
def csum : Nat → (Nat → Cx R) → Cx R
  | 0, _ => Cx.zero
  | n + 1, f => csum n f + f n

/-- Python `i % N` for an integer `i` and a positive size `N`, as an index -/
def wrap (N : Nat) (i : Int) : Nat := (i % (N : Int)).toNat

/-- the signed integer frequency of bin `k`: `ifftshift(arange(M)) - M // 2`, which is also
`np.fft.fftfreq(M, 1 / M)[k]` -/
def freq (M k : Nat) : Int := (((k + M / 2) % M : Nat) : Int) - ((M / 2 : Nat) : Int)

/-- `np.roll(x, (a, b), (0, 1))` : `out[i, j] = x[(i - a) % M, (j - b) % N]` -/
def rollImg (M N : Nat) (x : Nat → Nat → R) (a b : Int) : Nat → Nat → R :=
  fun i j => x (wrap M ((i : Int) - a)) (wrap N ((j : Int) - b))

/-- `cc_real[s, t]` of `cross_correlation_shift` / `align_images_fourier_torch`:
`real(ifft2(F_ref * conj(F_im)))[s, t] = Σ_{i,j} ref[i, j] · im[(i - s) % M, (j - t) % N]` -/
def cc (M N : Nat) (ref im : Nat → Nat → R) (s t : Int) : R :=
  sumN M fun i => sumN N fun j => ref i j * im (wrap M ((i : Int) - s)) (wrap N ((j : Int) - t))

/-- `cc_search[mask] = 0.0` with `mask = x[:,None]**2 + y[None,:]**2 >= max_shift**2`,
`x = fftfreq(M, 1/M)`, `y = fftfreq(N, 1/N)` (only when `max_shift is not None`) -/
def masked (M N : Nat) (maxShift : Option R) (c : Nat → Nat → R) : Nat → Nat → R :=
  fun s t =>
    match maxShift with
    | none => c s t
    | some m =>
        let fx := freq M s
        let fy := freq N t
        if Num.ltb (Num.ofInt (fx * fx + fy * fy)) (m * m) then c s t else Num.zero

/-- `argmax` of `f 0 … f (n-1)` with the first-maximum tie rule of `np.argmax`/`torch.argmax` -/
def argmaxN : Nat → (Nat → R) → Nat
  | 0, _ => 0
  | n + 1, f => let b := argmaxN n f; if Num.ltb (f b) (f n) then n else b

/-- `unravel_index(argmax(c), (M, N))` for a row-major `M × N` array -/
def argmax2 (M N : Nat) (c : Nat → Nat → R) : Nat × Nat :=
  let p := argmaxN (M * N) fun p => c (p / N) (p % N)
  (p / N, p % N)

/-- `parabolic_peak(v) = (v[2] - v[0]) / (4 v[1] - 2 v[2] - 2 v[0])` -/
def parabolic (v0 v1 v2 : R) : R :=
  (v2 - v0) / (Num.ofRat 4 * v1 - Num.two * v2 - Num.two * v0)

variable [NumFloor R]

/-- Python / NumPy / torch float `x % m` for a positive integer `m`: `x - m·⌊x/m⌋ ∈ [0, m)` -/
def pmod (x : R) (m : Nat) : R := x - Num.ofInt ((m : Int) * NumFloor.floor (x / Num.ofNat m))

/-- `(s + 0.5·M) % M - 0.5·M` (last line of `cross_correlation_shift`; the same expression
`((s + M/2) % M) - M/2` in `cross_correlation_shift_torch`) -/
def centre (s : R) (M : Nat) : R :=
  pmod (s + Num.ofRat ((M : Rat) / 2)) M - Num.ofRat ((M : Rat) / 2)

/-- `torch.round` (half to even) as an integer -/
def roundHalfEven (x : R) : Int :=
  let f := NumFloor.floor x
  let r := x - Num.ofInt f
  let h : R := Num.ofRat (1 / 2)
  if Num.ltb r h then f else if Num.ltb h r then f + 1 else if f % 2 = 0 then f else f + 1

/-! ## coarse stage -/

/-- integer peak, parabolic offsets and the refined coarse position -/
structure Coarse (R : Type) where
  x0 : Nat
  y0 : Nat
  dx : R
  dy : R
  x : R
  y : R

/-- NumPy: peak of the masked search table `cs` (`cc_search`), then on the unmasked `c`
(`cc_real`): `vx = cc_real[(x0 + (-1,0,1)) % M, y0]`, `vy = cc_real[x0, (y0 + (-1,0,1)) % N]`,
`x0 = (x0 + dx) % M`, `y0 = (y0 + dy) % N`. -/
def coarseNp (M N : Nat) (cs c : Nat → Nat → R) : Coarse R :=
  let p := argmax2 M N cs
  let x0 := p.1
  let y0 := p.2
  let dx := parabolic (c (wrap M ((x0 : Int) - 1)) y0) (c x0 y0) (c (wrap M ((x0 : Int) + 1)) y0)
  let dy := parabolic (c x0 (wrap N ((y0 : Int) - 1))) (c x0 y0) (c x0 (wrap N ((y0 : Int) + 1)))
  { x0 := x0, y0 := y0, dx := dx, dy := dy,
    x := pmod (Num.ofNat x0 + dx) M, y := pmod (Num.ofNat y0 + dy) N }

/-- `cross_correlation_shift(..., upsample_factor <= 1)`: `cs` is the search table
(`cc_real` with the `max_shift` mask applied), `c` the unmasked `cc_real` -/
def shiftNp1 (M N : Nat) (cs c : Nat → Nat → R) : R × R :=
  let k := coarseNp M N cs c
  (centre k.x M, centre k.y N)

/-- torch: `dx = (vx[2]-vx[0])/denom if denom != 0 else 0` -/
def parabolicT (v0 v1 v2 : R) : R :=
  let d := Num.ofRat 4 * v1 - Num.two * v2 - Num.two * v0
  if Num.ltb d Num.zero || Num.ltb Num.zero d then (v2 - v0) / d else Num.zero

/-- `align_images_fourier_torch` up to and including the half-pixel rounding
`x0 = round((x0 + dx) * 2) / 2` (no modulo here) -/
def coarseTorch (M N : Nat) (c : Nat → Nat → R) : Coarse R :=
  let p := argmax2 M N c
  let x0 := p.1
  let y0 := p.2
  let dx := parabolicT (c (wrap M ((x0 : Int) - 1)) y0) (c x0 y0) (c (wrap M ((x0 : Int) + 1)) y0)
  let dy := parabolicT (c x0 (wrap N ((y0 : Int) - 1))) (c x0 y0) (c x0 (wrap N ((y0 : Int) + 1)))
  { x0 := x0, y0 := y0, dx := dx, dy := dy,
    x := Num.ofInt (roundHalfEven ((Num.ofNat x0 + dx) * Num.two)) / Num.two,
    y := Num.ofInt (roundHalfEven ((Num.ofNat y0 + dy) * Num.two)) / Num.two }

/-- `cross_correlation_shift_torch(..., upsample_factor <= 2)` -/
def shiftTorch2 (M N : Nat) (c : Nat → Nat → R) : R × R :=
  let k := coarseTorch M N c
  (centre k.x M, centre k.y N)

/-! ## upsampling grids: index arithmetic -/

/-- `ceil(1.5 * up)` -/
def du (up : Nat) : Nat := (3 * up + 1) / 2

/-- NumPy `dft_upsample`: patch side `len(arange(-du, du + 1))` -/
def sideNp (up : Nat) : Nat := 2 * du up + 1

/-- NumPy `dft_upsample`: sample position of patch index `u`, in upsampled pixels:
`row[u] = (u - du) + up * shift` -/
def posNp (up : Nat) (x0 : R) (u : Nat) : R :=
  Num.ofInt ((u : Int) - (du up : Int)) + Num.ofNat up * x0

/-- NumPy caller: `shifts = x0 + (peak - local.shape[0] // 2) / up + dxf / up` -/
def finalNp (up : Nat) (x0 : R) (peak : Nat) (dxf : R) : R :=
  x0 + Num.ofInt ((peak : Int) - ((sideNp up / 2 : Nat) : Int)) / Num.ofNat up + dxf / Num.ofNat up

/-- torch `dftUpsample_torch`: `numRow = ceil(1.5 * up)` -/
def sideTorch (up : Nat) : Nat := du up

/-- torch `globalShift = floor(ceil(up * 1.5) / 2)` -/
def gShift (up : Nat) : Nat := du up / 2

/-- torch `xyShift = round(xyShift * up) / up` -/
def snapTorch (up : Nat) (x : R) : R :=
  Num.ofInt (roundHalfEven (x * Num.ofNat up)) / Num.ofNat up

/-- torch `upsampleCenter = globalShift - up * xyShift` -/
def centerTorch (up : Nat) (xs : R) : R := Num.ofNat (gShift up) - Num.ofNat up * xs

/-- torch `dftUpsample_torch`: `row_coords[j] = j - xyShift` with `xyShift = upsampleCenter` -/
def posTorch (center : R) (j : Nat) : R := Num.ofNat j - center

/-- torch caller: `xyShift + ((peak - globalShift) + dx) / up` -/
def finalTorch (up : Nat) (xs : R) (peak : Nat) (dxf : R) : R :=
  xs + (Num.ofInt ((peak : Int) - (gShift up : Int)) + dxf) / Num.ofNat up

/-! ## matrix-multiply DFT patch -/

/-- one kernel entry `exp(sgn · 2πi/(M·up) · pos · freq_M(k))`.
NumPy (after the fix) uses `sgn = +1` on `cc`; torch uses `sgn = -1` on `conj(cc)`. -/
def kern (M up : Nat) (sgn : Int) (pos : R) (k : Nat) : Cx R :=
  Cx.cis ((Num.ofInt sgn * (Num.two * Num.pi) / Num.ofNat (M * up)) * (pos * Num.ofInt (freq M k)))

/-- `(K @ F)[l]` for one kernel row `K` -/
def rowStageK (M : Nat) (K : Nat → Cx R) (F : Nat → Nat → Cx R) (l : Nat) : Cx R :=
  csum M fun k => K k * F k l

/-- `(kern_row @ F)[u, l]` for the row whose sample position is `pos` -/
def rowStage (M up : Nat) (sgn : Int) (F : Nat → Nat → Cx R) (pos : R) (l : Nat) : Cx R :=
  rowStageK M (kern M up sgn pos) F l

/-- `real((T @ K))` for one row `T` of `kern_row @ F` and one kernel column `K` -/
def colStageK (N : Nat) (T K : Nat → Cx R) : R :=
  (csum N fun l => T l * K l).re

/-- `real((T @ kern_col)[u, v])` given row `u` of `T = kern_row @ F` -/
def colStage (N up : Nat) (sgn : Int) (T : Nat → Cx R) (pos : R) : R :=
  colStageK N T (kern N up sgn pos)

/-- one entry of `real(kern_row @ F @ kern_col)` at sample positions `(px, py)` -/
def patchAt (M N up : Nat) (sgn : Int) (F : Nat → Nat → Cx R) (px py : R) : R :=
  colStage N up sgn (rowStage M up sgn F px) py

/-- NumPy `dft_upsample(F, up, (x0, y0))[u, v]` -/
def patchNp (M N up : Nat) (F : Nat → Nat → Cx R) (x0 y0 : R) (u v : Nat) : R :=
  patchAt M N up 1 F (posNp up x0 u) (posNp up y0 v)

/-- torch `dftUpsample_torch(F, up, (cx, cy))[u, v]` (the caller passes `F = conj(cc)`) -/
def patchTorch (M N up : Nat) (F : Nat → Nat → Cx R) (cx cy : R) (u v : Nat) : R :=
  patchAt M N up (-1) F (posTorch cx u) (posTorch cy v)

/-- sub-pixel parabola on the `3 × 3` neighbourhood of the patch peak; `0` when the
neighbourhood is not entirely inside the `P × P` patch (`icc.shape != (3, 3)`) -/
def patchRefine (P : Nat) (p : Nat → Nat → R) (lx ly : Nat) : R × R :=
  if 1 ≤ lx ∧ lx + 2 ≤ P ∧ 1 ≤ ly ∧ ly + 2 ≤ P then
    (parabolic (p (lx - 1) ly) (p lx ly) (p (lx + 1) ly),
     parabolic (p lx (ly - 1)) (p lx ly) (p lx (ly + 1)))
  else (Num.zero, Num.zero)

/-- upsampled branch of `cross_correlation_shift` (before the final centring), given the
refined coarse position `(x0, y0)` and the patch `p = dft_upsample(cc, up, (x0, y0))` -/
def upsampledNpOf (up : Nat) (x0 y0 : R) (p : Nat → Nat → R) : R × R :=
  let P := sideNp up
  let pk := argmax2 P P p
  let d := patchRefine P p pk.1 pk.2
  (finalNp up x0 pk.1 d.1, finalNp up y0 pk.2 d.2)

/-- `cross_correlation_shift(..., upsample_factor = up > 1)` given the masked search
table `cs`, the unmasked `cc_real` table `c` and the Fourier-domain product `F = F_ref * conj(F_im)` -/
def shiftNpUp (M N up : Nat) (cs c : Nat → Nat → R) (F : Nat → Nat → Cx R) : R × R :=
  let k := coarseNp M N cs c
  let s := upsampledNpOf up k.x k.y (patchNp M N up F k.x k.y)
  (centre s.1 M, centre s.2 N)

/-- `upsampled_correlation_torch(cc, up, (x, y))` given the patch
`p = dftUpsample_torch(conj(cc), up, upsampleCenter)` built on the snapped position -/
def upsampledTorchOf (up : Nat) (xs ys : R) (p : Nat → Nat → R) : R × R :=
  let P := sideTorch up
  let pk := argmax2 P P p
  let d := patchRefine P p pk.1 pk.2
  (finalTorch up xs pk.1 d.1, finalTorch up ys pk.2 d.2)

/-- complex conjugate of a Fourier-domain table -/
def conjF (F : Nat → Nat → Cx R) : Nat → Nat → Cx R := fun k l => Cx.conj (F k l)

/-- `upsampled_correlation_torch(F, up, (x, y))` -/
def upsampledTorch (M N up : Nat) (F : Nat → Nat → Cx R) (x y : R) : R × R :=
  let xs := snapTorch up x
  let ys := snapTorch up y
  upsampledTorchOf up xs ys (patchTorch M N up (conjF F) (centerTorch up xs) (centerTorch up ys))

/-- `cross_correlation_shift_torch(..., upsample_factor = up > 2)` -/
def shiftTorchUp (M N up : Nat) (c : Nat → Nat → R) (F : Nat → Nat → Cx R) : R × R :=
  let k := coarseTorch M N c
  let s := upsampledTorch M N up F k.x k.y
  (centre s.1 M, centre s.2 N)

/-! ## Fourier side: transforms used for the upsampled patch and the aligned image -/

/-- `exp(sgn · 2πi · a / n)` -/
def root (n : Nat) (sgn : Int) (a : Int) : Cx R :=
  Cx.cis (Num.ofInt sgn * (Num.two * Num.pi) * Num.ofInt (a % (n : Int)) / Num.ofNat n)

/-- `Σ_{i,j} im[i,j] · wM[(k·i) % M] · wN[(l·j) % N]` for given root tables -/
def dft2AtW (M N : Nat) (wM wN : Nat → Cx R) (im : Nat → Nat → R) (k l : Nat) : Cx R :=
  csum M fun i => csum N fun j => Cx.smul (im i j) (wM ((k * i) % M) * wN ((l * j) % N))

/-- `np.fft.fft2(im)[k, l]` (defining sum) -/
def dft2At (M N : Nat) (im : Nat → Nat → R) (k l : Nat) : Cx R :=
  dft2AtW M N (fun a => root M (-1) (a : Int)) (fun a => root N (-1) (a : Int)) im k l

/-- `F_ref * conj(F_im)` -/
def ccF (Fr Fi : Nat → Nat → Cx R) : Nat → Nat → Cx R := fun k l => Fr k l * Cx.conj (Fi k l)

/-- `F_im * exp(-2πi (kx·s0 + ky·s1))`, `kx = fftfreq(M)`, `ky = fftfreq(N)` — the Fourier-space
aligned image (`fft_output=True`) -/
def rampAt (M N : Nat) (Fi : Nat → Nat → Cx R) (s0 s1 : R) (k l : Nat) : Cx R :=
  Fi k l * Cx.cis (Num.ofRat (-2) * Num.pi *
    (Num.ofInt (freq M k) / Num.ofNat M * s0 + Num.ofInt (freq N l) / Num.ofNat N * s1))

/-- `Re Σ_{k,l} G[k,l] · wM[(k·n) % M] · wN[(l·m) % N] / (M·N)` for given root tables -/
def idft2ReAtW (M N : Nat) (wM wN : Nat → Cx R) (G : Nat → Nat → Cx R) (n m : Nat) : R :=
  (csum M fun k => csum N fun l => G k l * (wM ((k * n) % M) * wN ((l * m) % N))).re / Num.ofNat (M * N)

/-- `real(ifft2(G))[n, m]` -/
def idft2ReAt (M N : Nat) (G : Nat → Nat → Cx R) (n m : Nat) : R :=
  idft2ReAtW M N (fun a => root M 1 (a : Int)) (fun a => root N 1 (a : Int)) G n m

/-- `cc_real = real(ifft2(fft2(im_ref) * conj(fft2(im))))` exactly as the code evaluates it
(defining DFT sums) -/
def ccRealFFT (M N : Nat) (ref im : Nat → Nat → R) : Nat → Nat → R :=
  idft2ReAt M N (ccF (dft2At M N ref) (dft2At M N im))

/-- translating an image by an *integer* shift `(r, c)` (what the phase ramp does for integer
shifts: `out[i, j] = im[(i - r) % M, (j - c) % N]`) -/
def applyShift (M N : Nat) (im : Nat → Nat → R) (r c : Int) : Nat → Nat → R := rollImg M N im r c

end Registration
end QuantemModel
