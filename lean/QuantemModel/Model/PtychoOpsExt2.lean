import QuantemModel.Model.PtychoOps
/-!
C16, growth round 6 — model code for propagator STACKS (≥ 2 gaps of pairwise different
thicknesses) and the option handling of `fourier_translation_operator`.  Core Lean only.

* `propagateStack`     the free-space run of `overlap_projection`: `w ← _propagate_array(w, P[s-1])`
                       for s = 1 … S-1 (what the multislice loop does between the transmissions)
* `onesImg`            an all-ones patch (vacuum slice)
* `translationOperatorOpt`  `fourier_translation_operator(positions, shape, expand_dim, dtype)` for one
                       position: the ramp is computed from `shape[-2:]`; `expand_dim` inserts
                       `len(shape) - 2` axes of length 1 after the batch axis, `dtype` casts the
                       values — neither changes a value of the ramp (in exact arithmetic).
-/
namespace QuantemModel.PtychoOps
open QuantemModel QuantemModel.Dft

section Carrier
variable {R : Type} [Num R]

/-- `for s in range(1, num_slices): overlap = _propagate_array(overlap, propagators[s-1])`
(the propagation part of `overlap_projection`, i.e. the loop with every patch ≡ 1) -/
def propagateStack (a : Img R) (props : List (Img R)) : Img R := props.foldl propagate a

/-- all-ones `nr × nc` patch (an empty slice of a pure-phase object: `exp(1j·0)`) -/
def onesImg (nr nc : Nat) : Img R := List.replicate nr (List.replicate nc Cx.one)

/-- number of length-1 axes `fourier_translation_operator` inserts after the batch axis:
`for _ in range(len(shape) - 2): ramp = ramp[:, None, ...]` only `if expand_dim` -/
def translationExtraAxes (shapeLen : Nat) (expandDim : Bool) : Nat :=
  if expandDim then shapeLen - 2 else 0

/-- the ramp of one position for `shape` (a list of ≥ 2 extents, the last two are the image):
`nr, nc = shape[-2:]`; returns (number of inserted unit axes, ramp) -/
def translationOperatorOpt (shape : List Nat) (expandDim : Bool) (r c : R) : Nat × Img R :=
  let nr := (shape.reverse.drop 1).headD 0
  let nc := shape.reverse.headD 0
  (translationExtraAxes shape.length expandDim, translationOperator nr nc r c)

/-! ### tie to the mechanically traced source (Generated/PtychoKernels.lean) -/

/-- the `(k_r, k_c)` numerators of the model's ramp: `fftfreq(nr)[i]·nr`, `fftfreq(nc)[j]·nc` -/
def freqTable (nr nc : Nat) : List (List (Int × Int)) :=
  (List.range nr).map fun i => (List.range nc).map fun j => (fftfreqInt nr i, fftfreqInt nc j)

/-- the ramp a table of frequency numerators stands for:
pixel `(k_r, k_c)` ↦ `exp(-2πi·(k_r/nr)·r) · exp(-2πi·(k_c/nc)·c)` -/
def rampOfTable (nr nc : Nat) (tbl : List (List (Int × Int))) (r c : R) : Img R :=
  tbl.map fun row => row.map fun k =>
    Cx.cis (Num.ofRat (-2) * Num.pi * Num.ofRat ((k.1 : Rat) / (nr : Rat)) * r)
      * Cx.cis (Num.ofRat (-2) * Num.pi * Num.ofRat ((k.2 : Rat) / (nc : Rat)) * c)

end Carrier
end QuantemModel.PtychoOps
