import QuantemModel.Model.Radon
/-!
C07, growth round 5 — the branches of `radon.py` that `Model/Radon.lean` did not reach, written
over the same numeric carrier (core Lean only):

* `radon_torch` on a **rectangular** image: the disc mask on the `H × W` grid
  (`radius = min(H, W) // 2`, centre `(H // 2, W // 2)`) and the crop to the inscribed square
  (`slice((e + 1) // 2, (e + 1) // 2 + shape_min) if e > 0 else slice(None)`), next to
  scikit-image's version of the same two steps (`int(np.ceil(excess / 2))`);
* `radon_torch(images)` **without theta**: `torch.arange(180)` (scikit-image: `np.arange(180)`);
* `iradon_torch` **with its validation**: the `theta.shape[0] != A` check, the optional
  `output_size`, and the exception that `get_fourier_filter_torch` raises *after* the padding
  steps (unknown filter name; the padded size is never odd or 0);
* a **session**: the module keeps nothing between calls, so a history of calls — including
  calls that raise — is the fold of a step function whose state is `Unit`.
-/
namespace QuantemModel.Radon
open QuantemModel

variable {R : Type} [Num R] [HasFloor R]

/-! ## rectangular images -/

/-- `mask = dist2 <= radius**2` with `dist2 = (X - W//2)**2 + (Y - H//2)**2` and
`radius = min(H, W) // 2` (radon_torch; scikit-image: `dist <= radius**2` on `np.ogrid`) -/
def inDiscRect (H W : Nat) (r c : Int) : Bool :=
  decide (0 ≤ r ∧ r < H ∧ 0 ≤ c ∧ c < W ∧
    (c - (W / 2 : Nat)) * (c - (W / 2 : Nat)) + (r - (H / 2 : Nat)) * (r - (H / 2 : Nat))
      ≤ ((min H W / 2 : Nat) : Int) * (min H W / 2 : Nat))

/-- `images *= mask` on the `H × W` grid -/
def maskedRect (f : Int → Int → R) (H W : Nat) : Int → Int → R :=
  fun r c => if inDiscRect H W r c then f r c else Num.zero

/-- radon_torch: first index of `slice(int((e + 1) // 2), …) if e > 0 else slice(None)`,
`e = L - shape_min` -/
def cropOff (L N : Nat) : Nat := if L - N > 0 then (L - N + 1) / 2 else 0

/-- scikit-image: first index of `slice(int(np.ceil(excess / 2)), …) if excess > 0 else slice(None)`
(true division, then `ceil`) -/
def cropOffSk (L N : Nat) : Nat :=
  if L - N > 0 then (ceilI ((Num.ofNat (L - N) : R) / Num.two)).toNat else 0

/-- `images[:, slices[0], slices[1]]` as an accessor: pixel `(r, c)` of the `N × N` crop; zero
outside it (what the interpolation pads with — pixels of the uncropped image are never read) -/
def cropped (f : Int → Int → R) (offR offC N : Nat) : Int → Int → R :=
  fun r c => if 0 ≤ r ∧ r < N ∧ 0 ≤ c ∧ c < N then f (r + offR) (c + offC) else Num.zero

/-- one sinogram sample of radon_torch on an `H × W` image: mask on the full grid, crop,
rotate about `N // 2` of the crop, sum the rows -/
def radonTorchRectAt (f : Int → Int → R) (H W : Nat) (θ : R) (x : Nat) : R :=
  let N := min H W
  Num.sum ((List.range N).map fun y =>
    bilinear (cropped (maskedRect f H W) (cropOff H N) (cropOff W N) N)
      (torchCoord N θ x y).1 (torchCoord N θ x y).2)

/-- the same sample of skimage.transform.radon(circle=True): the image is used as given
(a warning when it is non-zero outside the circle), cropped, warped about `N // 2`, summed -/
def radonSkRectAt (f : Int → Int → R) (H W : Nat) (θ : R) (x : Nat) : R :=
  let N := min H W
  Num.sum ((List.range N).map fun y =>
    bilinear (cropped f (cropOffSk (R := R) H N) (cropOffSk (R := R) W N) N)
      (skCoord N θ x y).1 (skCoord N θ x y).2)

/-- `theta = torch.arange(180)` / `theta = np.arange(180)` -/
def radonDefaultThetas : List R := (List.range 180).map fun i => Num.ofNat i

/-- radon_torch on an accessor image of shape `H × W`; `thetas = none` is `theta=None` -/
def radonTorchRectAcc (f : Int → Int → R) (H W : Nat) (thetas : Option (List R)) : List (List R) :=
  (thetas.getD radonDefaultThetas).map fun θ =>
    (List.range (min H W)).map fun x => radonTorchRectAt f H W θ x

def radonSkRectAcc (f : Int → Int → R) (H W : Nat) (thetas : Option (List R)) : List (List R) :=
  (thetas.getD radonDefaultThetas).map fun θ =>
    (List.range (min H W)).map fun x => radonSkRectAt f H W θ x

/-- radon_torch(img, theta) for one row-major list image of any shape `[H][W]` -/
def radonTorchRect (img : List (List R)) (thetas : Option (List R)) : List (List R) :=
  radonTorchRectAcc (px img) img.length (img.headD []).length thetas

/-- skimage.transform.radon(img, theta, circle=True), transposed to `[angles][N]` -/
def radonSkRect (img : List (List R)) (thetas : Option (List R)) : List (List R) :=
  radonSkRectAcc (px img) img.length (img.headD []).length thetas

/-! ## the output tensor and its writes

`radon_images = torch.zeros((B, N_angles, N))`, then `for i, angle in enumerate(theta):
radon_images[:, i, :] = projection` — one preallocated zero tensor, one slice assignment per
angle, across the whole batch at once. -/

/-- `sampled.squeeze(1).sum(dim=1)` for one image and one angle: the row `[N]` that is written -/
def projRow (img : List (List R)) (θ : R) : List R :=
  (List.range img.length).map fun x => radonTorchAt (px img) img.length θ x

/-- radon_torch on one image as the code computes it: zero tensor `[A][N]`, row `i` overwritten
in the `i`-th iteration -/
def radonTorchLoop (img : List (List R)) (thetas : List R) : List (List R) :=
  let init : List (List R) := List.replicate thetas.length (List.replicate img.length Num.zero)
  thetas.zipIdx.foldl (fun out p => out.set p.2 (projRow img p.1)) init

/-- the batched call: zero tensor `[B][A][N]`, `radon_images[:, i, :] = projection` writes row
`i` of every batch item in the `i`-th iteration -/
def radonTorchBatchLoop (imgs : List (List (List R))) (thetas : List R) : List (List (List R)) :=
  let init : List (List (List R)) :=
    imgs.map fun img => List.replicate thetas.length (List.replicate img.length Num.zero)
  thetas.zipIdx.foldl
    (fun out p => List.zipWith (fun o img => o.set p.2 (projRow img p.1)) out imgs) init

/-! ## iradon_torch with its validation -/

/-- does `theta.shape[0] != A` / `len(theta) != radon_image.shape[1]` hold? (`theta=None`: never) -/
def thetaMismatch (thetas : Option (List R)) (A : Nat) : Bool :=
  match thetas with
  | some th => th.length != A
  | none => false

/-- iradon_torch(sinogram, theta, output_size, filter_name, circle) as called: `name` is the
Python-level filter argument (the token "none" stands for `None`, see `parseFilter`), `out = none`
is `output_size=None`.  Order of the code: theta check, default output size, circle padding,
padded size, `get_fourier_filter_torch` (whose exception propagates), filtering, back-projection. -/
def iradonTorchE (sino : List (List R)) (thetas : Option (List R)) (out : Option Nat) (name : String)
    (circle : Bool) : Except String (List (List R)) :=
  let A := sino.length
  let N := (sino.headD []).length
  if thetaMismatch thetas A then .error "ValueError"       -- "theta does not match number of projections"
  else
    let th := thetas.getD ((List.range A).map fun i => Num.ofNat i * (Num.ofNat 180 / Num.ofNat A))
    let m := out.getD (outputSize (R := R) N circle)
    let D := if circle then diagSize (R := R) N else N
    let rows := if circle then sino.map (circleToSquare D N) else sino
    let P := paddedSize D
    match fourierFilterTorchE (R := R) P name with
    | .error e => .error e                                 -- raised inside get_fourier_filter_torch
    | .ok filt =>
        let filtered := rows.map (filterRow filt P D)
        .ok (backproject (fun D v t => interpTorch D v (t + Num.ofNat (D / 2))) D filtered th m circle)

/-- skimage.transform.iradon with the two checks it makes on these arguments:
`len(theta) != radon_image.shape[1]` and `filter_name not in filter_types` (both ValueError) -/
def iradonSkE (sino : List (List R)) (thetas : Option (List R)) (out : Option Nat) (name : String)
    (circle : Bool) : Except String (List (List R)) :=
  let A := sino.length
  let N := (sino.headD []).length
  if thetaMismatch thetas A then .error "ValueError"
  else match parseFilter name with
    | Option.none => .error "ValueError"                   -- "Unknown filter: …"
    | some nm => .ok (iradonSkOut sino thetas nm circle (out.getD (outputSize (R := R) N circle)))

/-! ## a session: histories of calls, including calls that raise -/

/-- one public call with its arguments as passed -/
inductive Op (R : Type) where
  | radon (img : List (List R)) (thetas : Option (List R))
  | filter (size : Nat) (name : String)
  | iradon (sino : List (List R)) (thetas : Option (List R)) (out : Option Nat) (name : String) (circle : Bool)

/-- what the caller observes -/
inductive Outcome (R : Type) where
  | image (v : List (List R))
  | vector (v : List R)
  | raised (e : String)

def Outcome.ofExcept2 : Except String (List (List R)) → Outcome R
  | .ok v => .image v
  | .error e => .raised e

def Outcome.ofExcept1 : Except String (List R) → Outcome R
  | .ok v => .vector v
  | .error e => .raised e

/-- the port -/
def evalTorch : Op R → Outcome R
  | .radon img th => .image (radonTorchRect img th)
  | .filter P name => Outcome.ofExcept1 (fourierFilterTorchE P name)
  | .iradon s th out name circle => Outcome.ofExcept2 (iradonTorchE s th out name circle)

/-- the reference (scikit-image's circle mode is given the disc-masked image) -/
def evalSk : Op R → Outcome R
  | .radon img th =>
      .image (radonSkRectAcc (maskedRect (px img) img.length (img.headD []).length) img.length (img.headD []).length th)
  | .filter P name => Outcome.ofExcept1 (fourierFilterSkE P name)
  | .iradon s th out name circle => Outcome.ofExcept2 (iradonSkE s th out name circle)

/-- `radon.py` has no module-level or object state: the state threaded through a session is `Unit`,
whether the call returns or raises -/
def stepTorch (st : Unit) (op : Op R) : Unit × Outcome R := (st, evalTorch op)

/-- a history of calls in one process: the outcomes, in order -/
def runSession (step : Unit → Op R → Unit × Outcome R) (ops : List (Op R)) : List (Outcome R) :=
  (ops.foldl (fun (acc : Unit × List (Outcome R)) op =>
    let r := step acc.1 op
    (r.1, acc.2 ++ [r.2])) ((), [])).2

end QuantemModel.Radon
