import QuantemModel.Model.Forward
/-!
C02 (growth round 5) — the STATE the forward pipeline carries between public calls, as state machines
over histories of calls that may be REJECTED (raise).  Core Lean only.

Modelled code (src/quantem/diffractive_imaging):
* object_models.py      ObjectBase.slice_thicknesses setter (None / scalar / sequence; validation BEFORE the store)
* ptychography_base.py  PtychographyBase.slice_thicknesses setter (object setter, then `compute_propagator_arrays`),
                        compute_propagator_arrays, reset_recon / preprocess / reconstruct (as "rebuild the propagators")
* dataset_models.py     _set_targets (which pattern stack the targets are copied from; unknown loss type raises),
                        preprocess (new stacks, then `_set_targets("l2_amplitude")`), the stack setters
                        (`centered_amplitudes = arr`, … : shape validated before the store),
                        scan_positions_px setter (shape validated before the store), apply_hard_constraints
                        (clip), patch_indices_need_update, _set_patch_indices, forward (the cached patch indices)
Error enum: `ValueError` for every rejected call modelled here (the message text is never compared).
-/
namespace QuantemModel.ForwardState
open QuantemModel QuantemModel.PtychoOps QuantemModel.Forward

/-! ## 1. slice thicknesses -/

/-- the forms `slice_thicknesses = val` accepts: `None`, a Python `float | int`, anything with `len()`
(list, tuple, ndarray, tensor) -/
inductive ThickArg (R : Type) where
  | none
  | scalar (x : R)
  | seq (xs : List R)
  deriving Repr

section Thick
variable {R : Type} [Num R]

/-- `if val is None: thicknesses = [] elif isinstance(val, (float, int)): thicknesses = [val] else: thicknesses = val` -/
def ThickArg.toList : ThickArg R → List R
  | .none => []
  | .scalar x => [x]
  | .seq xs => xs

/-- `value <= cutoff` of `validate_gt` / `validate_arr_gt` (cutoff 0): the value is REFUSED when it holds
(so a NaN, for which every comparison is false, is not refused — modelled as the code is) -/
def nonPositive (x : R) : Bool := Num.leb x Num.zero

/-- `ObjectBase.slice_thicknesses.setter`: the value that would be stored, or the rejection.
* `len == 0`: `num_slices > 1 → ValueError`, else the empty tensor;
* `len == 1`: `validate_gt(float(x), 0)` then `x * ones(num_slices - 1)`;
* otherwise: `validate_tensor(shape=(num_slices - 1,))` then `validate_arr_gt(…, 0)`. -/
def thickValue (numSlices : Nat) (a : ThickArg R) : Except String (List R) :=
  let th := a.toList
  match th with
  | [] => if numSlices > 1 then .error "ValueError" else .ok []
  | [x] => if nonPositive x then .error "ValueError" else .ok (List.replicate (numSlices - 1) x)
  | _ =>
    if th.length != numSlices - 1 then .error "ValueError"
    else if th.any nonPositive then .error "ValueError"
    else .ok th

/-- what a multislice `Ptychography` object holds: the object model's thicknesses and the propagators
built from them the last time `compute_propagator_arrays` ran -/
structure Slab (R : Type) where
  numSlices : Nat
  thick : List R
  props : List (Img R)

/-- fixed geometry the propagators are computed with (ROI, sampling, energy; no tilt) -/
structure PropGeom (R : Type) where
  nr : Nat
  nc : Nat
  sr : R
  sc : R
  energy : R

/-- `compute_propagator_arrays` -/
def PropGeom.build (g : PropGeom R) (numSlices : Nat) (dzs : List R) : List (Img R) :=
  propagatorArrays g.nr g.nc g.sr g.sc g.energy Num.zero Num.zero numSlices dzs

inductive ThickOp (R : Type) where
  /-- `ptycho.slice_thicknesses = val`: object setter (may raise, then NOTHING else happens), then
  `compute_propagator_arrays()` -/
  | assignPtycho (a : ThickArg R)
  /-- `ptycho.obj_model.slice_thicknesses = val`: the object setter alone (propagators untouched) -/
  | assignObj (a : ThickArg R)
  /-- any valid call that recomputes the propagators: `reconstruct`, `preprocess`, `reset_recon`,
  `compute_propagator_arrays` -/
  | rebuild

/-- one call: the new state and whether the call raised -/
def Slab.step (g : PropGeom R) (s : Slab R) : ThickOp R → Slab R × Bool
  | .assignPtycho a =>
    match thickValue s.numSlices a with
    | .error _ => (s, true)
    | .ok th => ({ s with thick := th, props := g.build s.numSlices th }, false)
  | .assignObj a =>
    match thickValue s.numSlices a with
    | .error _ => (s, true)
    | .ok th => ({ s with thick := th }, false)
  | .rebuild => ({ s with props := g.build s.numSlices s.thick }, false)

/-- does the object setter refuse this call?  (depends on the number of slices only, never on the state) -/
def ThickOp.rejected (n : Nat) : ThickOp R → Bool
  | .assignPtycho a => !(thickValue n a).toBool
  | .assignObj a => !(thickValue n a).toBool
  | .rebuild => false

/-- the value an accepted assignment stores -/
def ThickOp.value (n : Nat) : ThickOp R → Option (List R)
  | .assignPtycho a => (thickValue n a).toOption
  | .assignObj a => (thickValue n a).toOption
  | .rebuild => none

/-- the value stored by the LAST accepted assignment of a history -/
def lastAccepted (n : Nat) (ops : List (ThickOp R)) : Option (List R) :=
  ops.foldl (fun acc op => (op.value n).or acc) none

def Slab.run (g : PropGeom R) (s : Slab R) (ops : List (ThickOp R)) : Slab R :=
  ops.foldl (fun st op => (st.step g op).1) s

/-- the trace the driver reports: after every call `(raised, thicknesses)` -/
def Slab.trace (g : PropGeom R) : Slab R → List (ThickOp R) → List (Bool × List R)
  | _, [] => []
  | s, op :: ops => let r := s.step g op; (r.2, r.1.thick) :: Slab.trace g r.1 ops

end Thick

/-! ## 2. targets -/

/-- what `_set_targets` looks for in the loss-type string: `"amplitude" in loss_type`, else
`"intensity" in loss_type or loss_type == "poisson"`, else `ValueError` -/
inductive LossFamily where
  | amplitude
  | intensity
  | unknown
  deriving DecidableEq, Repr

/-- the four pattern stacks a preprocessed dataset holds (`α`: whatever a stack is) -/
structure Stacks (α : Type) where
  centredAmp : α
  amp : α
  centredInt : α
  int : α

inductive StackName where
  | centredAmp | amp | centredInt | int
  deriving DecidableEq, Repr

def Stacks.get {α : Type} (s : Stacks α) : StackName → α
  | .centredAmp => s.centredAmp
  | .amp => s.amp
  | .centredInt => s.centredInt
  | .int => s.int

def Stacks.set {α : Type} (s : Stacks α) (n : StackName) (v : α) : Stacks α :=
  match n with
  | .centredAmp => { s with centredAmp := v }
  | .amp => { s with amp := v }
  | .centredInt => { s with centredInt := v }
  | .int => { s with int := v }

/-- the stack `_set_targets` copies: raw patterns when the descan is being fitted
(`learn_descan and has_optimizer()`), the centred ones otherwise -/
def targetSource (fam : LossFamily) (fitDescan : Bool) : Option StackName :=
  match fam with
  | .amplitude => some (if fitDescan then .amp else .centredAmp)
  | .intensity => some (if fitDescan then .int else .centredInt)
  | .unknown => none

structure TState (α : Type) where
  stacks : Stacks α
  targets : α
  fitDescan : Bool

inductive TOp (α : Type) where
  /-- `dset.preprocess(...)`: all four stacks recomputed, then `_set_targets("l2_amplitude")` -/
  | preprocess (new : Stacks α)
  /-- a `preprocess` call that raises before the stacks are assigned (unknown fit function) -/
  | preprocessRejected
  /-- `_set_targets(loss_type)` as executed at the start of every `reconstruct()` -/
  | setTargets (fam : LossFamily)
  /-- `dset.centered_amplitudes = arr` (and the other three setters): `ok = false` when the shape is refused -/
  | assignStack (n : StackName) (v : α) (ok : Bool)
  /-- attaching / removing the dataset optimizer or toggling `learn_descan` -/
  | setFitDescan (b : Bool)

def TState.step {α : Type} (s : TState α) : TOp α → TState α × Bool
  | .preprocess new =>
    -- targets = clone of the NEW stack selected for "l2_amplitude"
    let s' := { s with stacks := new }
    match targetSource .amplitude s.fitDescan with
    | some n => ({ s' with targets := new.get n }, false)
    | none => (s', false)
  | .preprocessRejected => (s, true)
  | .setTargets fam =>
    match targetSource fam s.fitDescan with
    | some n => ({ s with targets := s.stacks.get n }, false)
    | none => (s, true)
  | .assignStack n v ok => if ok then ({ s with stacks := s.stacks.set n v }, false) else (s, true)
  | .setFitDescan b => ({ s with fitDescan := b }, false)

def TState.run {α : Type} (s : TState α) (ops : List (TOp α)) : TState α :=
  ops.foldl (fun st op => (st.step op).1) s

/-- trace for the driver: after every call `(raised, targets)` -/
def TState.trace {α : Type} : TState α → List (TOp α) → List (Bool × α)
  | _, [] => []
  | s, op :: ops => let r := s.step op; (r.2, r.1.targets) :: TState.trace r.1 ops

/-! ## 3. scan positions and the cached patch indices -/

structure PosState where
  H : Nat
  W : Nat
  R0 : Nat
  R1 : Nat
  n : Nat                              -- num_gpts
  pos : List (Rat × Rat)               -- scan_positions_px
  last : List (Rat × Rat)              -- _last_patch_positions_px
  idx : List (List (List Nat))         -- _patch_indices

def roundPos (p : Rat × Rat) : Int × Int := (roundHalfEven p.1, roundHalfEven p.2)

/-- `_set_patch_indices` on a whole position list -/
def indicesOf (H W R0 R1 : Nat) (ps : List (Rat × Rat)) : List (List (List Nat)) :=
  ps.map fun p => patchIndices2 p.1 p.2 R0 R1 H W

inductive PosOp where
  /-- `dset.scan_positions_px = arr`: `validate_tensor(shape=(num_gpts, 2))` then the store -/
  | assign (ps : List (Rat × Rat))
  /-- the same with an array of another shape (`rows` rows): refused -/
  | assignBadShape (rows : Nat)
  /-- `dset.forward(all indices)`: clip into the object box, refresh the indices when a rounded position changed -/
  | forward
  /-- `_set_patch_indices` unconditionally (`preprocess`, `obj_padding_px` setter) -/
  | refresh

def PosState.step (s : PosState) : PosOp → PosState × Bool
  | .assign ps => if ps.length != s.n then (s, true) else ({ s with pos := ps }, false)
  | .assignBadShape _ => (s, true)
  | .forward =>
    let clipped := s.pos.map (clipPosition s.H s.W)                 -- apply_hard_constraints
    -- patch_indices_need_update: `not torch.equal(round(last), round(positions))`
    if s.last.map roundPos == clipped.map roundPos then ({ s with pos := clipped }, false)
    else ({ s with pos := clipped, last := clipped, idx := indicesOf s.H s.W s.R0 s.R1 clipped }, false)
  | .refresh => ({ s with last := s.pos, idx := indicesOf s.H s.W s.R0 s.R1 s.pos }, false)

def PosState.run (s : PosState) (ops : List PosOp) : PosState := ops.foldl (fun st op => (st.step op).1) s

/-- what `dset.forward` returns for the whole scan after the call: `(patch_indices, positions - round(positions))` -/
def PosState.observe (s : PosState) : List (List (List Nat)) × List (Rat × Rat) :=
  (s.idx, s.pos.map fun p => (fracPos p.1, fracPos p.2))

def PosState.trace : PosState → List PosOp → List (Bool × PosState)
  | _, [] => []
  | s, op :: ops => let r := s.step op; (r.2, r.1) :: PosState.trace r.1 ops

end QuantemModel.ForwardState
