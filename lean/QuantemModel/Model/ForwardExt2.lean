import QuantemModel.Model.ForwardState
/-!
C02, growth round 6 — the CHUNKED loop of `PtychographyDatasetBase._set_patch_indices`
(dataset_models.py):

    chunk_size = min(1000, len(r0))
    patch_indices_list = []
    for i in range(0, len(r0), chunk_size):
        end_idx = min(i + chunk_size, len(r0))
        r0_chunk = r0[i:end_idx] ; c0_chunk = c0[i:end_idx]
        ... per-chunk flat indices ...
        patch_indices_list.append(patch_indices_chunk)
    self._patch_indices = torch.cat(patch_indices_list, dim=0)

`Model/ForwardState.lean` (`indicesOf`) computes the indices position by position; here the loop is
modelled as the code runs it (starts `range(0, n, c)`, slices `[i : min(i + c, n)]`, `torch.cat`), with
the chunk size a parameter so that the theorems of Props/C02Ext.lean hold for every chunk size.
Core Lean only.
-/
namespace QuantemModel.ForwardExt2
open QuantemModel QuantemModel.Forward QuantemModel.ForwardState

/-- `range(0, n, c)` for `c > 0`: `⌈n / c⌉` starts `0, c, 2c, …` -/
def chunkStarts (n c : Nat) : List Nat := (List.range ((n + c - 1) / c)).map (· * c)

/-- `xs[i : min(i + c, len(xs))]` -/
def chunkAt {α : Type} (xs : List α) (c i : Nat) : List α := (xs.drop i).take c

/-- the list of slices the loop visits -/
def chunks {α : Type} (c : Nat) (xs : List α) : List (List α) := (chunkStarts xs.length c).map (chunkAt xs c)

/-- the loop body on every chunk, then `torch.cat(..., dim=0)` -/
def setPatchIndicesChunked (c H W R0 R1 : Nat) (ps : List (Rat × Rat)) : List (List (List Nat)) :=
  ((chunks c ps).map (indicesOf H W R0 R1)).flatten

/-- `chunk_size = min(1000, len(r0))` -/
def libChunk (n : Nat) : Nat := min 1000 n

/-- `_set_patch_indices` as written: an empty position list makes `chunk_size = 0` and
`range(0, 0, 0)` raises `ValueError` (outside the quantifier: a scan has at least one position) -/
def setPatchIndices (H W R0 R1 : Nat) (ps : List (Rat × Rat)) : Except String (List (List (List Nat))) :=
  if libChunk ps.length = 0 then .error "ValueError"
  else .ok (setPatchIndicesChunked (libChunk ps.length) H W R0 R1 ps)

end QuantemModel.ForwardExt2
