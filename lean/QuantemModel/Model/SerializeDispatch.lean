/-
The type-dispatch chain of `AutoSerialize._serialize_value` (serialize.py), C01.  Core Lean only.

`Model/Serialize.lean` pattern-matches on the constructor of an already classified value; the
real code classifies by an ORDERED chain of `isinstance` / `hasattr` (duck-typing) tests, several
of which hold for one value (an ndarray has `dtype` and `item`, `np.float64` is a Python
`float`, a `Parameter` lives in a torch module, a tensor has `log`, `torch.Generator` has
`get_state`/`set_state` AND lives in module `torch`).  This file models the chain over the
facts it asks about (`Feat`), test by test and in the code's order.  `Generated/SerializeDispatch.lean`
is the same chain translated mechanically from the current source on every run
(`harness/translator/serdispatch2lean.py`); `Props/C01.lean` proves the two equal.
-/
namespace QuantemModel.SerDispatch

/-- the facts about a Python value the chain asks for -/
structure Feat where
  isTensor : Bool := false            -- isinstance(value, torch.Tensor)
  isOptimizer : Bool := false         -- isinstance(value, torch.optim.Optimizer)
  hasStep : Bool := false             -- hasattr(value, "step")
  hasGetLastLr : Bool := false        -- hasattr(value, "get_last_lr")
  hasAddScalar : Bool := false        -- hasattr(value, "add_scalar")
  hasAddImage : Bool := false         -- hasattr(value, "add_image")
  hasLog : Bool := false              -- hasattr(value, "log")
  hasInfo : Bool := false             -- hasattr(value, "info")
  isModule : Bool := false            -- isinstance(value, torch.nn.Module)
  hasModuleAttr : Bool := false       -- hasattr(value, "__module__")
  moduleMentionsTorch : Bool := false -- "torch" in str(value.__module__)
  isNdarray : Bool := false           -- isinstance(value, np.ndarray)
  isInt : Bool := false               -- isinstance(value, int)   (bool included)
  isFloat : Bool := false             -- isinstance(value, float) (np.float64 included)
  isStr : Bool := false               -- isinstance(value, str)   (np.str_ included)
  isBool : Bool := false              -- isinstance(value, bool)
  isNone : Bool := false              -- isinstance(value, type(None))
  hasDtype : Bool := false            -- hasattr(value, "dtype")
  hasItem : Bool := false             -- hasattr(value, "item")
  isNpComplex : Bool := false         -- isinstance(value, np.complexfloating)
  hasFspath : Bool := false           -- hasattr(value, "__fspath__")
  typeStrPathlib : Bool := false      -- str(type(value)).startswith("<class 'pathlib.")
  isAutoSerialize : Bool := false     -- self._is_autoserialize_instance(value)
  isList : Bool := false              -- isinstance(value, list)
  isTuple : Bool := false             -- isinstance(value, tuple)
  isDict : Bool := false              -- isinstance(value, dict)
  isSet : Bool := false               -- isinstance(value, set)
  hasBitGenerator : Bool := false     -- hasattr(value, "bit_generator")
  hasGetState : Bool := false         -- hasattr(value, "get_state")
  hasSetState : Bool := false         -- hasattr(value, "set_state")
  deriving DecidableEq, Repr, Inhabited

/-- the relations between the facts that hold for EVERY Python object (subclass and attribute facts of
CPython / NumPy / torch): `bool` is a subclass of `int`; `"torch" in str(value.__module__)` presupposes the
attribute; ndarrays, tensors and NumPy complex scalars have `dtype` and `item`; an `Optimizer` has `step`;
the pathlib classes implement `__fspath__`; `None` is no `int` / `float` / `str`.  The `dispatch` stream
checks on every run that the facts measured on every real object satisfy it. -/
def Consistent (f : Feat) : Bool :=
  (!f.isBool || f.isInt) &&
  (!f.moduleMentionsTorch || f.hasModuleAttr) &&
  (!f.isNdarray || (f.hasDtype && f.hasItem)) &&
  (!f.isTensor || (f.hasDtype && f.hasItem)) &&
  (!f.isNpComplex || (f.hasDtype && f.hasItem)) &&
  (!f.isOptimizer || f.hasStep) &&
  (!f.typeStrPathlib || f.hasFspath) &&
  (!f.isNone || (!f.isInt && !f.isFloat && !f.isStr && !f.isBool))

/-- the branches of the chain, in the code's order -/
inductive Branch where
  | tensor | optimizer | scheduler | torchLogger | pyLogger | module | ndarray | scalar | npScalar
  | path | obj | container | set | npRng | torchRng | fallback
  deriving DecidableEq, Repr, Inhabited

/-- the test guarding each branch -/
def testOf (b : Branch) (f : Feat) : Bool :=
  match b with
  | .tensor => f.isTensor
  | .optimizer => f.isOptimizer
  | .scheduler => f.hasStep && f.hasGetLastLr
  | .torchLogger => f.hasAddScalar && f.hasAddImage
  | .pyLogger => f.hasLog && f.hasInfo
  | .module => f.isModule || (f.hasModuleAttr && f.moduleMentionsTorch)
  | .ndarray => f.isNdarray
  | .scalar => f.isInt || f.isFloat || f.isStr || f.isBool || f.isNone
  | .npScalar => f.hasDtype && f.hasItem && !f.isNpComplex
  | .path => f.hasFspath || f.typeStrPathlib
  | .obj => f.isAutoSerialize
  | .container => f.isList || f.isTuple || f.isDict
  | .set => f.isSet
  | .npRng => f.hasBitGenerator
  | .torchRng => f.hasGetState && f.hasSetState
  | .fallback => true

/-- position in the chain -/
def rank : Branch → Nat
  | .tensor => 0 | .optimizer => 1 | .scheduler => 2 | .torchLogger => 3 | .pyLogger => 4 | .module => 5
  | .ndarray => 6 | .scalar => 7 | .npScalar => 8 | .path => 9 | .obj => 10 | .container => 11 | .set => 12
  | .npRng => 13 | .torchRng => 14 | .fallback => 15

def chain : List Branch :=
  [.tensor, .optimizer, .scheduler, .torchLogger, .pyLogger, .module, .ndarray, .scalar, .npScalar, .path,
   .obj, .container, .set, .npRng, .torchRng, .fallback]

/-- `_serialize_value`: the `if / elif … / else` chain -/
def dispatch (f : Feat) : Branch :=
  if f.isTensor then .tensor
  else if f.isOptimizer then .optimizer
  else if f.hasStep && f.hasGetLastLr then .scheduler
  else if f.hasAddScalar && f.hasAddImage then .torchLogger
  else if f.hasLog && f.hasInfo then .pyLogger
  else if f.isModule || (f.hasModuleAttr && f.moduleMentionsTorch) then .module
  else if f.isNdarray then .ndarray
  else if f.isInt || f.isFloat || f.isStr || f.isBool || f.isNone then .scalar
  else if f.hasDtype && f.hasItem && !f.isNpComplex then .npScalar
  else if f.hasFspath || f.typeStrPathlib then .path
  else if f.isAutoSerialize then .obj
  else if f.isList || f.isTuple || f.isDict then .container
  else if f.isSet then .set
  else if f.hasBitGenerator then .npRng
  else if f.hasGetState && f.hasSetState then .torchRng
  else .fallback

/-- the first branch of a list whose test holds (`.fallback` when none does) -/
def firstMatch (f : Feat) : List Branch → Branch
  | [] => .fallback
  | b :: bs => if testOf b f then b else firstMatch f bs

/-- every test of the chain that holds for `f`, in chain order -/
def matching (f : Feat) : List Branch := chain.filter (fun b => testOf b f)

/-- what a branch leaves in the group under `name` (the observable of the correspondence stream):
the two scalar branches both write one JSON attribute -/
def obsOf : Branch → String
  | .tensor => "tensor" | .optimizer => "optimizer" | .scheduler => "scheduler" | .torchLogger => "torchLogger"
  | .pyLogger => "pyLogger" | .module => "module" | .ndarray => "ndarray" | .scalar | .npScalar => "attr"
  | .path => "path" | .obj => "obj" | .container => "container" | .set => "set" | .npRng => "npRng"
  | .torchRng => "torchRng" | .fallback => "fallback"

/-- the value kinds of the property statement (and the torch objects that share their tests) -/
inductive Kind where
  | tensor | parameter | optimizer | scheduler | summaryWriter | pyLogger | module | torchGenerator | torchDtype | torchSize
  | ndarray | ndarray0d | pyBool | pyInt | pyFloat | pyStr | pyNone
  | npFloat64 | npFloat32 | npInt64 | npBool | npStr | npComplex | path | purePath | obj
  | list | tuple | dict | set | npRng | pyComplex | bytes | frozenset
  deriving DecidableEq, Repr, Inhabited

def allKinds : List Kind :=
  [.tensor, .parameter, .optimizer, .scheduler, .summaryWriter, .pyLogger, .module, .torchGenerator, .torchDtype, .torchSize,
   .ndarray, .ndarray0d, .pyBool, .pyInt, .pyFloat, .pyStr, .pyNone, .npFloat64, .npFloat32, .npInt64, .npBool, .npStr,
   .npComplex, .path, .purePath, .obj, .list, .tuple, .dict, .set, .npRng, .pyComplex, .bytes, .frozenset]

/-- the facts that hold for an object of each kind in CPython / NumPy / torch (measured on the real
objects on every run by the `dispatch` stream and compared with this table) -/
def featOf : Kind → Feat
  | .tensor | .parameter =>
      { isTensor := true, hasLog := true, hasModuleAttr := true, moduleMentionsTorch := true, hasDtype := true, hasItem := true }
  | .optimizer => { isOptimizer := true, hasStep := true, hasModuleAttr := true, moduleMentionsTorch := true }
  | .scheduler => { hasStep := true, hasGetLastLr := true, hasModuleAttr := true, moduleMentionsTorch := true }
  | .summaryWriter => { hasAddScalar := true, hasAddImage := true, hasModuleAttr := true, moduleMentionsTorch := true }
  | .pyLogger => { hasLog := true, hasInfo := true, hasModuleAttr := true }
  | .module => { isModule := true, hasModuleAttr := true, moduleMentionsTorch := true }
  | .torchGenerator => { hasModuleAttr := true, moduleMentionsTorch := true, hasGetState := true, hasSetState := true }
  | .torchDtype => { hasModuleAttr := true, moduleMentionsTorch := true }
  | .torchSize => { isTuple := true }
  | .ndarray | .ndarray0d => { isNdarray := true, hasDtype := true, hasItem := true }
  | .pyBool => { isInt := true, isBool := true }
  | .pyInt => { isInt := true }
  | .pyFloat => { isFloat := true }
  | .pyStr => { isStr := true }
  | .pyNone => { isNone := true }
  | .npFloat64 => { isFloat := true, hasDtype := true, hasItem := true }
  | .npFloat32 | .npInt64 | .npBool => { hasDtype := true, hasItem := true }
  | .npStr => { isStr := true, hasDtype := true, hasItem := true }
  | .npComplex => { hasDtype := true, hasItem := true, isNpComplex := true }
  | .path | .purePath => { hasModuleAttr := true, hasFspath := true, typeStrPathlib := true }
  | .obj => { hasModuleAttr := true, isAutoSerialize := true }
  | .list => { isList := true }
  | .tuple => { isTuple := true }
  | .dict => { isDict := true }
  | .set => { isSet := true }
  | .npRng => { hasBitGenerator := true }
  | .pyComplex | .bytes | .frozenset => {}

/-- the branch the property needs each kind to take (the one whose stored form `decode` restores) -/
def branchOf : Kind → Branch
  | .tensor | .parameter => .tensor
  | .optimizer => .optimizer
  | .scheduler => .scheduler
  | .summaryWriter => .torchLogger
  | .pyLogger => .pyLogger
  | .module | .torchGenerator | .torchDtype => .module
  | .ndarray | .ndarray0d => .ndarray
  | .pyBool | .pyInt | .pyFloat | .pyStr | .pyNone | .npFloat64 | .npStr => .scalar
  | .npFloat32 | .npInt64 | .npBool => .npScalar
  | .path | .purePath => .path
  | .obj => .obj
  | .list | .tuple | .dict | .torchSize => .container
  | .set => .set
  | .npRng => .npRng
  | .npComplex | .pyComplex | .bytes | .frozenset => .fallback

end QuantemModel.SerDispatch
