import QuantemModel.Model.Drift
/-!
State-machine model of one `DriftCorrection` object (`quantem/imaging/drift.py`) as far as the
resampling geometry is concerned: which public calls change `shape`, `knots` and the
`DriftInterpolator`s, in which order `preprocess` validates / converts / assigns, which calls RAISE and
what they leave behind.

* `from_data`, assignment to `scan_direction_degrees`
* `preprocess(pad_fraction, pad_value, kde_sigma, number_knots)`: `validate_pad_value`
  (compound_validators.py, every branch), the `float()` / `int()` conversions of the property setters in
  the order of the code, the canvas shape (`images[0].shape[0]`, `images[1].shape[1]` — as written),
  the late failures (`int(np.round(nan))`, empty canvas, `gaussian_filter(sigma=inf)`)
* `align_translation(upsample_factor, min_image_shift, max_image_shift)`: the implicit default
  `preprocess()` when there are no knots, type errors of the registration call, a fault raised by a callee
  inside the loop, mean removal, the `min_image_shift` rule (as written: last image only), knot update
* `align_affine(step, num_tests, refine, upsample_factor, max_image_shift)`: the `num_tests` parity check,
  the candidate drift vectors, failures inside the search loop (nothing committed), the shear that a
  successful search commits and the two `align_translation` calls it makes.

What the registration *measures* (the raw shifts, the index of the cheapest candidate) is a parameter of the
op: the model says what the object does with a measurement, C13's model says what is measured.
Written over `[Num R] [NumFloor R]`; core Lean only.
-/
namespace QuantemModel.DriftSession
open QuantemModel QuantemModel.Registration QuantemModel.Drift
variable {R : Type} [Num R] [NumFloor R]

/-- exception classes (message text is never compared) -/
inductive Err
  | valueError | typeError | indexError | overflowError | fault
  deriving DecidableEq, Repr

inductive Outcome
  | ok
  | raised (e : Err)
  deriving DecidableEq, Repr

/-- a value after `float(...)` -/
inductive Fl (R : Type)
  | fin (x : R)
  | nan
  | inf

/-- an argument the code passes through `float(...)` / `int(...)` -/
inductive NumArg (R : Type)
  | num (x : R)        -- int, float, bool, NumPy scalar, numeric string: the conversion succeeds, finite
  | nan
  | inf
  | badStr             -- `float("wide")`, `int("two")`: ValueError
  | none               -- `float(None)`, `float([..])`: TypeError

/-- `float(value)` -/
def NumArg.toFloat : NumArg R → Except Err (Fl R)
  | .num x => .ok (.fin x)
  | .nan => .ok .nan
  | .inf => .ok .inf
  | .badStr => .error .valueError
  | .none => .error .typeError

/-- Python `int(x)` of a finite float: truncation towards zero -/
def truncInt (x : R) : Int :=
  if Num.ltb x Num.zero then -(NumFloor.floor (-x)) else NumFloor.floor x

/-- `int(value)` followed by the `< 1` check of the `number_knots` setter -/
def NumArg.toKnots : NumArg R → Except Err Nat
  | .num x => let k := truncInt x; if k < 1 then .error .valueError else .ok k.toNat
  | .nan => .error .valueError          -- int(nan)
  | .inf => .error .overflowError       -- int(inf)
  | .badStr => .error .valueError
  | .none => .error .typeError

/-- element classes of a `pad_value` list: `isinstance(v, (int, float))` or not -/
inductive PadItem
  | number | other
  deriving DecidableEq, Repr

/-- forms of the `pad_value` argument -/
inductive PadArg (R : Type)
  | str (s : String)
  | num (x : R)               -- `numbers.Number`, finite
  | numNan                    -- NaN: passes both range tests, `np.quantile` raises ValueError
  | list (items : List PadItem)
  | other                     -- None, tuple, ndarray, dict, ...

/-- `validate_pad_value(pad_value, images)`; the values themselves (median … quantile of the pixel data)
do not enter the geometry, only acceptance / rejection does -/
def validatePadValue (n : Nat) : PadArg R → Except Err Unit
  | .str s =>
      if s = "median" ∨ s = "mean" ∨ s = "min" ∨ s = "max" then .ok ()
      else .error .valueError                                   -- unknown string
  | .num x =>
      if Num.ltb x Num.zero then .error .valueError             -- float(pad_value) < 0.0
      else if Num.ltb Num.one x then .error .valueError         -- float(pad_value) > 1.0
      else .ok ()
  | .numNan => .error .valueError
  | .list items =>
      if items.all (· = .number) then
        if items.length ≠ n then .error .valueError else .ok ()
      else .error .typeError
  | .other => .error .typeError

/-- one image of the stack as the alignment code sees it: its `DriftInterpolator`
(`input_shape`, `scan_fast`, `scan_slow`) and its knots `(2, rows, n_knots)` -/
structure ImgGeom (R : Type) where
  H : Nat
  W : Nat
  scan : Scan R
  nk : Nat
  knots : Nat → Nat → R × R      -- row → knot → (x, y)

/-- `shape[1:]`, interpolators and knots -/
structure Geom (R : Type) where
  Hc : Nat
  Wc : Nat
  imgs : List (ImgGeom R)

/-- plain attributes `preprocess` assigns one by one (a call that raises half-way keeps the ones
already assigned) -/
structure Attrs (R : Type) where
  padFraction : Option (Fl R) := none
  kdeSigma : Option (Fl R) := none
  nk : Option Nat := none
  /-- `scan_direction`, `scan_fast`, `scan_slow` attributes: the angles they were computed from -/
  scanFrom : Option (List R) := none

structure St (R : Type) where
  shapes : List (Nat × Nat)       -- image shapes, fixed by `from_data`
  angles : List R                 -- `scan_direction_degrees` (assignable)
  attrs : Attrs R := {}
  geom : Option (Geom R) := none  -- `none`: no `knots` attribute yet
  /-- `images_warped` / `weights_warped` are the resampling of the current knots (false after a call
  that raised between the knot reset and the end of the warp loop) -/
  warpedValid : Bool := false
  errRows : Nat := 0              -- rows of `error_track`

/-- `DriftCorrection.from_data(images, scan_direction_degrees)` -/
def fromData (shapes : List (Nat × Nat)) (angles : List R) : St R := { shapes := shapes, angles := angles }

/-- `transform_coordinates(knots)` of one image: pixel `(r, c)` -/
def coordsOf (g : ImgGeom R) (r c : Nat) : R × R :=
  let u : R := linspace Num.zero Num.one g.W c
  (transformRow g.nk g.W (fun k => (g.knots r k).1) g.scan.f0 u,
   transformRow g.nk g.W (fun k => (g.knots r k).2) g.scan.f1 u)

/-- the knots / interpolator `preprocess` makes for one image -/
def freshImg (Hc Wc nk : Nat) (shape : Nat × Nat) (deg : R) : ImgGeom R :=
  let sc := scanOfDegrees deg
  { H := shape.1, W := shape.2, scan := sc, nk := nk, knots := initialKnot Hc Wc shape.1 shape.2 nk sc }

/-- the geometry `preprocess` makes: canvas + one `freshImg` per image (`zip`: the generator keeps
`len(angles) = len(images)`) -/
def freshGeom (Hc Wc nk : Nat) (shapes : List (Nat × Nat)) (angles : List R) : Geom R :=
  { Hc := Hc, Wc := Wc, imgs := (shapes.zip angles).map fun p => freshImg Hc Wc nk p.1 p.2 }

/-- failures AFTER the knots and interpolators have been re-made: an empty canvas (`ravel_multi_index` raises inside
the first warp) and `gaussian_filter(sigma=inf)` -/
def lateFailure (hc wc : Int) (sigF : Fl R) : Option Err :=
  if hc ≤ 0 ∨ wc ≤ 0 then some .valueError
  else match sigF with
    | .inf => some .overflowError
    | _ => none

/-- knots, interpolators, `Dataset3d.from_shape`, warp loop, `calculate_error(0)` -/
def finish (s : St R) (a : Attrs R) (g : Geom R) : Option Err → St R × Outcome
  | some e => ({ s with attrs := a, geom := some g, warpedValid := false }, .raised e)
  | none => ({ s with attrs := a, geom := some g, warpedValid := true, errRows := s.errRows + 1 }, .ok)

/-- `preprocess(pad_fraction, pad_value, kde_sigma, number_knots)` -/
def preprocess (s : St R) (pad : NumArg R) (pv : PadArg R) (sigma nkArg : NumArg R) : St R × Outcome :=
  -- validated_pad_value = validate_pad_value(pad_value, self._images)
  match validatePadValue s.shapes.length pv with
  | .error e => (s, .raised e)
  | .ok () =>
  -- self.pad_fraction = pad_fraction
  match pad.toFloat with
  | .error e => (s, .raised e)
  | .ok padF =>
  -- self.kde_sigma = kde_sigma          (pad_fraction is already assigned)
  match sigma.toFloat with
  | .error e => ({ s with attrs := { s.attrs with padFraction := some padF } }, .raised e)
  | .ok sigF =>
  -- self.number_knots = number_knots    (pad_fraction, kde_sigma are already assigned)
  match nkArg.toKnots with
  | .error e => ({ s with attrs := { s.attrs with padFraction := some padF, kdeSigma := some sigF } }, .raised e)
  | .ok nk =>
  -- self.scan_direction = ...; self.scan_fast = ...; self.scan_slow = ...
  -- self.shape = (len(images), int(round(images[0].shape[0]*(1+pad)/2)*2), int(round(images[1].shape[1]*(1+pad)/2)*2))
  match s.shapes, padF with
  | [], _ => ({ s with attrs := ⟨some padF, some sigF, some nk, some s.angles⟩ }, .raised .indexError)
  | [_], _ => ({ s with attrs := ⟨some padF, some sigF, some nk, some s.angles⟩ }, .raised .indexError)   -- self.images[1]
  | _ :: _ :: _, .nan => ({ s with attrs := ⟨some padF, some sigF, some nk, some s.angles⟩ }, .raised .valueError)      -- int(nan)
  | _ :: _ :: _, .inf => ({ s with attrs := ⟨some padF, some sigF, some nk, some s.angles⟩ }, .raised .overflowError)   -- int(inf)
  | sh0 :: sh1 :: _, .fin p =>
    finish s ⟨some padF, some sigF, some nk, some s.angles⟩
      (freshGeom (canvasDim sh0.1 p).toNat (canvasDim sh1.2 p).toNat nk s.shapes s.angles)
      (lateFailure (canvasDim sh0.1 p) (canvasDim sh1.2 p) sigF)

/-- `upsample_factor` / `max_image_shift` argument forms of the registration call -/
inductive RegArg
  | good          -- a number (or `None` for `max_image_shift`)
  | bad           -- a type the callee cannot compare / square: TypeError on the first registration
  deriving DecidableEq, Repr

/-- `knots[ind][0] += d[0]; knots[ind][1] += d[1]` -/
def translateImg (g : ImgGeom R) (d : R × R) : ImgGeom R :=
  { g with knots := fun r k => moveKnot (g.knots r k) d }

/-- `u = arange(rows) - (rows-1)/2; knots[0] += d[0]*u[:,None]; knots[1] += d[1]*u[:,None]` -/
def shearImg (g : ImgGeom R) (d : R × R) : ImgGeom R :=
  { g with knots := fun r k =>
      let u : R := Num.ofNat r - halfSpan g.H
      ((g.knots r k).1 + d.1 * u, (g.knots r k).2 + d.2 * u) }

/-- `zip` that keeps images without a shift unchanged -/
def zipApply (f : ImgGeom R → R × R → ImgGeom R) : List (ImgGeom R) → List (R × R) → List (ImgGeom R)
  | [], _ => []
  | g :: gs, [] => g :: gs
  | g :: gs, d :: ds => f g d :: zipApply f gs ds

/-- `if min_image_shift is not None: if norm(dxy[ind]) < min_image_shift: dxy[ind] = 0` — as written,
`ind` is the leftover loop variable: only the LAST image is tested -/
def applyMinShift (minShift : Option R) (d : List (R × R)) : List (R × R) :=
  match minShift with
  | none => d
  | some m =>
    match d.getLast? with
    | none => d
    | some v =>
      if Num.ltb (Num.sqrt (v.1 * v.1 + v.2 * v.2)) m then d.dropLast ++ [(Num.zero, Num.zero)] else d

/-- the body of `align_translation` once the shifts `raw` (`dxy[1:]` before mean removal) are measured -/
def commitTranslation (g : Geom R) (minShift : Option R) (raw : List (R × R)) : Geom R :=
  let d := applyMinShift minShift (removeMean ((Num.zero, Num.zero) :: raw))
  { g with imgs := zipApply translateImg g.imgs d }

/-- `align_translation`.  `fault = true`: a callee raises inside the loop (wrong-typed argument is the
special case `up = bad ∨ ms = bad`).  `raw`: the measured shifts of images `1 … n-1`. -/
def alignTranslation (s : St R) (up ms : RegArg) (minShift : Option R) (fault : Bool) (raw : List (R × R)) :
    St R × Outcome :=
  -- if not hasattr(self, "knots"): self.preprocess()
  let (s1, o1) := match s.geom with
    | some _ => (s, Outcome.ok)
    | none => preprocess s (.num (Num.ofRat (1/4))) (.str "median") (.num (Num.ofRat (1/2))) (.num Num.one)
  match o1 with
  | .raised e => (s1, .raised e)
  | .ok =>
  match s1.geom with
  | none => (s1, .raised .valueError)     -- unreachable: a successful preprocess sets the geometry
  | some g =>
    -- the loop `for ind in range(1, n)`: the first registration raises for wrong-typed arguments
    if 2 ≤ g.imgs.length ∧ (up = .bad ∨ ms = .bad) then (s1, .raised .typeError)
    else if 2 ≤ g.imgs.length ∧ fault then (s1, .raised .fault)
    else ({ s1 with geom := some (commitTranslation g minShift raw) }, .ok)

/-- `vec = arange(-(nt-1)/2, (nt+1)/2)`, `meshgrid(indexing="ij")`, `keep = xx²+yy² <= (nt/2)²`,
`dxy = vstack((xx[keep], yy[keep])).T * step`, for odd `nt = 2h+1`: row-major over `(x, y)`, in
integer units (`4(x²+y²) ≤ nt²`) -/
def affineUnits (h : Nat) : List (Int × Int) :=
  let v : List Int := (List.range (2 * h + 1)).map fun (i : Nat) => (i : Int) - (h : Int)
  (v.flatMap fun x => v.map fun y => (x, y)).filter fun p =>
    4 * (p.1 * p.1 + p.2 * p.2) ≤ ((2 * h + 1 : Nat) : Int) * ((2 * h + 1 : Nat) : Int)

/-- the candidate drift vectors of the first search (`* step`) -/
def affineCandidates (h : Nat) (step : R) : List (R × R) :=
  (affineUnits h).map fun p => (Num.ofInt p.1 * step, Num.ofInt p.2 * step)

/-- what one successful search commits: the same shear on every image -/
def commitShear (g : Geom R) (d : R × R) : Geom R :=
  { g with imgs := g.imgs.map fun im => shearImg im d }

/-- measurements of a successful `align_affine`: index of the cheapest candidate and the raw shifts of the
`align_translation` that follows, for the first search and for the refinement -/
structure AffineMeas (R : Type) where
  ind1 : Nat
  raw1 : List (R × R)
  ind2 : Nat
  raw2 : List (R × R)

/-- what a successful `align_affine` does to the geometry: shear of the cheapest candidate, `align_translation`,
then (with `refine`) the shear of the cheapest refined candidate (`dxy /= num_tests - 1`), and a second
`align_translation` (which runs with or without refinement) -/
def affineCommit (g : Geom R) (step : R) (numTests : Int) (refine : Bool) (m : AffineMeas R) : Geom R :=
  let c1 := affineCandidates ((numTests.toNat - 1) / 2) step
  let g1 := commitTranslation (commitShear g (c1.getD m.ind1 (Num.zero, Num.zero))) none m.raw1
  if refine then
    let c2 := c1.map fun d => (d.1 / Num.ofInt (numTests - 1), d.2 / Num.ofInt (numTests - 1))
    commitTranslation (commitShear g1 (c2.getD m.ind2 (Num.zero, Num.zero))) none m.raw2
  else commitTranslation g1 none m.raw2

/-- `align_affine(step, num_tests, refine, upsample_factor, max_image_shift)` on an object that has knots and
at least two images.  `faultInSearch`: a callee raises inside the FIRST search loop. -/
def alignAffine (s : St R) (step : R) (numTests : Int) (refine : Bool) (up ms : RegArg) (faultInSearch : Bool)
    (m : AffineMeas R) : St R × Outcome :=
  match s.geom with
  | none => (s, .raised .valueError)       -- not modelled here: the implicit `preprocess()` (see `alignTranslation`)
  | some g =>
    -- if num_tests % 2 == 0: raise ValueError
    if numTests % 2 = 0 then (s, .raised .valueError)
    else if numTests < 1 then (s, .raised .valueError)     -- empty candidate list: `np.argmin` of an empty array
    -- first search loop: trial knots are COPIES, nothing is committed before the loop has finished
    else if up = .bad ∨ ms = .bad then (s, .raised .typeError)
    else if faultInSearch then (s, .raised .fault)
    else ({ s with geom := some (affineCommit g step numTests refine m), errRows := s.errRows + 2 }, .ok)

/-- the public operations of a history -/
inductive Op (R : Type)
  | setAngles (a : List R)
  | preprocess (pad : NumArg R) (pv : PadArg R) (sigma nk : NumArg R)
  | alignTranslation (up ms : RegArg) (minShift : Option R) (fault : Bool) (raw : List (R × R))
  | alignAffine (step : R) (numTests : Int) (refine : Bool) (up ms : RegArg) (fault : Bool) (m : AffineMeas R)

/-- does the op estimate drift (move knots away from the initial geometry) when it succeeds? -/
def Op.isAlign : Op R → Bool
  | .alignTranslation .. => true
  | .alignAffine .. => true
  | _ => false

def step (s : St R) : Op R → St R × Outcome
  | .setAngles a => ({ s with angles := a }, .ok)
  | .preprocess pad pv sigma nk => preprocess s pad pv sigma nk
  | .alignTranslation up ms mn f raw => alignTranslation s up ms mn f raw
  | .alignAffine st nt rf up ms f m => alignAffine s st nt rf up ms f m

def run (s : St R) : List (Op R) → St R
  | [] => s
  | op :: ops => run (step s op).1 ops

/-- no alignment call of the history has succeeded ("before any drift is estimated"); calls that raise
are allowed anywhere -/
def noDrift (s : St R) : List (Op R) → Prop
  | [] => True
  | op :: ops => (op.isAlign = true → (step s op).2 ≠ .ok) ∧ noDrift (step s op).1 ops

/-- the knots of every image are the ones `preprocess` places for the image's own shape and scan vectors on
the current canvas -/
def Pristine (g : Geom R) : Prop :=
  ∀ im ∈ g.imgs, im.knots = initialKnot g.Hc g.Wc im.H im.W im.nk im.scan

end QuantemModel.DriftSession
