import QuantemModel.Model.Norm
/-!
C20 (growth 6) — the BUFFER level of `*Stretch.__call__(values, copy)` and of `CustomNormalization.__call__`.

Every stretch begins with `values = np.array(values, copy=copy)` and continues with `out=values` steps (the two identity
short-cuts return `values` itself).  With `copy=False` the caller's array IS the working array, so after the call it holds
the result; with `copy=True` it is untouched.  `CustomNormalization.__call__` relies on the first:

```
values = self.interval(value)          # a fresh array (np.subtract allocates)
self.stretch(values, copy=False)       # return value DISCARDED
return np.ma.masked_invalid(values)    # the buffer
```
Core Lean only.
-/
namespace QuantemModel.Norm
open QuantemModel QuantemModel.Generated.Stretch

section
variable {R : Type} [Num R]

/-- what a call leaves behind: the array it returns and the caller's array afterwards -/
structure BufCall (α : Type) where
  ret : List α
  buf : List α

/-- `S(values, copy)` -/
def Stretch.callBuf (s : Stretch R) (copy : Bool) (values : List R) : BufCall R :=
  let r := values.map s.call
  { ret := r, buf := if copy then values else r }

/-- a stretch object from its class name and positional parameters -/
def stretchByName : String → List R → Option (Stretch R)
  | "LinearStretch", [a, b] => some (.linear { slope := a, intercept := b })
  | "PowerLawStretch", [p] => some (.power { power := p })
  | "LogarithmicStretch", [a] => some (.log { a := a })
  | "InverseLogarithmicStretch", [a] => some (.invlog { a := a })
  | "InverseHyperbolicSineStretch", [a] => some (.asinh { a := a })
  | "HyperbolicSineStretch", [a] => some (.sinh { a := a })
  | _, _ => none

/-- the same on classified pixels (NaN stays NaN through every `out=` step) -/
def stretchBufExt (s : Stretch R) (copy : Bool) (values : List (Ext R)) : BufCall (Ext R) :=
  let r := values.map (stretchExt s)
  { ret := r, buf := if copy then values else r }

/-- `CustomNormalization.__call__` spelled with the buffer (`copy` is the flag handed to the stretch; the code passes
`False`) -/
def Norm.callViaBuffer (n : Norm R) (copy : Bool) (value : List (Ext R)) : Except Err (List (Option R)) := do
  let (lo, hi) ← n.interval.getLimits value
  let values := value.map (intervalExt lo hi)
  let b := stretchBufExt n.stretch copy values
  pure (b.buf.map maskInvalid)

end
end QuantemModel.Norm
