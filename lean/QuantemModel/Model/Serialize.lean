/-
Model of src/quantem/core/io/serialize.py (C01, C14; C08 builds on it).  Core Lean only.

`Val` is the universe of supported value kinds; `Node` is the zarr tree a save produces
(attributes, arrays and sub-groups of one group are kept in one insertion-ordered child
list whose constructor tells the namespace; the metadata attributes the loader dispatches
on are the `flags` of a group).  `encode` follows `_recursive_save / _serialize_value /
_serialize_container / _write_ndarray`, `decode` follows `_recursive_load /
_deserialize_container / _array_to_np`, branch by branch and in the code's order.

Abstractions (trusted, exercised by the correspondence): sequence elements are positional
children (`str(i)` keys and the `max(int(k))+1` length reconstruction are not modelled);
torch.save / dill payloads are opaque tokens; JSON / zarr / blosc return what was written.
-/
namespace QuantemModel.Serialize

inductive Scalar where
  | none
  | bool (b : Bool)
  | int (i : Int)
  | float (bits : Nat)
  | str (s : String)
  deriving DecidableEq, Repr, Inhabited

inductive TorchKind where
  | tensor | parameter | optimizer | scheduler | module
  | other      -- any other object whose class lives in a torch module (torch.Generator, torch.dtype, …):
               -- dispatched to the whole-module torch.save branch without being an nn.Module
  deriving DecidableEq, Repr, Inhabited

/-- what a `torch.save` / `dill.dumps` byte string contains: the pickled class identity and
the (opaque) state.  `kind = none` is a dill payload. -/
structure Payload where
  kind : Option TorchKind
  cls : String
  tok : Nat
  deriving DecidableEq, Repr, Inhabited

inductive Val where
  | scalar (s : Scalar)
  | npScalar (dt : String) (s : Scalar)          -- real-kind NumPy scalar; `s` is `.item()`
  | path (p : String)
  | ndarray (dt : String) (shape : List Nat) (data : List Scalar)
  | torch (k : TorchKind) (cls : String) (tok : Nat)   -- torch.save payload (opaque token)
  | fallback (cls : String) (tok : Nat)                -- dill payload (complex, bytes, frozenset, …)
  | rawBytes (p : Payload)                             -- the uint8 array a dill payload is read back as
  | npRng (bitgen : String)
  | torchRng
  | pyLogger (name : String) (level : Int)
  | list (xs : List Val)
  | tuple (xs : List Val)
  | set (xs : List Val)
  | dict (kvs : List (String × Val))
  | obj (cls : String) (attrs : List (String × Val))
  deriving Repr, Inhabited

abbrev Flags := List (String × Scalar)

def fget (f : Flags) (k : String) : Option Scalar :=
  match f with
  | [] => .none
  | (k', v) :: rest => if k' = k then some v else fget rest k

/-- `attrs[k] = v` -/
def fset (f : Flags) (k : String) (v : Scalar) : Flags :=
  match f with
  | [] => [(k, v)]
  | (k', v') :: rest => if k' = k then (k, v) :: rest else (k', v') :: fset rest k v

/-- Python truthiness of `attrs.get(k)` -/
def ftrue (f : Flags) (k : String) : Bool :=
  match fget f k with
  | some (.bool b) => b
  | some (.str s) => s != ""
  | some (.int i) => i != 0
  | _ => false

inductive Node where
  | attr (s : Scalar) (isPath : Bool)          -- `group.attrs[name]` (+ `name.is_path`)
  | arr (dt : String) (shape : List Nat) (data : List Scalar) (orig : Option (List Nat))
  | bytes (p : Payload)                        -- `_write_bytes` of a torch.save / dill payload
  | seq (flags : Flags) (items : List Node)    -- list / tuple / set group, children "0".."n-1"
  | map (flags : Flags) (kids : List (String × Node))   -- object / dict / torch / rng group
  deriving Repr, Inhabited

inductive Err where
  | valueError | keyError | typeError
  deriving DecidableEq, Repr, Inhabited

/-! ### type tags for `skip` by type -/

/-- `isinstance(value, t)` for the type universe of the generator -/
def isInstance (v : Val) (t : String) : Bool :=
  match v with
  | .scalar .none => t == "NoneType"
  | .scalar (.bool _) => t == "bool" || t == "int"
  | .scalar (.int _) => t == "int"
  | .scalar (.float _) => t == "float"
  | .scalar (.str _) => t == "str"
  | .npScalar dt s =>
      -- NumPy scalar types are named "np.<dtype>" in the type universe; np.float64 subclasses float
      t == "np." ++ dt || (dt == "float64" && t == "float") || (match s with | .str _ => t == "str" | _ => false)
  | .path _ => t == "Path" || t == "PosixPath"
  | .ndarray .. => t == "ndarray"
  | .torch .tensor _ _ => t == "Tensor"
  | .torch .parameter _ _ => t == "Tensor" || t == "Parameter"
  | .torch .module cls _ => t == "Module" || t == cls
  | .torch _ cls _ => t == cls
  | .fallback cls _ => t == cls
  | .rawBytes p => t == p.cls          -- decodes to the fallback value of that class
  | .npRng _ => t == "Generator"
  | .torchRng => t == "TorchGenerator"
  | .pyLogger .. => t == "Logger"
  | .list _ => t == "list"
  | .tuple _ => t == "tuple"
  | .set _ => t == "set"
  | .dict _ => t == "dict"
  | .obj cls _ => t == cls || t == "AutoSerialize"

/-- `type(value) in skip_types` (exact type) -/
def exactType (v : Val) (t : String) : Bool :=
  match v with
  | .scalar (.bool _) => t == "bool"
  | .npScalar dt _ => t == "np." ++ dt
  | .path _ => t == "PosixPath"
  | .torch .parameter _ _ => t == "Parameter"
  | .torch .module cls _ => t == cls
  | .obj cls _ => t == cls
  | _ => isInstance v t

structure Skip where
  names : List String := []
  types : List String := []
  deriving Repr, Inhabited

/-! ### encode -/

def isNumeric : Val → Bool
  | .scalar (.bool _) | .scalar (.int _) | .scalar (.float _) => true
  | .npScalar _ (.bool _) | .npScalar _ (.int _) | .npScalar _ (.float _) => true
  | _ => false

def scalarOf : Val → Scalar
  | .scalar s => s
  | .npScalar _ s => s
  | _ => .none

/-- exact `float(i)` (IEEE double, bit pattern) — opaque to every theorem -/
def intToFloatBits (i : Int) : Nat := (Float.ofInt i).toBits.toNat

inductive NumClass where | bool | int | float
  deriving DecidableEq, Repr

/-- result class of `np.asarray(values)` on Python/NumPy real scalars -/
def isBoolS : Scalar → Bool
  | .bool _ => true
  | _ => false

def isBoolOrIntS : Scalar → Bool
  | .bool _ | .int _ => true
  | _ => false

def promote (xs : List Scalar) : NumClass :=
  if xs.all isBoolS then .bool
  else if xs.all isBoolOrIntS then .int
  else .float

/-- element after `np.asarray(...).tolist()` -/
def castTo (c : NumClass) (s : Scalar) : Scalar :=
  match c, s with
  | .bool, s => s
  | .int, .bool b => .int (if b then 1 else 0)
  | .int, s => s
  | .float, .bool b => .float (intToFloatBits (if b then 1 else 0))
  | .float, .int i => .float (intToFloatBits i)
  | .float, s => s

def promotedDt : NumClass → String
  | .bool => "bool" | .int => "int64" | .float => "float64"

/-- `_write_ndarray` -/
def writeNdarray (dt : String) (shape : List Nat) (data : List Scalar) : Node :=
  if shape.isEmpty then .arr dt [] data .none                    -- 0-d: `ds[()] = array.item()`
  else if shape.any (· == 0) then .arr dt [] [] (some shape)     -- empty: placeholder + `_original_shape`
  else .arr dt shape data .none

def torchFlag : TorchKind → String
  | .tensor | .parameter => "_torch_tensor"
  | .optimizer => "_torch_optimizer"
  | .scheduler => "_torch_scheduler"
  | .module | .other => "_torch_whole_module"

def torchPayload : TorchKind → String
  | .tensor | .parameter => "tensor"
  | .optimizer => "optimizer"
  | .scheduler => "scheduler"
  | .module | .other => "module"

mutual
/-- `_serialize_value(value, group, name, skip…)`: the node stored under `name` -/
def encode (sk : Skip) : Val → Node
  | .torch k cls tok => .map [(torchFlag k, .bool true)] [(torchPayload k, .bytes ⟨some k, cls, tok⟩)]
  | .pyLogger name level =>
      .map [("_python_logger", .bool true), ("class_name", .str "Logger"),
            ("logger_name", .str name), ("logger_level", .int level)] []
  | .ndarray dt shape data => writeNdarray dt shape data
  | .scalar s => .attr s false
  | .npScalar _ s => .attr s false                 -- `value.item()`
  | .path p => .attr (.str p) true
  | .obj cls attrs => .map [("_autoserialize", .str cls)] (encodeAttrs sk attrs)
  | .list xs => encodeSeq sk "list" xs (xs.all isNumeric && !xs.isEmpty) (xs.map scalarOf)
  | .tuple xs => encodeSeq sk "tuple" xs (xs.all isNumeric && !xs.isEmpty) (xs.map scalarOf)
  | .dict kvs => .map [("_container_type", .str "dict")] (encodeKids sk kvs)
  | .set xs =>
      -- `_serialize_container(list(value))` then `attrs["_container_type"] = "set"`
      match encodeSeq sk "list" xs (xs.all isNumeric && !xs.isEmpty) (xs.map scalarOf) with
      | .seq f items => .seq (fset f "_container_type" (.str "set")) items
      | n => n
  | .npRng bitgen => .map [("_numpy_rng", .bool true), ("_bit_generator_type", .str bitgen)] []
  | .torchRng => .map [("_torch_rng_skipped", .bool true)] []
  | .fallback cls tok => .bytes ⟨.none, cls, tok⟩
  | .rawBytes p => .bytes p                        -- never produced by users; totality only
/-- list/tuple branch of `_serialize_container` -/
def encodeSeq (sk : Skip) (ct : String) (xs : List Val) (fast : Bool) (ss : List Scalar) : Node :=
  if fast then
    let c := promote ss
    .seq [("_container_type", .str ct), ("_sequence_encoding", .str "ndarray")]
      [writeNdarray (promotedDt c) [ss.length] (ss.map (castTo c))]
  else .seq [("_container_type", .str ct)] (encodeItems sk xs)
def encodeItems (sk : Skip) : List Val → List Node
  | [] => []
  | v :: rest => encode sk v :: encodeItems sk rest
/-- dict items: `_serialize_value(v, group, str(k))` — no skip filter on dict keys -/
def encodeKids (sk : Skip) : List (String × Val) → List (String × Node)
  | [] => []
  | (k, v) :: rest => (k, encode sk v) :: encodeKids sk rest
/-- `_recursive_save` attribute loop with the name/type filter -/
def encodeAttrs (sk : Skip) : List (String × Val) → List (String × Node)
  | [] => []
  | (k, v) :: rest =>
      if sk.names.contains k || sk.types.any (isInstance v) then encodeAttrs sk rest
      else (k, encode sk v) :: encodeAttrs sk rest
end

/-- the root group: object node + `write_skip_metadata` -/
structure Saved where
  root : Node
  skipNames : List String
  skipTypes : List String
  deriving Repr, Inhabited

def save (sk : Skip) (v : Val) : Saved := { root := encode sk v, skipNames := sk.names, skipTypes := sk.types }

/-! ### decode -/

/-- `_array_to_np` -/
def arrayToNp (dt : String) (shape : List Nat) (data : List Scalar) (orig : Option (List Nat)) : Val :=
  match orig with
  | some os => .ndarray dt os []               -- `np.empty(original_shape)`
  | .none => .ndarray dt shape data            -- `arr[:]`, and `arr[()]` for 0-d

def attrVal (s : Scalar) (isPath : Bool) : Val :=
  match s, isPath with
  | .str p, true => .path p
  | s, _ => .scalar s

inductive Ns where | attr | array | group
  deriving DecidableEq, Repr

def nsOf : Node → Ns
  | .attr .. => .attr
  | .arr .. | .bytes _ => .array
  | .seq .. | .map .. => .group

/-- restoration order of `_recursive_load` / the dict branch: attributes loop, then arrays
loop, then sub-groups loop (each in store order) -/
def reorder (xs : List (String × Ns × Val)) : List (String × Val) :=
  (xs.filter (fun x => x.2.1 == .attr)).map (fun x => (x.1, x.2.2)) ++
  (xs.filter (fun x => x.2.1 == .array)).map (fun x => (x.1, x.2.2)) ++
  (xs.filter (fun x => x.2.1 == .group)).map (fun x => (x.1, x.2.2))

/-- `if type(v) in skip_types: continue` — applied in the arrays and groups loops only -/
def dropTypes (types : List String) (xs : List (String × Ns × Val)) : List (String × Ns × Val) :=
  xs.filter (fun x => x.2.1 == .attr || !types.any (exactType x.2.2))

/-- read a torch.save payload back (`torch.load`): the pickled bytes decide the concrete
kind and class, the group flag only selects the branch -/
def payload (kids : List (String × Node)) (name : String) : Except Err Val :=
  match kids with
  | [(n, .bytes ⟨some k, cls, tok⟩)] => if n = name then .ok (.torch k cls tok) else .error .keyError
  | _ => .error .keyError

def logger (f : Flags) : Except Err Val :=
  match fget f "class_name", fget f "logger_name", fget f "logger_level" with
  | some (.str "Logger"), some (.str n), some (.int l) => .ok (.pyLogger n l)
  | _, _, _ => .error .valueError

def wrapSeq (ct : String) (xs : List Val) : Val :=
  if ct = "list" then .list xs else if ct = "tuple" then .tuple xs else .set xs

mutual
/-- an element of a container (`_deserialize_container`): the group branch chain is
`_container_type`, `_autoserialize`, `_torch_whole_module`, `_torch_tensor`,
`_torch_logger`, `_python_logger`, rng groups, else ValueError -/
def decodeItem : Node → Except Err Val
  | .attr s p => .ok (attrVal s p)
  | .arr dt shape data orig => .ok (arrayToNp dt shape data orig)    -- `maybe_tensor`
  | .bytes ⟨_, cls, tok⟩ => .ok (.fallback cls tok)   -- `maybe_tensor`: gzip + dill succeed
  | .seq f items => decodeSeq f items
  | .map f kids =>
      if (fget f "_container_type").isSome then do
        let xs ← decodeKids kids
        .ok (.dict (reorder xs))
      else match fget f "_autoserialize" with
        | some (.str cls) => do                 -- `subcls._recursive_load(subgroup)`: no skip lists
            let xs ← decodeAttrs {} kids
            .ok (.obj cls (reorder xs))
        | _ =>
          if ftrue f "_torch_whole_module" then payload kids "module"
          else if ftrue f "_torch_tensor" then payload kids "tensor"
          else if ftrue f "_python_logger" then logger f
          else if ftrue f "_numpy_rng" then       -- `_restore_rng`
            match fget f "_bit_generator_type" with
            | some (.str b) => .ok (.npRng b)
            | _ => .ok (.npRng "PCG64")
          else if ftrue f "_torch_rng_skipped" then .ok .torchRng
          else .error .valueError               -- optimizers, schedulers inside containers
/-- `_deserialize_container`, list / tuple / set branches -/
def decodeSeq (f : Flags) (items : List Node) : Except Err Val :=
  match fget f "_container_type" with
  | some (.str ct) =>
      if ct = "list" ∨ ct = "tuple" ∨ ct = "set" then
        if fget f "_sequence_encoding" = some (.str "ndarray") then
          match items with
          | [.arr _ _ data .none] => .ok (wrapSeq ct (data.map .scalar))   -- `arr.tolist()`
          | _ => .error .keyError
        else do
          let xs ← decodeItems items
          .ok (wrapSeq ct xs)
      else .error .valueError
  | _ => .error .valueError
def decodeItems : List Node → Except Err (List Val)
  | [] => .ok []
  | n :: rest => do
      let v ← decodeItem n
      let vs ← decodeItems rest
      .ok (v :: vs)
/-- the children of a dict group -/
def decodeKids : List (String × Node) → Except Err (List (String × Ns × Val))
  | [] => .ok []
  | (k, n) :: rest => do
      let v ← decodeItem n
      let vs ← decodeKids rest
      .ok ((k, nsOf n, v) :: vs)
/-- the children of an object group (`_recursive_load`), name skip applied before reading -/
def decodeAttrs (sk : Skip) : List (String × Node) → Except Err (List (String × Ns × Val))
  | [] => .ok []
  | (k, n) :: rest =>
      if sk.names.contains k then decodeAttrs sk rest
      else do
        let v ← decodeAttr sk n
        let vs ← decodeAttrs sk rest
        .ok ((k, nsOf n, v) :: vs)
/-- one attribute of an object: arrays loop (dill-decoding) and the elif chain of the
groups loop in `_recursive_load` -/
def decodeAttr (sk : Skip) : Node → Except Err Val
  | .attr s p => .ok (attrVal s p)
  | .arr dt shape data orig => .ok (arrayToNp dt shape data orig)
  | .bytes ⟨_, cls, tok⟩ => .ok (.fallback cls tok)        -- gzip + dill succeed
  | .seq f items => decodeSeq f items
  | .map f kids =>
      if ftrue f "_torch_tensor" then payload kids "tensor"
      else if ftrue f "_torch_optimizer" then payload kids "optimizer"
      else if ftrue f "_torch_scheduler" then payload kids "scheduler"
      else if ftrue f "_python_logger" then logger f
      else if ftrue f "_torch_whole_module" then payload kids "module"
      else match fget f "_autoserialize" with
        | some (.str cls) => do
            -- `if subcls in skip_types: continue` is the caller's exact-type test on `.obj cls _`
            let xs ← decodeAttrs sk kids
            .ok (.obj cls (reorder (dropTypes sk.types xs)))
        | _ =>
          if (fget f "_container_type").isSome then do
            let xs ← decodeKids kids
            .ok (.dict (reorder xs))
          else if ftrue f "_numpy_rng" then
            match fget f "_bit_generator_type" with
            | some (.str b) => .ok (.npRng b)
            | _ => .ok (.npRng "PCG64")
          else if ftrue f "_torch_rng_skipped" then .ok .torchRng
          else .error .valueError
end

/-- `load(path, skip)`: merge the user lists with the lists stored in the file -/
def load (user : Skip) (s : Saved) : Except Err Val :=
  let sk : Skip := { names := user.names ++ s.skipNames.filter (fun n => !user.names.contains n),
                     types := user.types ++ s.skipTypes.filter (fun t => !user.types.contains t) }
  match s.root with
  | .map f kids =>
      match fget f "_autoserialize" with
      | some (.str cls) => do
          let xs ← decodeAttrs sk kids
          .ok (.obj cls (reorder (dropTypes sk.types xs)))
      | _ => .error .keyError
  | _ => .error .keyError

end QuantemModel.Serialize
