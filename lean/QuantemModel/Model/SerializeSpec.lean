import QuantemModel.Model.Serialize
/-
The comparison the property allows (`canon`) and the well-formedness predicate of its
quantifier (`wfA` / `wfC`), for Props/C01.lean and Props/C14.lean.  Core Lean only.
-/
namespace QuantemModel.Serialize

/-- storage namespace a value lands in (`nsOf (encode sk v)`, which does not depend on `sk`) -/
def nsVal : Val → Ns
  | .scalar _ | .npScalar .. | .path _ => .attr
  | .ndarray .. | .fallback .. | .rawBytes _ => .array
  | _ => .group

/-- what an all-numeric sequence comes back as: `np.asarray(xs).tolist()` -/
def canonNumeric (xs : List Val) : List Val :=
  let ss := xs.map scalarOf
  (ss.map (castTo (promote ss))).map .scalar

def isFast (xs : List Val) : Bool := xs.all isNumeric && !xs.isEmpty

mutual
/-- the loaded value a saved value is required to equal: NumPy scalars by value, all-numeric
sequences by (promoted) numeric value, dict/object entries in restoration order -/
def canon : Val → Val
  | .npScalar _ s => .scalar s
  | .rawBytes p => .fallback p.cls p.tok
  | .list xs => if isFast xs then .list (canonNumeric xs) else .list (canonList xs)
  | .tuple xs => if isFast xs then .tuple (canonNumeric xs) else .tuple (canonList xs)
  | .set xs => if isFast xs then .set (canonNumeric xs) else .set (canonList xs)
  | .dict kvs => .dict (reorder (canonKvs kvs))
  | .obj cls attrs => .obj cls (reorder (canonKvs attrs))
  | v => v
def canonList : List Val → List Val
  | [] => []
  | v :: rest => canon v :: canonList rest
def canonKvs : List (String × Val) → List (String × Ns × Val)
  | [] => []
  | (k, v) :: rest => (k, nsVal v, canon v) :: canonKvs rest
end

/-- optimizers and schedulers are only restorable as attributes (`_deserialize_container`
has no branch for them) -/
def containerOk : Val → Bool
  | .torch .optimizer .. | .torch .scheduler .. => false
  | _ => true

mutual
/-- well-formed value (attribute position): empty arrays carry no data; container members
are restorable -/
def wfA : Val → Bool
  | .ndarray _ sh d => !(sh.any (· == 0)) || d.isEmpty
  | .list xs | .tuple xs | .set xs => wfItems xs
  | .dict kvs => wfKids kvs
  | .obj _ attrs => wfAttrs attrs
  | _ => true
def wfItems : List Val → Bool
  | [] => true
  | v :: rest => containerOk v && wfA v && wfItems rest
def wfKids : List (String × Val) → Bool
  | [] => true
  | (_, v) :: rest => containerOk v && wfA v && wfKids rest
def wfAttrs : List (String × Val) → Bool
  | [] => true
  | (_, v) :: rest => wfA v && wfAttrs rest
end

def wfC (v : Val) : Bool := containerOk v && wfA v

end QuantemModel.Serialize

namespace QuantemModel.Serialize

/-! ### C14: attribute-nested graphs and the stripped graph -/

mutual
/-- no AutoSerialize object anywhere inside -/
def noObj : Val → Bool
  | .obj .. => false
  | .list xs | .tuple xs | .set xs => noObjList xs
  | .dict kvs => noObjKvs kvs
  | _ => true
def noObjList : List Val → Bool
  | [] => true
  | v :: rest => noObj v && noObjList rest
def noObjKvs : List (String × Val) → Bool
  | [] => true
  | (_, v) :: rest => noObj v && noObjKvs rest
end

mutual
/-- nested AutoSerialize objects are reached through attributes only -/
def attrNested : Val → Bool
  | .obj _ attrs => attrNestedAttrs attrs
  | v => noObj v
def attrNestedAttrs : List (String × Val) → Bool
  | [] => true
  | (_, v) :: rest => attrNested v && attrNestedAttrs rest
end

mutual
/-- the graph the property requires after skipping `names`: the named attributes removed at
every attribute-nested object level, nothing else touched -/
def stripA (names : List String) : Val → Val
  | .obj cls attrs => .obj cls (stripAttrs names attrs)
  | v => v
def stripAttrs (names : List String) : List (String × Val) → List (String × Val)
  | [] => []
  | (k, v) :: rest =>
      if names.contains k then stripAttrs names rest else (k, stripA names v) :: stripAttrs names rest
end

mutual
/-- the graph the property requires after skipping `types` at save time: every attribute that
is an instance of a listed type removed, at every attribute-nested object level -/
def stripT (ts : List String) : Val → Val
  | .obj cls attrs => .obj cls (stripTAttrs ts attrs)
  | v => v
def stripTAttrs (ts : List String) : List (String × Val) → List (String × Val)
  | [] => []
  | (k, v) :: rest =>
      if ts.any (isInstance v) then stripTAttrs ts rest else (k, stripT ts v) :: stripTAttrs ts rest
end

mutual
/-- no attribute (at any attribute-nested level) is an instance of a listed type -/
def typeFree (ts : List String) : Val → Bool
  | .obj _ attrs => typeFreeAttrs ts attrs
  | _ => true
def typeFreeAttrs (ts : List String) : List (String × Val) → Bool
  | [] => true
  | (_, v) :: rest => !(ts.any (isInstance v)) && typeFree ts v && typeFreeAttrs ts rest
end

end QuantemModel.Serialize
