import QuantemModel.Model.DirectPtycho
import QuantemModel.Generated.DirectKernel
/-!
# C04 — the kernel formulas of direct ptychography, inside the model

`Model/DirectPtycho.lean` is the streaming skeleton of `DirectPtychography.reconstruct` with the per-pixel
Fourier factors as parameters.  This file supplies those parameters from the formulas THE SOURCE CONTAINS:
`Generated/DirectKernel.lean` is re-translated from `complex_probe.py` / `direct_ptychography.py` on every
`./check C04` (`harness/translator/dpkernel2lean.py`), one grid point / one detector pixel per call; here the
per-point functions are mapped over the detector pixels of the mask and over the (upsampled) scan-frequency
grid, which is the plumbing the translator reads through (`kxa[ind_i, ind_j].view(-1, 1, 1)`, broadcasting,
`[bf_mask]`, `.sum(0)`, `.sum()`):

* `kPoint`        — `spatial_frequencies(self.gpts, self.sampling, rotation_angle)` at detector pixel `(i, j)`
                    (`fftfreq` by hand, the passive rotation is the translated `_passively_rotate_grid`);
* `probeAt`, `weightTerm`, `bfWeights` — `cmplx_probe_k`, `BF_weights = cmplx_probe_k[bf_mask].abs().square().sum()`;
* `gradAt`, `signImg`    — parallax: `grad_k`, `sign_sin_chi_q`;
* `envImg`        — the Butterworth envelope (Python truthiness of `q_lowpass` / `q_highpass`: `None` and `0` skip);
* `kernelFactor`, `powerTerm` — `_return_kernel_contributions` on a unit spectrum, per kernel;
* `geometryOf`    — everything `reconstruct` derives from mask + hyper-parameters, as the `Geometry` the skeleton
                    streams; `reconstructFull` = the whole reconstruction from (stack, mask pixels, hyper-parameters).

Core Lean only.
-/
namespace QuantemModel.DirectPtycho
open QuantemModel
open QuantemModel.Generated

section Carrier
variable {R : Type} [Num R]

/-- the hyper-parameters and geometry `reconstruct` works from -/
structure KGeom (R : Type) where
  wavelength : R
  semiangle : R                 -- `semiangle_cutoff` [mrad]
  soft : Bool                   -- `soft_edges`
  rs0 : R                       -- `reciprocal_sampling` [1/Å]
  rs1 : R
  detRows : Nat                 -- `gpts`
  detCols : Nat
  rotation : R
  coefs : List (String × R)     -- canonical polar coefficients (`state.current_aberrations(...)`)
  scanRows : Nat
  scanCols : Nat
  sx : R                        -- `scan_sampling` [Å]
  sy : R
  u : Nat                       -- upsampling factor
  qLow : Option R
  qHigh : Option R
  order : Nat                   -- `butterworth_order`
  eps : R                       -- `matched_filter_norm_epsilon`
  flip : Bool                   -- `parallax_flip_phase`

/-- `self.angular_sampling = tuple(d * 1e3 * self.wavelength for d in self.reciprocal_sampling)` -/
def KGeom.as0 (g : KGeom R) : R := g.rs0 * Num.ofRat 1000 * g.wavelength
def KGeom.as1 (g : KGeom R) : R := g.rs1 * Num.ofRat 1000 * g.wavelength
/-- `self.sampling = tuple(1 / s / n for n, s in zip(self.reciprocal_sampling, self.gpts))` -/
def KGeom.samp0 (g : KGeom R) : R := Num.one / Num.ofNat g.detRows / g.rs0
def KGeom.samp1 (g : KGeom R) : R := Num.one / Num.ofNat g.detCols / g.rs1

/-- `spatial_frequencies(self.gpts, self.sampling, rotation_angle=rotation_angle)` at `(i, j)`:
`fftfreq(n, d)[i] = signed(i) / (n d)`, then the passive rotation -/
def kPoint (g : KGeom R) (i j : Nat) : R × R :=
  let kx : R := Num.ofRat (((fftfreqInt g.detRows i : Int) : Rat) / ((g.detRows : Int) : Rat)) / g.samp0
  let ky : R := Num.ofRat (((fftfreqInt g.detCols j : Int) : Rat) / ((g.detCols : Int) : Rat)) / g.samp1
  DirectKernel.passively_rotate_grid kx ky g.rotation

/-- `cmplx_probe_k[i, j]` -/
def probeAt (g : KGeom R) (ij : Nat × Nat) : Cx R :=
  let k := kPoint g ij.1 ij.2
  DirectKernel.reconstruct_probe_k k.1 k.2 g.wavelength g.semiangle g.soft g.as0 g.as1 g.coefs

/-- `|cmplx_probe_k[i, j]|²` -/
def weightTerm (g : KGeom R) (ij : Nat × Nat) : R :=
  let k := kPoint g ij.1 ij.2
  DirectKernel.reconstruct_bf_weight_term k.1 k.2 g.wavelength g.semiangle g.soft g.as0 g.as1 g.coefs

/-- `BF_weights = cmplx_probe_k[bf_mask].abs().square().sum()` -/
def bfWeights (g : KGeom R) (pix : List (Nat × Nat)) : R := Num.sum (pix.map (weightTerm g))

/-- `grad_k` of the pixel (parallax) -/
def gradAt (g : KGeom R) (ij : Nat × Nat) : R × R :=
  let k := kPoint g ij.1 ij.2
  DirectKernel.reconstruct_grad_k k.1 k.2 g.wavelength g.semiangle g.soft g.as0 g.as1 g.coefs

/-- the upsampled scan-frequency grid `_return_upsampled_qgrid(upsampling_factor)` -/
def qImgs (g : KGeom R) : Img R × Img R :=
  qGrid (g.u * g.scanRows) (g.u * g.scanCols) (g.sx / Num.ofNat g.u) (g.sy / Num.ofNat g.u)

/-- `butterworth_env` -/
def envImg (g : KGeom R) : Img R :=
  let q := qImgs g
  List.zipWith (fun qx qy => DirectKernel.reconstruct_butterworth_env qx qy g.qLow g.qHigh g.order) q.1 q.2

/-- `sign_sin_chi_q` -/
def signImg (g : KGeom R) : Img R :=
  let q := qImgs g
  List.zipWith (fun qx qy => DirectKernel.reconstruct_sign_sin_chi_q qx qy g.wavelength g.flip g.coefs) q.1 q.2

/-- the translated first-pass factor of kernel `k` at one grid point -/
def pointFactor (k : Kernel) (v : Cx R) (kx ky qx qy : R) (pk : Cx R) (gx gy sg : R) (dc : Bool) (g : KGeom R) : Cx R :=
  match k with
  | .ssb => DirectKernel.kernel_ssb_factor v kx ky qx qy pk gx gy sg dc g.wavelength g.semiangle g.soft g.as0 g.as1 g.coefs
  | .obf => DirectKernel.kernel_obf_factor v kx ky qx qy pk gx gy sg dc g.wavelength g.semiangle g.soft g.as0 g.as1 g.coefs
  | .mf => DirectKernel.kernel_mf_factor v kx ky qx qy pk gx gy sg dc g.wavelength g.semiangle g.soft g.as0 g.as1 g.coefs
  | .prlx => DirectKernel.kernel_prlx_factor v kx ky qx qy pk gx gy sg dc g.wavelength g.semiangle g.soft g.as0 g.as1 g.coefs
  | .icom => DirectKernel.kernel_icom_factor v kx ky qx qy pk gx gy sg dc g.wavelength g.semiangle g.soft g.as0 g.as1 g.coefs

/-- the translated per-pixel power term (two-pass kernels; 0 otherwise: the source returns `None`) -/
def pointPower (k : Kernel) (kx ky qx qy : R) (pk : Cx R) (g : KGeom R) : R :=
  match k with
  | .obf => DirectKernel.kernel_obf_power_term Cx.one kx ky qx qy pk Num.zero Num.zero Num.one false
              g.wavelength g.semiangle g.soft g.as0 g.as1 g.coefs
  | .mf => DirectKernel.kernel_mf_power_term Cx.one kx ky qx qy pk Num.zero Num.zero Num.one false
              g.wavelength g.semiangle g.soft g.as0 g.as1 g.coefs
  | _ => Num.zero

/-- `_return_kernel_contributions` of one bright-field pixel on a unit spectrum, over the whole grid -/
def kernelFactor (g : KGeom R) (k : Kernel) (sign : Img R) (ij : Nat × Nat) : Img (Cx R) :=
  let q := qImgs g
  let kk := kPoint g ij.1 ij.2
  let pk := probeAt g ij
  let gr : R × R := match k with
    | .prlx => gradAt g ij
    | _ => (Num.zero, Num.zero)
  (List.zipWith (fun (qq : R × R) s => (qq, s)) (q.1.zip q.2) sign).mapIdx fun p (e : (R × R) × R) =>
    pointFactor k Cx.one kk.1 kk.2 e.1.1 e.1.2 pk gr.1 gr.2 e.2 (p == 0) g

/-- `abs_gamma.square()` of one bright-field pixel over the whole grid -/
def powerTerm (g : KGeom R) (k : Kernel) (ij : Nat × Nat) : Img R :=
  let q := qImgs g
  let kk := kPoint g ij.1 ij.2
  let pk := probeAt g ij
  if k.twoPass then (q.1.zip q.2).map fun (qq : R × R) => pointPower k kk.1 kk.2 qq.1 qq.2 pk g else []

/-- everything `reconstruct` derives from the mask in use (`pix`: its detector pixels in row-major order, `mapping`:
their stack rows) and the hyper-parameters -/
def geometryOf (g : KGeom R) (k : Kernel) (pix : List (Nat × Nat)) (mapping : List Nat) : Geometry R :=
  let sign : Img R := match k with
    | .prlx => signImg g
    | _ => ones ((g.u * g.scanRows) * (g.u * g.scanCols))
  let Ks := (pix.map (kernelFactor g k sign)).toArray
  let Ps := (pix.map (powerTerm g k)).toArray
  { r := g.scanRows, c := g.scanCols, u := g.u, mapping := mapping,
    K := fun t => Ks.getD t [], P := fun t => Ps.getD t [],
    W := bfWeights g pix, env := envImg g, eps := g.eps }

/-- the whole reconstruction: `from_virtual_bfs(stack, mask, …).reconstruct(bf_mask = pix, …).corrected_stack` -/
def reconstructFull (F : Fourier R) (g : KGeom R) (k : Kernel) (pix : List (Nat × Nat)) (mapping : List Nat)
    (stack : List (Img R)) (batches : List (List Nat)) : List (Option (Img R)) :=
  reconstruct F k (problemOfStack F (geometryOf g k pix mapping) stack) batches

/-- `normOf` written with the TRANSLATED normalisation lines of `reconstruct` -/
def normOfGenerated (k : Kernel) (W eps : R) (power : Img R) : Img R :=
  let mx := maxOf (power.map fun x => DirectKernel.reconstruct_power_normalised x W)
  match k with
  | .obf => power.map fun x => DirectKernel.reconstruct_norm_obf x mx W eps
  | .mf => power.map fun x => DirectKernel.reconstruct_norm_mf x mx W eps
  | _ => power.map fun x => DirectKernel.reconstruct_power_normalised x W

end Carrier
end QuantemModel.DirectPtycho
