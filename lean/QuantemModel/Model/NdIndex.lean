/-
N-D arrays as (shape, row-major flat data) and NumPy index semantics, core Lean only.
Shared by Model/Resample.lean (C06) and Model/Dataset.lean (C03).

NumPy itself is *modelled, not verified* (DESIGN §5): every operation here is a gather
`build shape' (fun j => a.get (src j))` with an explicit multi-index map `src`; that the
real NumPy computes the same thing is what the correspondence streams check on every run.
-/
namespace QuantemModel.Nd

/-- error kinds (message text is never compared) -/
inductive Err | value | type | index | zeroDiv | attribute
  deriving DecidableEq, Repr, Inhabited

/-- number of elements of a shape -/
def prod : List Nat → Nat
  | [] => 1
  | n :: r => n * prod r

/-- all multi-indices of a shape in row-major (C) order -/
def allIdx : List Nat → List (List Nat)
  | [] => [[]]
  | n :: r => (List.range n).flatMap fun i => (allIdx r).map (i :: ·)

/-- row-major flat position of a multi-index -/
def ravel : List Nat → List Nat → Nat
  | _ :: r, i :: j => i * prod r + ravel r j
  | _, _ => 0

structure Arr (α : Type) where
  shape : List Nat
  data : List α
  deriving Repr

variable {α : Type}

/-- element access (total; `default` outside the array) -/
def Arr.get [Inhabited α] (a : Arr α) (j : List Nat) : α :=
  a.data.getD (ravel a.shape j) default

/-- the array of a given shape whose element at multi-index `j` is `f j` -/
def build (shape : List Nat) (f : List Nat → α) : Arr α :=
  ⟨shape, (allIdx shape).map f⟩

/-! ### Python slices -/

/-- `slice(start, stop, step).indices(n)` as (start, step, length); CPython `PySlice_AdjustIndices`.
`none` when `step = 0` (ValueError). -/
def sliceIndices (n : Nat) (start stop step : Option Int) : Option (Int × Int × Nat) :=
  let st : Int := step.getD 1
  if st = 0 then none else
  let N : Int := n
  let lower : Int := if st < 0 then -1 else 0
  let upper : Int := if st < 0 then N - 1 else N
  let clampIdx (v : Int) : Int :=
    if v < 0 then (if v + N < lower then lower else v + N)
    else (if v > upper then upper else v)
  let s : Int := match start with
    | none => if st < 0 then upper else lower
    | some v => clampIdx v
  let e : Int := match stop with
    | none => if st < 0 then lower else upper
    | some v => clampIdx v
  let len : Nat :=
    if st > 0 then (if s < e then ((e - s - 1) / st + 1).toNat else 0)
    else (if e < s then ((s - e - 1) / (-st) + 1).toNat else 0)
  some (s, st, len)

/-! ### Index expressions -/

/-- one item of an index expression: `i`, `start:stop:step`, `[i, j, …]`, `...` -/
inductive Item
  | int (i : Int)
  | slice (start stop step : Option Int)
  | list (is : List Int)
  | ellipsis
  deriving DecidableEq, Repr, Inhabited

def Item.isInt : Item → Bool | .int _ => true | _ => false
def Item.isList : Item → Bool | .list _ => true | _ => false
def Item.isEllipsis : Item → Bool | .ellipsis => true | _ => false
def Item.full : Item := .slice none none none

/-- per-axis selector after normalisation against the axis length -/
inductive Sel
  | pt (k : Nat)                              -- integer: axis dropped
  | rng (start step : Int) (len : Nat)        -- slice
  | lst (ks : List Nat)                       -- list of (normalised) positions
  deriving DecidableEq, Repr, Inhabited

/-- length of the result axis a selector produces (integers produce none) -/
def Sel.len : Sel → Nat
  | .pt _ => 1
  | .rng _ _ l => l
  | .lst ks => ks.length

/-- source position read by result position `t` -/
def Sel.at : Sel → Nat → Nat
  | .pt k, _ => k
  | .rng s st _, t => (s + st * (t : Int)).toNat
  | .lst ks, t => ks.getD t 0

/-- the slice step seen by the calibration (`1` for non-slices) -/
def Sel.step : Sel → Int
  | .rng _ st _ => st
  | _ => 1

/-- normalise a possibly negative position against length `n` (IndexError outside) -/
def normPos (n : Nat) (i : Int) : Except Err Nat :=
  if 0 ≤ i ∧ i < n then .ok i.toNat
  else if i < 0 ∧ -(n : Int) ≤ i then .ok (i + n).toNat
  else .error .index

def mapMExcept {β γ : Type} (f : β → Except Err γ) : List β → Except Err (List γ)
  | [] => .ok []
  | x :: xs => match f x with
    | .error e => .error e
    | .ok y => match mapMExcept f xs with
      | .error e => .error e
      | .ok ys => .ok (y :: ys)

def selOf (n : Nat) : Item → Except Err Sel
  | .int i => match normPos n i with
      | .ok k => .ok (.pt k)
      | .error e => .error e
  | .slice a b c =>
      match sliceIndices n a b c with
      | none => .error .value              -- slice step cannot be zero
      | some (s, st, l) => .ok (.rng s st l)
  | .list is => match mapMExcept (normPos n) is with   -- `a[[]]` is allowed (empty axis)
      | .ok ks => .ok (.lst ks)
      | .error e => .error e
  | .ellipsis => .error .index

/-- Ellipsis expansion and padding with full slices to `ndim` items, as in
`Dataset.__getitem__` (and as NumPy does internally). IndexError: two Ellipses, too many items. -/
def expandItems (ndim : Nat) (ix : List Item) : Except Err (List Item) :=
  let nEll := (ix.filter Item.isEllipsis).length
  let nReal := ix.length - nEll
  if nEll > 1 then .error .index
  else if nReal > ndim then .error .index
  else
    let pos := ix.findIdx Item.isEllipsis
    let ix' := if nEll = 1 then
        ix.take pos ++ List.replicate (ndim - nReal) Item.full ++ ix.drop (pos + 1)
      else ix
    .ok (ix' ++ List.replicate (ndim - ix'.length) Item.full)

/-- positions (axes) of an expanded index whose item is not an integer: the kept axes,
in source order (`kept_axes` in `__getitem__`) -/
def keptAxes (its : List Item) : List Nat :=
  (List.range its.length).filter fun i => !(its.getD i default).isInt

def listAxes (its : List Item) : List Nat :=
  (List.range its.length).filter fun i => (its.getD i default).isList

/-- positions of NumPy "advanced" items (integers count as advanced once a list is present) -/
def advAxes (its : List Item) : List Nat :=
  (List.range its.length).filter fun i =>
    (its.getD i default).isInt || (its.getD i default).isList

/-- NumPy: if the advanced indices are not all next to each other *in the index expression as
written* (an Ellipsis between them separates them even when it stands for no axis) the
broadcast axis comes first in the result -/
def advSeparated (ix : List Item) : Bool :=
  match listAxes ix, advAxes ix with
  | _ :: _, f :: rest => (f :: rest).getLast! - f + 1 != (f :: rest).length
  | _, _ => false

/-- source axes in the order in which NumPy lays out the result axes (at most one list);
`sep` = `advSeparated` of the expression as written, `its` = the expanded items -/
def npOrder (sep : Bool) (its : List Item) : List Nat :=
  if sep then
    listAxes its ++ (keptAxes its).filter fun i => !(its.getD i default).isList
  else keptAxes its

/-- source multi-index read by result multi-index `j` -/
def srcIdx (sels : List Sel) (order : List Nat) (j : List Nat) : List Nat :=
  (List.range sels.length).map fun ax =>
    (sels.getD ax default).at (j.getD (order.idxOf ax) 0)

/-- result of normalising an index expression against a shape -/
structure Plan where
  items : List Item       -- expanded to one item per source axis
  sels : List Sel
  order : List Nat        -- source axes in result order
  deriving Repr

/-- lengths of the list selectors -/
def lstLens (sels : List Sel) : List Nat :=
  sels.filterMap fun s => match s with | .lst ks => some ks.length | _ => none

/-- integers and slices only (lists are bounds-checked by NumPy in a second phase) -/
def selOfBasic (n : Nat) : Item → Except Err Sel
  | .list _ => .ok (.lst [])
  | it => selOf n it

def Item.isEmptyList : Item → Bool
  | .list [] => true
  | _ => false

/-- second phase: list entries are bounds-checked — unless some list is empty: the broadcast
index then has size 0 and NumPy skips the check (`PyArray_MapIterCheckIndices`) -/
def selOf2 (unchecked : Bool) (n : Nat) : Item → Except Err Sel
  | .list is => if unchecked then .ok (.lst (is.map fun _ => 0)) else selOf n (.list is)
  | it => selOf n it

def plan (shape : List Nat) (ix : List Item) : Except Err Plan :=
  match expandItems shape.length ix with
  | .error e => .error e
  | .ok its =>
    -- NumPy first walks integers and slices left to right (IndexError for an integer out of
    -- bounds, ValueError for a zero slice step, whichever comes first) and only then
    -- bounds-checks / broadcasts the list entries
    match mapMExcept (fun (p : Nat × Item) => selOfBasic p.1 p.2) (shape.zip its) with
    | .error e => .error e
    | .ok _ =>
    match mapMExcept (fun (p : Nat × Item) => selOf2 (its.any Item.isEmptyList) p.1 p.2)
        (shape.zip its) with
    | .error e => .error e
    | .ok sels =>
      match lstLens sels with
      | l0 :: l1 :: rest =>
          -- two or more lists: NumPy broadcasts them against each other (pointwise indexing);
          -- not an axis selection. IndexError if the lengths do not broadcast.
          let nonOne := (l0 :: l1 :: rest).filter (· ≠ 1)
          if nonOne.all (fun l => l = nonOne.headD 1) then .ok ⟨its, sels, []⟩ else .error .index
      | _ => .ok ⟨its, sels, npOrder (advSeparated ix) its⟩

def Plan.multiList (p : Plan) : Bool := decide ((lstLens p.sels).length ≥ 2)

def Plan.shape (p : Plan) : List Nat := p.order.map fun ax => (p.sels.getD ax default).len

/-- `a[ix]` for index expressions with at most one list -/
def applyPlan [Inhabited α] (a : Arr α) (p : Plan) : Arr α :=
  build p.shape (fun j => a.get (srcIdx p.sels p.order j))

end QuantemModel.Nd
