import QuantemModel.Model.RegistrationExt
/-!
Growth round 6 addition to the registration model (core Lean only): the third cross-correlation
estimator of the anchored files, `tomography/utils.py: torch_phase_cross_correlation` (integer
estimator used by `tomography_conv`), which no stream reached before:

```
cc      = ifft2(fft2(im1) * conj(fft2(im2)))
max_idx = argmax(abs(cc))                      # first maximum, row-major
shifts  = unravel_index(max_idx, im1.shape)
for i, dim in enumerate(im1.shape):
    if shifts[i] > dim // 2: shifts[i] -= dim  # each axis with ITS OWN length
```
-/
namespace QuantemModel
namespace Registration
variable {R : Type} [Num R] [NumFloor R]

/-- `if shifts[i] > dim // 2: shifts[i] -= dim` — the signed representative in `(-dim/2, dim/2]`
(note: the tie `dim/2` of an even axis stays POSITIVE here, whereas the modulo centring of
`cross_correlation_shift` / `cross_correlation_shift_torch` returns `-dim/2`). -/
def centreInt (p dim : Nat) : Int :=
  if dim / 2 < p then (p : Int) - (dim : Int) else (p : Int)

/-- `torch_phase_cross_correlation(im1, im2)` on the correlation table `c = real(cc)` (for real images
the imaginary part of `cc` is rounding noise): first maximum of `|c|`, each axis centred with its own
length (`M` for the row index, `N` for the column index). -/
def phaseCorr (M N : Nat) (c : Nat → Nat → R) : Int × Int :=
  let pk := argmax2 M N (fun s t => Num.abs (c s t))
  (centreInt pk.1 M, centreInt pk.2 N)

end Registration
end QuantemModel
