import QuantemModel.Model.Serialize
import QuantemModel.Model.SerializeDispatch
/-
C01 extensions of the serializer model (own file: Model/Serialize.lean is shared with C14/C08).
Core Lean only.

1. `resolveSave` — the argument handling at the top of `AutoSerialize.save(path, mode, store, skip,
   compression_level)`, check by check and in the code's order (level range, `store="auto"`
   inference, `.zip` appended, write protection, directory-with-extension, unknown store).
2. `hstep` / `hrun` — HISTORIES of public calls on one filesystem: `save` (accepted, rejected by
   the argument checks, or raising part-way while writing), `load`, `print_file`.  A target holds what the
   last save that RETURNED NORMALLY wrote there (staging + install, `Model/SaveFs.lean`/C08).
3. `_is_numeric_scalar` over a feature view of a Python value.
4. `kindOf` / `nodeObs` — the link between the dispatch chain (`Model/SerializeDispatch.lean`) and
   `encode`: which Python kind a value of the universe is, and which branch a stored node shows.
-/
namespace QuantemModel.Serialize

/-! ### `save()` argument handling -/

/-- last path component (`os.path.splitext` only looks behind the last separator) -/
def lastComponent (p : List Char) : List Char :=
  match p with
  | [] => []
  | c :: rest => if rest.contains '/' then lastComponent rest else (if c = '/' then rest else c :: rest)

/-- `os.path.splitext(path)[1] != ""`: the last component, leading dots dropped, still contains a dot -/
def hasExt (path : String) : Bool :=
  ((lastComponent path.toList).dropWhile (· == '.')).contains '.'

/-- `path.endswith(".zip")` -/
def endsZip (path : String) : Bool := ".zip".toList.isSuffixOf path.toList

structure SaveArgs where
  path : String
  mode : String := "w"
  store : String := "auto"
  level : Option Int := some 4
  deriving Repr, Inhabited, DecidableEq

inductive CallErr where
  | valueError | fileExists | fileNotFound | typeError | keyError
  deriving DecidableEq, Repr, Inhabited

/-- `if compression_level is not None: if not (0 <= compression_level <= 9): raise ValueError` -/
def levelOk : Option Int → Bool
  | none => true
  | some l => decide (0 ≤ l) && decide (l ≤ 9)

/-- `if store == "auto": store = "zip" if path.endswith(".zip") else "dir"` -/
def resolveStore (a : SaveArgs) : String :=
  if a.store = "auto" then (if endsZip a.path then "zip" else "dir") else a.store

/-- `if store == "zip" and not path.endswith(".zip"): path += ".zip"` — the path the call writes -/
def resolvePath (a : SaveArgs) : String :=
  if resolveStore a = "zip" && !endsZip a.path then a.path ++ ".zip" else a.path

/-- the checks of `save()` before anything is written, in the code's order; `ex` is
`os.path.exists`.  Returns the store kind and the final path. -/
def resolveSave (ex : String → Bool) (a : SaveArgs) : Except CallErr (String × String) :=
  if !levelOk a.level then .error .valueError                         -- compression_level outside 0..9
  else
    let store := resolveStore a
    let path := resolvePath a
    if ex path && a.mode != "o" then .error .fileExists               -- write protection (any mode other than "o")
    else if store = "dir" && hasExt path then .error .valueError      -- directory store needs an extension-less path
    else if store != "zip" && store != "dir" then .error .valueError  -- unknown store
    else .ok (store, path)

/-! ### histories of `save` / `load` calls -/

/-- the filesystem as far as the serializer is concerned: target path ↦ stored object tree -/
abbrev Fs := List (String × Saved)

def fsGet (fs : Fs) (p : String) : Option Saved :=
  match fs with
  | [] => none
  | (q, s) :: rest => if q = p then some s else fsGet rest p

def fsSet (fs : Fs) (p : String) (s : Saved) : Fs :=
  match fs with
  | [] => [(p, s)]
  | (q, t) :: rest => if q = p then (p, s) :: rest else (q, t) :: fsSet rest p s

inductive HOp where
  | save (v : Val) (a : SaveArgs)        -- `obj.save(...)` of a supported graph
  | saveRaises (a : SaveArgs)            -- `obj.save(...)` where writing raises part-way (unsupported member, I/O error)
  | load (path : String)                 -- `load(path)`
  | inspect (path : String)              -- `print_file(path)`: reads the stored tree, returns nothing
  deriving Repr, Inhabited

inductive HOut where
  | saved (store path : String)
  | raised (e : CallErr)
  | loaded (v : Val)
  | printed
  deriving Repr, Inhabited

def errOfLoad : Err → CallErr
  | .valueError => .valueError | .keyError => .keyError | .typeError => .typeError

/-- one public call -/
def hstep (fs : Fs) : HOp → Fs × HOut
  | .save v a =>
      match resolveSave (fun p => (fsGet fs p).isSome) a with
      | .error e => (fs, .raised e)                                   -- rejected: nothing touched
      | .ok (store, path) => (fsSet fs path (save {} v), .saved store path)   -- staged, completed, installed
  | .saveRaises a =>
      match resolveSave (fun p => (fsGet fs p).isSome) a with
      | .error e => (fs, .raised e)
      | .ok _ => (fs, .raised .typeError)                             -- staging discarded, target as before
  | .load p =>
      match fsGet fs p with
      | none => (fs, .raised .fileNotFound)
      | some s =>
          match load {} s with
          | .ok v => (fs, .loaded v)
          | .error e => (fs, .raised (errOfLoad e))
  | .inspect p =>
      match fsGet fs p with
      | none => (fs, .raised .fileNotFound)
      | some _ => (fs, .printed)

def hrun (fs : Fs) : List HOp → Fs × List HOut
  | [] => (fs, [])
  | op :: rest =>
      let (fs1, o) := hstep fs op
      let (fs2, os) := hrun fs1 rest
      (fs2, o :: os)

/-- a call that cannot change what `path` holds once `path` exists: loads, saves that resolve to
another target, saves in write-protected mode, saves with a rejected compression level, saves
that raise while writing -/
def quietOn (path : String) : HOp → Bool
  | .load _ => true
  | .inspect _ => true
  | .saveRaises _ => true
  | .save _ a => resolvePath a != path || a.mode != "o" || !levelOk a.level

/-! ### `_is_numeric_scalar` -/

/-- the `isinstance` facts `_is_numeric_scalar` asks about -/
structure NumFeat where
  isArrayLike : Bool      -- isinstance(value, (np.ndarray, torch.Tensor, list, tuple, dict, set))
  isPyNumber : Bool       -- isinstance(value, (int, float, bool))
  isNpReal : Bool         -- isinstance(value, (np.integer, np.floating, np.bool_))
  deriving Repr, DecidableEq

/-- `_is_numeric_scalar(value)` -/
def isNumericScalar (f : NumFeat) : Bool :=
  if f.isArrayLike then false else f.isPyNumber || f.isNpReal

/-- the facts for a value of the model universe -/
def numFeatOf : Val → NumFeat
  | .scalar (.bool _) | .scalar (.int _) | .scalar (.float _) => ⟨false, true, false⟩
  | .npScalar dt (.float _) => ⟨false, dt == "float64", true⟩     -- np.float64 subclasses float
  | .npScalar _ (.bool _) | .npScalar _ (.int _) => ⟨false, false, true⟩
  | .ndarray .. | .list _ | .tuple _ | .set _ | .dict _ | .torch .tensor _ _ | .torch .parameter _ _ => ⟨true, false, false⟩
  | _ => ⟨false, false, false⟩

/-! ### link between the dispatch chain and `encode` -/

open QuantemModel.SerDispatch in
/-- the Python kind of a value of the universe -/
def kindOf : Val → Kind
  | .scalar .none => .pyNone
  | .scalar (.bool _) => .pyBool
  | .scalar (.int _) => .pyInt
  | .scalar (.float _) => .pyFloat
  | .scalar (.str _) => .pyStr
  | .npScalar dt (.float _) => if dt == "float64" then .npFloat64 else .npFloat32
  | .npScalar _ (.str _) => .npStr
  | .npScalar _ (.bool _) => .npBool
  | .npScalar _ _ => .npInt64
  | .path _ => .path
  | .ndarray _ sh _ => if sh.isEmpty then .ndarray0d else .ndarray
  | .torch .tensor _ _ => .tensor
  | .torch .parameter _ _ => .parameter
  | .torch .optimizer _ _ => .optimizer
  | .torch .scheduler _ _ => .scheduler
  | .torch .module _ _ => .module
  | .torch .other _ _ => .torchGenerator
  | .fallback .. => .pyComplex
  | .rawBytes _ => .bytes
  | .npRng _ => .npRng
  | .torchRng => .torchGenerator      -- never produced by `observe`: a torch.Generator takes the module branch
  | .pyLogger .. => .pyLogger
  | .list _ => .list
  | .tuple _ => .tuple
  | .set _ => .set
  | .dict _ => .dict
  | .obj .. => .obj

/-- which branch of `_serialize_value` a stored node shows (the observable `obsOf` of the dispatch model) -/
def nodeObs : Node → String
  | .attr _ true => "path"
  | .attr _ false => "attr"
  | .arr .. => "ndarray"
  | .bytes _ => "fallback"
  | .seq f _ => if fget f "_container_type" = some (.str "set") then "set" else "container"
  | .map f _ =>
      if ftrue f "_torch_tensor" then "tensor"
      else if ftrue f "_torch_optimizer" then "optimizer"
      else if ftrue f "_torch_scheduler" then "scheduler"
      else if ftrue f "_python_logger" then "pyLogger"
      else if ftrue f "_torch_whole_module" then "module"
      else if (fget f "_autoserialize").isSome then "obj"
      else if (fget f "_container_type").isSome then "container"
      else if ftrue f "_numpy_rng" then "npRng"
      else if ftrue f "_torch_rng_skipped" then "torchRng"
      else "unknown"

end QuantemModel.Serialize
