/-
C17 (growth 5) — the PUBLIC entry points with their argument handling, and histories of calls.

`Model/Unwrap.lean` models what a VALID call computes.  This file adds what the code does with
its arguments before and around that (`imaging_utils.py`: `unwrap_phase_2d_torch` dispatch on
`method`, `H, W = phi.shape`, the mask entering through `torch.where` (broadcasting) and through
`mask.flatten()[i1]` (flat indexing); `direct_ptycho_utils.py`: the scatter
`phase_grid[bf_mask] = phase_bf`, the LAZY use of `method`), the exception TYPES of the rejected
calls, and whole HISTORIES of calls — on the module (which keeps no state between calls) and on
one `UnionFindPhase` object (where a rejected `union` must leave the arrays untouched).

Core Lean only.
-/
import QuantemModel.Model.Unwrap
namespace QuantemModel.Unwrap
open QuantemModel

variable {R : Type} [Num R]

/-- exception types the anchored functions raise on rejected calls (types only, never messages) -/
inductive PyErr
  | valueError            -- unknown `method`;  `H, W = phi.shape` on a non-2-D tensor
  | notImplementedError   -- `method="poisson"` with `wrap_around=False`
  | indexError            -- `mask_f[i1]` / `self.parent[root]` with an index past the end
  | runtimeError          -- torch: shapes that do not broadcast / scatter
deriving Repr, BEq, DecidableEq

/-- the `method` argument, by the branch of `unwrap_phase_2d_torch` it selects -/
inductive Method
  | reliabilitySorting    -- == "reliability-sorting"
  | poisson               -- == "poisson"
  | other                 -- anything else (incl. `None`)
deriving Repr, BEq, DecidableEq

/-! ### shapes -/

/-- broadcasting of two shapes given innermost axis first -/
def broadcastRev : List Nat → List Nat → Option (List Nat)
  | [], b => some b
  | a, [] => some a
  | x :: a, y :: b =>
    if x == y || y == 1 then (broadcastRev a b).map (x :: ·)
    else if x == 1 then (broadcastRev a b).map (y :: ·)
    else none

/-- NumPy / torch broadcasting (right-aligned; two sizes are compatible when equal or one is 1) -/
def broadcastShape (a b : List Nat) : Option (List Nat) :=
  (broadcastRev a.reverse b.reverse).map List.reverse

def numel (s : List Nat) : Nat := s.foldl (· * ·) 1

/-- a `mask` tensor as handed over: its shape and its flattened (row-major) values after `.to(torch.bool)` -/
structure MaskArg where
  shape : List Nat
  vals : List Bool
deriving Repr

/-- What `_unwrap_phase_2d_torch_reliability_sorting(phi, mask, wrap_around)` does with its
arguments before any unwrapping happens:
```
H, W = phi.shape                                   # ValueError unless phi is 2-D
reliability = _pixel_reliability(phi, mask)        # torch.where(mask, R, inf): RuntimeError unless the
                                                   #   mask shape broadcasts with (H, W)
... _build_edges: mask_f = mask.flatten(); valid = mask_f[i1] & mask_f[i2]
                                                   # IndexError when a pixel index is past the end of
                                                   #   the FLATTENED mask (a mask that broadcasts but has
                                                   #   fewer than H*W elements: shape (W,), (1,W), (H,1), ...)
```
On success: `(H, W, effective mask)`; the effective mask of pixel `i` is entry `i` of the flattened
mask (so a `(1, H, W)` mask is accepted and means what it says). -/
def validateWorker (phiShape : List Nat) (mask : Option MaskArg) (wrap : Bool) :
    Except PyErr (Nat × Nat × (Nat → Bool)) :=
  match phiShape with
  | [H, W] =>
    match mask with
    | none => .ok (H, W, fun _ => true)
    | some m =>
      match broadcastShape m.shape [H, W] with
      | none => .error .runtimeError
      | some _ =>
        if (edgePairs H W wrap).any (fun p => decide (numel m.shape ≤ p.1) || decide (numel m.shape ≤ p.2)) then
          .error .indexError
        else
          let a := m.vals.toArray
          .ok (H, W, fun i => a.getD i false)
  | _ => .error .valueError

/-- outcome of one public call -/
inductive Outcome (R : Type)
  | raised (e : PyErr)
  | unwrapped (out : List R)
  | poisson        -- `_unwrap_phase_2d_torch_poisson` was entered with accepted arguments (approximate by
                   -- construction, outside the claim: its values are not modelled)
  | diverged       -- the union–find walk ran out of fuel (unreachable: theorem `call_valid_returns`)

/-- the arguments of one call of `unwrap_phase_2d_torch`.  `order = none`: the model sorts the
edges itself (`sortedPairs`); `order = some o`: the merge order is given (the order the real sort
produced — `argsort` ties are free). -/
structure Call (R : Type) where
  method : Method
  phiShape : List Nat
  phi : Nat → R
  mask : Option MaskArg
  wrap : Bool
  order : Option (List (Nat × Nat))

/-- `unwrap_phase_2d_torch(phi_wrapped, method, mask, wrap_around, regularization_lambda)`:
```
if method == "reliability-sorting": return _unwrap_phase_2d_torch_reliability_sorting(phi, mask, wrap_around)
elif method == "poisson":           return _unwrap_phase_2d_torch_poisson(...)   # H, W = shape; if not wrap_around: raise NotImplementedError()
else: raise ValueError(...)
``` -/
def callOutcome (half : R) (wrapf : R → R) (c : Call R) : Outcome R :=
  match c.method with
  | .other => .raised .valueError
  | .poisson =>
    match c.phiShape with
    | [_, _] => if c.wrap then .poisson else .raised .notImplementedError
    | _ => .raised .valueError
  | .reliabilitySorting =>
    match validateWorker c.phiShape c.mask c.wrap with
    | .error e => .raised e
    | .ok (H, W, m) =>
      let order := match c.order with
        | some o => o
        | none => sortedPairs wrapf H W c.phi m c.wrap
      match unwrapPhase2d half H W c.phi order with
      | some out => .unwrapped out
      | none => .diverged

/-- a history of calls on the MODULE.  The anchored module keeps no state between calls (no cache,
no global): the outcome of every call is the outcome of that call alone, whatever was called
before — valid or rejected. -/
def runSession (half : R) (wrapf : R → R) (cs : List (Call R)) : List (Outcome R) :=
  cs.map (callOutcome half wrapf)

/-! ### histories of `union` calls on ONE `UnionFindPhase` object -/

/-- one `uf.union(x, y, inc)` as Python runs it on an existing object: `find_root_and_offset`
reads `self.parent[root]` first, which raises IndexError for an index `≥ n` — for `x` or for `y`,
in both cases BEFORE anything is written.  (`true` = the call raised.) -/
def ufStepPy (u : UF) (e : Edge) : Option (UF × Bool) :=
  if e.i1 < u.parent.size && e.i2 < u.parent.size then (u.union e.i1 e.i2 e.inc).map (·, false)
  else some (u, true)

/-- a history of `union` calls, accepted or rejected; the flags say which calls raised -/
def ufHistory (u : UF) : List Edge → Option (UF × List Bool)
  | [] => some (u, [])
  | e :: es =>
    match ufStepPy u e with
    | none => none
    | some (u', f) => (ufHistory u' es).map fun r => (r.1, f :: r.2)

/-! ### `unwrap_bf_overlap_phase_torch` with its argument handling -/

/-- `grid[bf_mask] = vals` (boolean-mask assignment): a value tensor with one element is broadcast,
one with as many elements as `bf_mask` has true entries is scattered, anything else is a
RuntimeError (shape mismatch) -/
def scatterVals {α : Type} (count : Nat) (vals : List α) : Except PyErr (List α) :=
  if vals.length == count then .ok vals
  else match vals with
    | [v] => .ok (List.replicate count v)
    | _ => .error .runtimeError

/-- outcome of one call of `unwrap_bf_overlap_phase_torch` -/
inductive BfOutcome (R : Type)
  | raised (e : PyErr)
  | result (branch : BfBranch) (out : List R)
  | poisson
  | diverged

/-- The whole function including what it does with bad arguments:
```
phase_grid[bf_mask] = phase_bf;  mask_grid[bf_mask] = mask_bf      # RuntimeError on a length mismatch
if mask_grid.any():
    if phase_grid.max() - phase_grid.min() > pi:
        phase_grid = unwrap_phase_2d_torch(phase_grid * mask_grid, method=method, mask=mask_grid, **kw)
```
`method` is only looked at when an unwrapping pass is needed: an unknown method (or
poisson with `wrap_around=False`) is NOT rejected when the mask is empty or the range is small. -/
def unwrapBfOverlapM (half : R) (method : Method) (H W : Nat) (bfMask : Nat → Bool) (maskBf : List Bool)
    (phaseBf : List R) (twoPass wrap : Bool) (order1 order2 : List (Nat × Nat)) : BfOutcome R :=
  let N := H * W
  let count := (bfPositions N bfMask).length
  match scatterVals count phaseBf with
  | .error e => .raised e
  | .ok ph =>
    match scatterVals count maskBf with
    | .error e => .raised e
    | .ok mb =>
      let pos := bfPositions N bfMask
      let grid0 := scatter N pos ph Num.zero
      let g0 : Nat → R := fun i => grid0.getD i Num.zero
      let m := bfMaskGrid N bfMask mb
      let vals := (List.range N).map g0
      if !(List.range N).any m then .result .noMask (pos.map g0)
      else if !(Num.ltb half (maxList vals - minList vals)) then .result .smallRange (pos.map g0)
      else
        match method with
        | .other => .raised .valueError
        | .poisson => if wrap then .poisson else .raised .notImplementedError
        | .reliabilitySorting =>
          match unwrapBfOverlap half H W bfMask mb ph twoPass order1 order2 with
          | none => .diverged
          | some (br, out) => .result br out

end QuantemModel.Unwrap
