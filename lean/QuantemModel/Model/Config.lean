/-
Model of src/quantem/core/config.py (C19).  Core Lean only (no Mathlib).

Python dicts are insertion-ordered association lists `List (Key × Tree)`; keys are
`List Char` so that the '-'/'_' twin spelling (`str.replace` of one character by one
character = `List.map`) can be reasoned about.  Every function below is written from
the code, branch by branch; comments name the Python line it stands for.
-/
namespace QuantemModel.Config

abbrev Key := List Char

/-- Leaf values.  `opaque` carries the canonical JSON text of a value config.py never
looks into (lists, floats).  Python's `True == 1` is kept (`pyEqAtom`). -/
inductive Atom where
  | none
  | bool (b : Bool)
  | int (i : Int)
  | str (s : String)
  | opaque (repr : String)
  /-- a `torch.device(type, index)` object -/
  | dev (type : String) (index : Option Nat)
  deriving DecidableEq, Repr, Inhabited

inductive Tree where
  | leaf (a : Atom)
  | node (kvs : List (Key × Tree))
  deriving Repr, Inhabited

abbrev Dict := List (Key × Tree)

inductive Err where
  | typeError | keyError | valueError | runtimeError | attributeError
  deriving DecidableEq, Repr, Inhabited

/-! ### association-list primitives (Python dict) -/

def dget (d : Dict) (k : Key) : Option Tree :=
  match d with
  | [] => .none
  | (k', v) :: rest => if k' = k then some v else dget rest k

def dhas (d : Dict) (k : Key) : Bool := (dget d k).isSome

/-- `d[k] = v`: replace in place if present, else append (insertion order). -/
def dset (d : Dict) (k : Key) (v : Tree) : Dict :=
  match d with
  | [] => [(k, v)]
  | (k', v') :: rest => if k' = k then (k, v) :: rest else (k', v') :: dset rest k v

/-- `d.pop(k, None)` -/
def derase (d : Dict) (k : Key) : Dict :=
  match d with
  | [] => []
  | (k', v') :: rest => if k' = k then rest else (k', v') :: derase rest k

/-! ### canonical_name -/

def swapUS (c : Char) : Char := if c = '_' then '-' else c
def swapSU (c : Char) : Char := if c = '-' then '_' else c

/-- `altk = k.replace("_", "-") if "_" in k else k.replace("-", "_")` -/
def altKey (k : Key) : Key :=
  if '_' ∈ k then k.map swapUS else k.map swapSU

/-- `canonical_name(k, config)` for a mapping `config`. -/
def canonicalName (k : Key) (d : Dict) : Key :=
  if dhas d k then k
  else if dhas d (altKey k) then altKey k
  else k

/-! ### device validation (`check_key_val`, `validate_device`) -/

structure Env where
  cuda : Bool
  mps : Bool
  numDevices : Nat
  currentDevice : Nat := 0
  deriving Repr, Inhabited

def lowerStr (s : String) : String := String.ofList (s.toList.map Char.toLower)

def containsSub (s sub : String) : Bool :=
  let n := sub.length
  let cs := s.toList
  let ss := sub.toList
  (List.range (cs.length + 1 - n)).any fun i => (cs.drop i).take n == ss

/-- the decimal device index of a `torch.device` string: non-empty, ASCII digits only, no
leading zero (`"cuda:"`, `"cuda:01"`, `"cuda:+1"`, `"cuda:1_0"`, `"cuda: 1"` are torch
RuntimeErrors).  torch keeps the index in a signed byte (`"cuda:128"` has index -128); indices
>= 128 are outside this model (recorded as an assumption of the harness). -/
def parseIndex (cs : List Char) : Option Nat :=
  if cs.isEmpty then .none
  else if !cs.all Char.isDigit then .none
  else if cs.length > 1 && cs.head? == some '0' then .none
  else some (cs.foldl (fun n c => 10 * n + (c.toNat - '0'.toNat)) 0)

/-- the part of `torch.device(str)` that validate_device relies on, for strings that
contain "cuda": `"cuda"` or `"cuda:<n>"` (case-sensitive); anything else is torch's
RuntimeError. -/
def parseCuda (s : String) : Except Err (Option Nat) :=
  if s = "cuda" then .ok .none
  else if s.startsWith "cuda:" then
    match parseIndex (s.toList.drop 5) with
    | some n => .ok (some n)
    | .none => .error .runtimeError
  else .error .runtimeError

/-- `if dev.type == "cuda": …; return f"cuda:{index}", index` -/
def finishCuda (env : Env) (idx : Option Nat) : Except Err (Atom × Int) :=
  if !env.cuda then .error .runtimeError
  else
    let index := idx.getD env.currentDevice
    if index ≥ env.numDevices then .error .runtimeError
    else .ok (.str s!"cuda:{index}", (index : Int))

/-- `elif dev.type == "mps": …; return "mps", 0` -/
def finishMps (env : Env) : Except Err (Atom × Int) :=
  if !env.mps then .error .runtimeError else .ok (.str "mps", 0)

/-- `validate_device(dev)` = `(device_str, device_id)` for the value kinds a configuration can
carry. -/
def validateDeviceFull (env : Env) (v : Tree) : Except Err (Atom × Int) :=
  match v with
  | .leaf .none =>
      if env.cuda then finishCuda env .none
      else if env.mps then finishMps env
      else .ok (.str "cpu", -1)
  | .leaf (.str s) =>
      let l := lowerStr s
      if containsSub l "cuda" then do
        let idx ← parseCuda s
        finishCuda env idx
      else if l = "gpu" then      -- `elif dev.lower() == "gpu":` (repaired: was a substring test)
        if env.cuda then finishCuda env .none
        else if env.mps then finishMps env
        else .error .runtimeError
      else if l = "mps" then finishMps env
      else if l = "cpu" then .ok (.str "cpu", -1)
      else .error .valueError
  | .leaf (.int i) =>
      if i < 0 then .error .valueError
      else if env.cuda then finishCuda env (some i.toNat)
      else .error .runtimeError
  | .leaf (.bool _) =>
      -- isinstance(True, int): not negative, then either "cuda is not available" or
      -- `torch.device("cuda:True")`, torch's RuntimeError
      .error .runtimeError
  | .leaf (.dev t idx) =>    -- a torch.device object goes straight to the `dev.type` dispatch
      if t = "cuda" then
        if env.cuda then finishCuda env idx else .error .runtimeError
      else if t = "mps" then finishMps env
      else if t = "cpu" then .ok (.str "cpu", -1)
      else .error .valueError
  | _ => .error .typeError

/-- `validate_device(dev)[0]`: the normalised device string that is stored -/
def validateDevice (env : Env) (v : Tree) : Except Err Atom :=
  (validateDeviceFull env v).map (·.1)

/-- `check_key_val(key, val)`: only the key `device` is special (`aliases` and
`deprecations` are empty in the module). -/
def checkKeyVal (env : Env) (k : Key) (v : Tree) : Except Err Tree :=
  if k = "device".toList then (validateDevice env v).map .leaf else .ok v

/-! ### set._assign with the context-manager record -/

inductive RecOp where
  | replace (path : List Key) (old : Tree)
  | insert (path : List Key)
  deriving Repr, Inhabited

/-- `path = (key,) + path` for an entry recorded below `key` -/
def RecOp.prepend (key : Key) : RecOp → RecOp
  | .replace p old => .replace (key :: p) old
  | .insert p => .insert (key :: p)

/-- `_assign(keys, value, d, path, record)`.  Returns the new dict and the record
entries appended (in order).  Python threads the path prefix downwards
(`path = path + (key,)`); here the entries of the recursive call are prefixed on the way
back, which produces the same tuples. -/
def assign (keys : List Key) (value : Tree) (d : Dict) (record : Bool) :
    Except Err (Dict × List RecOp) :=
  match keys with
  | [] => .error .keyError            -- unreachable: "".split(".") is [""]
  | [k] =>
      let key := canonicalName k d
      let rec_ := if record then
          (match dget d key with
           | some old => [RecOp.replace [key] old]
           | .none => [RecOp.insert [key]]) else []
      .ok (dset d key value, rec_)
  | k :: rest =>
      let key := canonicalName k d
      match dget d key with
      | .none =>
          match assign rest value [] false with
          | .ok (sub, r) =>
              .ok (dset d key (.node sub), (if record then [RecOp.insert [key]] else []) ++ r.map (RecOp.prepend key))
          | .error e => .error e
      | some (.node sub) =>
          match assign rest value sub record with
          | .ok (sub', r) => .ok (dset d key (.node sub'), r.map (RecOp.prepend key))
          | .error e => .error e
      | some (.leaf _) => .error .typeError   -- item assignment / membership on a non-mapping

/-- `key.split(".")` -/
def splitDots (k : Key) : List Key :=
  let rec go (cur : List Char) (acc : List Key) : List Char → List Key
    | [] => (cur.reverse :: acc).reverse
    | c :: cs => if c = '.' then go [] (cur.reverse :: acc) cs else go (c :: cur) acc cs
  go [] [] k

/-- `key.replace("__", ".")` (left-to-right, non-overlapping) -/
def kwargKey : List Char → List Char
  | '_' :: '_' :: rest => '.' :: kwargKey rest
  | c :: rest => c :: kwargKey rest
  | [] => []

/-- One `(key, value)` item of `set.__init__`. -/
def setItem (env : Env) (cfg : Dict) (kv : Key × Tree) : Except Err (Dict × List RecOp) := do
  let v ← checkKeyVal env kv.1 kv.2
  assign (splitDots kv.1) v cfg true

/-- `set(arg, **kwargs)`: items are applied in order; an exception aborts the call and
leaves the earlier items applied (Python semantics), which is why the result carries the
config reached even on error. -/
def setItems (env : Env) : Dict → List RecOp → List (Key × Tree) → Dict × List RecOp × Option Err
  | cfg, rec_, [] => (cfg, rec_, .none)
  | cfg, rec_, kv :: rest =>
      match setItem env cfg kv with
      | .ok (cfg', r) => setItems env cfg' (rec_ ++ r) rest
      | .error e => (cfg, rec_, some e)

/-- `d.setdefault(key, {})` walk of `__exit__` for a "replace" entry. -/
def restoreReplace (d : Dict) (path : List Key) (old : Tree) : Dict :=
  match path with
  | [] => d
  | [k] => dset d k old
  | k :: rest =>
      match dget d k with
      | some (.node sub) => dset d k (.node (restoreReplace sub rest old))
      | some (.leaf _) => d          -- would raise in Python; unreachable after a successful set
      | .none => dset d k (.node (restoreReplace [] rest old))

def restoreInsert (d : Dict) (path : List Key) : Dict :=
  match path with
  | [] => d
  | [k] => derase d k
  | k :: rest =>
      match dget d k with
      | some (.node sub) => dset d k (.node (restoreInsert sub rest))
      | _ => d                       -- KeyError → break

def undo (d : Dict) : RecOp → Dict
  | .replace p old => restoreReplace d p old
  | .insert p => restoreInsert d p

/-- `__exit__`: `for op, path, value in reversed(self._record)` -/
def exitCtx (d : Dict) (rec_ : List RecOp) : Dict := rec_.reverse.foldl undo d

/-! ### get -/

def get (d : Dict) (keys : List Key) : Except Err Tree :=
  match keys with
  | [] => .ok (.node d)
  | k :: rest =>
      match dget d (canonicalName k d) with
      | .none => .error .keyError
      | some (.node sub) => get sub rest
      | some (.leaf a) => match rest with
          | [] => .ok (.leaf a)
          | _ => .error .typeError

/-- `get(key, default, config, override_with)`: `override_with is not None` short-cuts
everything (0, False, "" and empty containers are returned as they are); otherwise the walk of
`get`, and a `TypeError`/`IndexError`/`KeyError` is replaced by `default` unless that is the
`no_default` sentinel (`default = none` here) — whatever its truthiness -/
def getFull (d : Dict) (keys : List Key) (default : Option Tree) (override : Tree) : Except Err Tree :=
  match override with
  | .leaf .none =>
      match get d keys with
      | .ok t => .ok t
      | .error e => match default with
          | some dv => .ok dv
          | .none => .error e
  | o => .ok o

/-! ### update / merge / refresh / update_defaults -/

/-- the integer an opaque float text such as `"5.0"` / `"-0.0"` equals (floats cross the protocol as JSON text;
Python's `5.0 == 5` and `1.0 == True` hold, `0.5` equals no integer) -/
def integralFloat (r : String) : Option Int :=
  let cs := r.toList
  let (neg, ds) := match cs with
    | '-' :: rest => (true, rest)
    | _ => (false, cs)
  -- the JSON printer drops a zero fraction ("5.0" is printed "5"): both spellings are accepted
  let ip := match ds.reverse with
    | '0' :: '.' :: revInt => revInt.reverse
    | _ => ds
  if ip.isEmpty || !ip.all Char.isDigit then .none
  else
    let n : Int := ip.foldl (fun (n : Int) c => 10 * n + ((c.toNat - '0'.toNat : Nat) : Int)) 0
    some (if neg then -n else n)

def atomTruthy : Atom → Bool
  | .none => false
  | .bool b => b
  | .int i => i != 0
  | .str s => s != ""
  | .opaque r => r != "[]" && integralFloat r != some 0      -- `[]`, `0.0`, `-0.0` are falsy
  | .dev _ _ => true

def atomNum : Atom → Option Int
  | .bool b => some (if b then 1 else 0)
  | .int i => some i
  | .opaque r => integralFloat r
  | _ => .none

/-- Python `==` on leaves (`True == 1`). -/
def pyEqAtom (a b : Atom) : Bool :=
  match atomNum a, atomNum b with
  | some x, some y => x == y
  | .none, .none => a == b
  | _, _ => false

mutual
/-- Python `==` on config values; dict equality ignores order. -/
def pyEq : Tree → Tree → Bool
  | .leaf a, .leaf b => pyEqAtom a b
  | .node xs, .node ys => xs.length == ys.length && pyEqSub xs ys
  | _, _ => false
/-- every entry of `xs` has an equal entry in `ys` -/
def pyEqSub : List (Key × Tree) → Dict → Bool
  | [], _ => true
  | (k, v) :: rest, ys =>
      (match dget ys k with
       | some w => pyEq v w
       | .none => false) && pyEqSub rest ys
end

inductive Priority where | old | new | newDefaults
  deriving DecidableEq, Repr

/-- the `defaults` argument of `update`: `None`, a mapping or (after `defaults.get(k)`
hit a non-mapping) a leaf. -/
def defaultsGet (defs : Option Tree) (k : Key) : Except Err (Option Tree) :=
  match defs with
  | .none => .ok .none
  | some (.node kvs) => if kvs.isEmpty then .ok .none else .ok (dget kvs k)
  | some (.leaf a) => if atomTruthy a then .error .attributeError else .ok .none  -- `5.get`

/-- `defaults and k in defaults and defaults[k] == old[k]` -/
def defaultMatches (defs : Option Tree) (k : Key) (oldv : Tree) : Except Err Bool :=
  match defs with
  | .none => .ok false
  | some (.node kvs) =>
      match dget kvs k with
      | some dv => .ok (pyEq dv oldv)
      | .none => .ok false
  | some (.leaf a) =>
      if !atomTruthy a then .ok false else
      match a with
      | .str s => if containsSub s (String.ofList k) then .error .typeError else .ok false  -- `k in "str"`, then `"str"[k]`
      | .opaque r =>
          if r.toList.head? == some '[' then .ok false   -- `k in [..]` on a list of non-matching items
          else .error .typeError                         -- `k in 2.5`: a float is not iterable
      | _ => .error .typeError          -- `k in 5`

/-- `dk = canonical_name(k, defaults) if defaults else k`: the spelling under which the
defaults hold the key (for a non-mapping `defaults` Python's `in` is a substring test on
strings, `False` on lists, and a `TypeError` — caught by `canonical_name` — on numbers) -/
def defaultsKey (defs : Option Tree) (k : Key) : Key :=
  match defs with
  | .none => k
  | some (.node kvs) => if kvs.isEmpty then k else canonicalName k kvs
  | some (.leaf a) =>
      if !atomTruthy a then k else
      match a with
      | .str s =>
          if containsSub s (String.ofList k) then k
          else if containsSub s (String.ofList (altKey k)) then altKey k else k
      | _ => k

/-- the leaf branch of `update`:
`if priority == "new" or k not in old or (priority == "new-defaults" and defaults and dk in
defaults and defaults[dk] == old[k]): old[k] = v` -/
def updateLeaf (prio : Priority) (old : Dict) (defs : Option Tree) (k dk : Key) (v : Tree) :
    Except Err Dict :=
  match dget old k with
  | .none => .ok (dset old k v)
  | some oldv =>
      if prio = .new then .ok (dset old k v)
      else if prio = .newDefaults then do
        let m ← defaultMatches defs dk oldv
        if m then .ok (dset old k v) else .ok old
      else .ok old

/-- `update(old, new, priority, defaults, _nested)` over the items of `new`, with Python's
in-place semantics: the dictionary as mutated so far is returned together with the exception
(if any) that stopped the loop.  `check_key_val` is applied to top-level keys only
(`nested = false`); the recursive calls pass `_nested=True`. -/
def updateP (env : Env) (prio : Priority) (nested : Bool) (old : Dict) (defs : Option Tree) :
    List (Key × Tree) → Dict × Option Err
  | [] => (old, .none)
  | (k0, .node sub) :: rest =>
      -- check_key_val: a mapping under the top-level key "device" is not a device
      if !nested && k0 = "device".toList then (old, some .typeError) else
      let k := canonicalName k0 old
      let dk := defaultsKey defs k
      -- `if k not in old or old[k] is None or not isinstance(old[k], dict): old[k] = {}`
      let (old1, cur) := match dget old k with
        | some (.node cur) => (old, cur)
        | _ => (dset old k (.node []), [])
      match defaultsGet defs dk with     -- `defaults.get(dk) if defaults else None`
      | .error e => (old1, some e)
      | .ok sd =>
          let r := updateP env prio true cur sd sub
          let old2 := dset old1 k (.node r.1)
          match r.2 with
          | some e => (old2, some e)
          | .none => updateP env prio nested old2 defs rest
  | (k0, .leaf a) :: rest =>
      match (if nested then .ok (.leaf a) else checkKeyVal env k0 (.leaf a)) with
      | .error e => (old, some e)
      | .ok v =>
          let k := canonicalName k0 old
          match updateLeaf prio old defs k (defaultsKey defs k) v with
          | .error e => (old, some e)
          | .ok old' => updateP env prio nested old' defs rest

/-- `update` as a function: the result when no exception was raised -/
def update (env : Env) (prio : Priority) (old : Dict) (defs : Option Tree) (new : List (Key × Tree)) :
    Except Err Dict :=
  match updateP env prio false old defs new with
  | (d, .none) => .ok d
  | (_, some e) => .error e

/-- `merge(*dicts)` -/
def merge (env : Env) : List Dict → Except Err Dict
  | ds => ds.foldlM (fun acc d => update env .new acc .none d) []

structure State where
  config : Dict
  defaults : List Dict
  deriving Repr, Inhabited

/-- `refresh()` with an empty `collect()` (hermetic QUANTEM_CONFIG). -/
def refresh (env : Env) (s : State) : Except Err State := do
  let cfg ← s.defaults.foldlM (fun acc d => update env .new acc .none d) []
  .ok { s with config := cfg }

/-- the in-place `new[key] = nval` normalisation loop at the top of `update_defaults`
(only top-level keys). -/
def normaliseTop (env : Env) : List (Key × Tree) → Except Err (List (Key × Tree))
  | [] => .ok []
  | (k, v) :: rest => do
      let v' ← checkKeyVal env k v
      let rest' ← normaliseTop env rest
      .ok ((k, v') :: rest')

/-- `update_defaults(new)` -/
def updateDefaults (env : Env) (s : State) (new : Dict) : Except Err State := do
  let new' ← normaliseTop env new
  let cur ← merge env s.defaults
  let s1 := { s with defaults := s.defaults ++ [new'] }
  -- if `update` raises, `defaults.append(new)` has already happened; the driver reports
  -- that case as an error and the harness stops the sequence there.
  let cfg ← update env .newDefaults s.config (some (.node cur)) new'
  .ok { s1 with config := cfg }

/-! ### the same operations with Python's in-place semantics on failure (driver) -/

/-- `refresh()`: `config.clear()`, then one `update` per default; an exception leaves the
configuration half rebuilt -/
def refreshP (env : Env) (s : State) : State × Option Err :=
  let rec go (cfg : Dict) : List Dict → Dict × Option Err
    | [] => (cfg, .none)
    | d :: rest =>
        match updateP env .new false cfg .none d with
        | (cfg', .none) => go cfg' rest
        | (cfg', some e) => (cfg', some e)
  let r := go [] s.defaults
  ({ s with config := r.1 }, r.2)

/-- `update_defaults(new)`: validation and `merge(*defaults)` happen before
`defaults.append(new)`; the final `update` mutates the configuration in place -/
def updateDefaultsP (env : Env) (s : State) (new : Dict) : State × Option Err :=
  match normaliseTop env new with
  | .error e => (s, some e)
  | .ok new' =>
      match merge env s.defaults with
      | .error e => (s, some e)
      | .ok cur =>
          let r := updateP env .newDefaults false s.config (some (.node cur)) new'
          ({ config := r.1, defaults := s.defaults ++ [new'] }, r.2)

end QuantemModel.Config
