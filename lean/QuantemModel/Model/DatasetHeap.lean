/-
C03 — heap layer of the Dataset model (dataset.py, validators.py): which NumPy buffers the
objects of a history hold, which operations allocate and which hand out views.  Core Lean only.

Every dataset object holds three references: the *buffer* its `array` is (a view of), and the
cells of its `origin` and `sampling` arrays.  Cells carry an abstract content token; an
element-wise / augmented update (`ds.sampling *= 2`, `ds.origin[0] = 3`, `ds.array[0] = 7`)
writes into a cell and is seen by every object holding that cell; setters and in-place
operations *rebind* the receiver's reference to a freshly allocated cell.
-/
namespace QuantemModel.DatasetHeap

/-- one dataset object: ids of the buffer behind `array`, of `origin` and of `sampling` -/
structure Obj where
  buf : Nat
  org : Nat
  smp : Nat
  deriving DecidableEq, Repr, Inhabited

/-- the objects created so far (in creation order), the next unused cell id, cell contents -/
structure St where
  objs : List Obj
  next : Nat
  mem : Nat → Nat

/-- operations by what they do to references (receiver = index into `objs`) -/
inductive HOp
  | new                       -- `cls.from_array(arr, …)`: the caller's array, `np.array(value)` copies of the calibration
  | copy (i : Nat)            -- `copy()`: `array.copy()`, `origin.copy()`, `sampling.copy()`, validated again
  | padIp (i : Nat)           -- `self._array = np.pad(…)`
  | padCp (i : Nat)           -- `copy()` then `.array = padded`
  | cropIp (i : Nat)          -- `self.array = self.array[slices]`: a view of the same buffer
  | cropCp (i : Nat)          -- `copy()` then a view of the copy's own buffer
  | binIp (i : Nat)           -- `_array`, `_sampling`, `_origin` rebound to new arrays
  | binCp (i : Nat)
  | resampleIp (i : Nat)
  | resampleCp (i : Nat)
  | getitemView (i : Nat)     -- integers / slices / Ellipsis: NumPy basic indexing returns a view
  | getitemCopy (i : Nat)     -- an index with a list: NumPy advanced indexing copies
  | derived (i : Nat)         -- get_dp_mean/_max/_median, get_virtual_image: reductions into new arrays
  | setOrigin (i : Nat)       -- `self._origin = validate_ndinfo(value)` (a new array)
  | setSampling (i : Nat)
  | setArray (i : Nat)        -- `self._array = value` (the caller's array)
  | writeOrigin (i : Nat) (v : Nat)    -- `ds.origin += 1`, `ds.origin[0] = 3`: element write into the cell
  | writeSampling (i : Nat) (v : Nat)  -- `ds.sampling *= 2`, `ds.sampling[:] = …`
  | writeArray (i : Nat) (v : Nat)     -- `ds.array[idx] = 7`
  deriving Repr, Inhabited

def setAt (l : List Obj) (i : Nat) (o : Obj) : List Obj := l.set i o

def write (mem : Nat → Nat) (c v : Nat) : Nat → Nat := fun x => if x = c then v else mem x

/-- a new object with three fresh cells -/
def allocAll (s : St) : St :=
  { s with objs := s.objs ++ [⟨s.next, s.next + 1, s.next + 2⟩], next := s.next + 3 }

def step (s : St) : HOp → St
  | .new => allocAll s
  | .copy i => if i < s.objs.length then allocAll s else s
  | .padCp i => if i < s.objs.length then allocAll s else s
  | .cropCp i => if i < s.objs.length then allocAll s else s
  | .binCp i => if i < s.objs.length then allocAll s else s
  | .resampleCp i => if i < s.objs.length then allocAll s else s
  | .getitemCopy i => if i < s.objs.length then allocAll s else s
  | .derived i => if i < s.objs.length then allocAll s else s
  | .getitemView i =>
      match s.objs[i]? with
      | none => s
      | some o => { s with objs := s.objs ++ [⟨o.buf, s.next, s.next + 1⟩], next := s.next + 2 }
  | .padIp i =>
      match s.objs[i]? with
      | none => s
      | some o => { s with objs := setAt s.objs i { o with buf := s.next }, next := s.next + 1 }
  | .setArray i =>
      match s.objs[i]? with
      | none => s
      | some o => { s with objs := setAt s.objs i { o with buf := s.next }, next := s.next + 1 }
  | .cropIp _ => s
  | .binIp i =>
      match s.objs[i]? with
      | none => s
      | some _ => { s with objs := setAt s.objs i ⟨s.next, s.next + 1, s.next + 2⟩, next := s.next + 3 }
  | .resampleIp i =>
      match s.objs[i]? with
      | none => s
      | some _ => { s with objs := setAt s.objs i ⟨s.next, s.next + 1, s.next + 2⟩, next := s.next + 3 }
  | .setOrigin i =>
      match s.objs[i]? with
      | none => s
      | some o => { s with objs := setAt s.objs i { o with org := s.next }, next := s.next + 1 }
  | .setSampling i =>
      match s.objs[i]? with
      | none => s
      | some o => { s with objs := setAt s.objs i { o with smp := s.next }, next := s.next + 1 }
  | .writeOrigin i v =>
      match s.objs[i]? with
      | none => s
      | some o => { s with mem := write s.mem o.org v }
  | .writeSampling i v =>
      match s.objs[i]? with
      | none => s
      | some o => { s with mem := write s.mem o.smp v }
  | .writeArray i v =>
      match s.objs[i]? with
      | none => s
      | some o => { s with mem := write s.mem o.buf v }

def init : St := ⟨[], 0, fun _ => 0⟩

def run (s : St) (ops : List HOp) : St := ops.foldl step s

/-- what object `j` shows of its calibration / of its data -/
def obsCal (s : St) (j : Nat) : Option (Nat × Nat) := (s.objs[j]?).map fun o => (s.mem o.org, s.mem o.smp)
def obsArr (s : St) (j : Nat) : Option Nat := (s.objs[j]?).map fun o => s.mem o.buf

/-- sharing classes (for the correspondence): for every pair of objects whether they hold the
same buffer / the same origin cell / the same sampling cell -/
def shareMatrix (s : St) : List (List Bool) :=
  s.objs.map fun a => s.objs.map fun b => a.buf == b.buf

def calShare (s : St) : List (List Bool) :=
  s.objs.map fun a => s.objs.map fun b => a.org == b.org || a.smp == b.smp || a.org == b.smp || a.smp == b.org

end QuantemModel.DatasetHeap
