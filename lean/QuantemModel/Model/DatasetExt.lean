import QuantemModel.Model.Dataset
/-
C03, growth 5 — what sits in FRONT of the state machine of `Model/Dataset.lean`: the Python
input forms the public entry points accept and how dataset.py / validators.py reduce them
(or reject them) before the operation proper starts, the remaining constructors
(`from_shape`), `copy(copy_custom_attributes=…)`, and histories seen from the caller:
mirror histories (every in-place call replaced by the copying call and vice versa) and
histories with the rejected calls erased.  Core Lean only.  Branch comments quote the Python.
-/
namespace QuantemModel.DatasetExt
open QuantemModel.Nd QuantemModel.Dataset

/-! ### `Dataset._normalize_axes` (and the scalar test at the top of `crop`) -/

/-- Python `int(x)` of a float: truncation toward zero -/
def pyInt (q : Rat) : Int := Int.tdiv q.num (q.den : Int)

/-- the `axes` argument as the caller writes it: `None`; a Python `int` / `bool` / `float`
(all `isinstance(axes, int | float)`; a bool counts as 0 / 1, a float goes through `int()`);
a NumPy integer scalar (`np.int64(1)`: not an `int`, not iterable); a tuple / list whose
entries go through `int()` one by one -/
inductive AxesForm
  | none
  | scalar (q : Rat)
  | npInt (a : Int)
  | seq (qs : List Rat)
  deriving Repr, Inhabited

/-- `_normalize_axes` up to `normalize_axis_index` (that part is `Dataset.normAxes`):
```
if axes is None: return tuple(range(self.ndim))
if isinstance(axes, int | float): axes = (axes,)
return tuple(normalize_axis_index(int(ax), self.ndim) for ax in axes)
``` -/
def axesOfForm : AxesForm → Except Err AxesArg
  | .none => .ok .all
  | .scalar q => .ok (.one (pyInt q))
  | .npInt _ => .error .type                 -- `for ax in axes`: 'numpy.int64' object is not iterable
  | .seq qs => .ok (.many (qs.map pyInt))

/-! ### `validate_ndinfo`, `validate_units` by input form -/

/-- a value handed to the `origin` / `sampling` setters or to `from_array` -/
inductive NdForm
  | num (q : Rat)                      -- Python / NumPy real scalar
  | boolScalar                         -- `True` / `False`: `np.isscalar`, but `np.full(ndim, True)` is a bool array
  | strScalar                          -- a string is `np.isscalar` as well
  | flat (qs : List Rat)               -- list / tuple / 1-D ndarray of numbers
  | nested (rows : List (List Rat))    -- rectangular nested sequence / 2-D array: `.flatten()`
  | nonNumeric (len : Nat)             -- sequence of bools / strings / None (after flattening `len` entries)
  | ragged                             -- `np.array` raises (inhomogeneous shape)
  | other                              -- dict, None, set, …
  deriving Repr, Inhabited

/-- `validate_ndinfo`, branch by branch:
```
if np.isscalar(value):
    arr = np.full(ndim, value); if not number: raise ValueError
elif not isinstance(value, (np.ndarray, tuple, list)): raise TypeError
try: arr = np.array(value).flatten()  except (ValueError, TypeError): raise TypeError
if len(arr) != ndim: raise ValueError
if not number: raise ValueError
``` -/
def validateNdForm (v : NdForm) (ndim : Nat) : Except Err (List Rat) :=
  match v with
  | .num q => .ok (List.replicate ndim q)
  | .boolScalar => .error .value
  | .strScalar => .error .value
  | .flat qs => if qs.length ≠ ndim then .error .value else .ok qs
  | .nested rows => if rows.flatten.length ≠ ndim then .error .value else .ok rows.flatten
  | .nonNumeric len => if len ≠ ndim then .error .value else .error .value
  | .ragged => .error .type
  | .other => .error .type

/-- an entry of a units sequence: a string, or something `str()` is applied to -/
inductive UEntry | str (s : String) | int (n : Int)
  deriving Repr, Inhabited

def UEntry.toStr : UEntry → String
  | .str s => s
  | .int n => toString n            -- `str(unit)`

inductive UnitsForm
  | str (s : String)
  | seq (es : List UEntry)           -- list or tuple
  | other
  deriving Repr, Inhabited

/-- `validate_units`: `[value]*ndim` | TypeError | length check | `[str(unit) for unit in value]` -/
def validateUnitsForm (v : UnitsForm) (ndim : Nat) : Except Err (List String) :=
  match v with
  | .str s => .ok (List.replicate ndim s)
  | .seq es => if es.length ≠ ndim then .error .value else .ok (es.map UEntry.toStr)
  | .other => .error .type

def UnitsForm.toArg : UnitsForm → UnitsArg
  | .str s => .str s
  | .seq es => .list (es.map UEntry.toStr)
  | .other => .badType

/-! ### `ensure_valid_array` by container -/

/-- what is handed to `from_array` / the `array` setter -/
inductive ArrayForm
  | ndarray                -- `isinstance(array, np.ndarray)`: taken as it is (any ndim, any dtype)
  | seq                    -- (nested) list / tuple of numbers: `np.array(array)`
  | scalar                 -- a bare number: 0-d after `np.array`
  | bad                    -- ragged nesting, strings, objects
  deriving DecidableEq, Repr, Inhabited

/-- `ensure_valid_array` before the `ndim` handling:
```
if isinstance(array, np.ndarray): validated_array = array
else:
    try:
        validated_array = np.array(array)
        if validated_array.ndim < 1: raise ValueError("Array must be at least 1D")
        elif not np.issubdtype(validated_array.dtype, np.number): raise ValueError(…)
    except Exception as e: raise TypeError(…)
```
(`np.bool_` is not a `np.number`: a list of bools is rejected, a bool ndarray is not) -/
def ensureValidForm (f : ArrayForm) (shape : List Nat) (kind : Kind) : Except Err (List Nat) :=
  match f with
  | .ndarray => .ok shape
  | .seq => if shape.length < 1 then .error .type
            else if kind == .bool then .error .type
            else .ok shape
  | .scalar => .error .type
  | .bad => .error .type

/-! ### index expressions by item type -/

/-- an index item as written: `__getitem__` tests `isinstance(idx, (int, np.integer))` and
`isinstance(idx, (list, np.ndarray))` -/
inductive ItemForm
  | pyInt (i : Int) | npInt (i : Int)
  | list (is : List Int) | ndarray (is : List Int)
  | slice (start stop step : Option Int)
  | ellipsis
  deriving Repr, Inhabited

def ItemForm.toItem : ItemForm → Item
  | .pyInt i => .int i | .npInt i => .int i
  | .list is => .list is | .ndarray is => .list is
  | .slice a b c => .slice a b c
  | .ellipsis => .ellipsis

/-- `ds[x]` with a bare item or `ds[x, y, …]`: `if not isinstance(index, tuple): index = (index,)` -/
inductive IndexForm | bare (it : ItemForm) | tuple (its : List ItemForm)
  deriving Repr, Inhabited

def IndexForm.items : IndexForm → List Item
  | .bare it => [it.toItem]
  | .tuple its => its.map ItemForm.toItem

/-! ### the public calls with their input forms -/

inductive OpX
  | base (op : Op)                                             -- everything of `Model/Dataset.lean`
  | copyWith (customAttrs : Bool)                              -- `copy(copy_custom_attributes=…)`
  | setOriginF (v : NdForm) | setSamplingF (v : NdForm) | setUnitsF (v : UnitsForm)
  | setArrayF (form : ArrayForm) (shape : List Nat) (data : Option (List Val)) (kind : Kind)
  | cropF (widths : List (Int × Int)) (axes : AxesForm) (inplace : Bool)
  | binF (f : FacArg) (axes : AxesForm) (mean badReducer inplace : Bool)
  | resampleF (arg : RsArg) (axes : AxesForm) (inplace : Bool)
  | getitemF (ix : IndexForm)
  deriving Repr, Inhabited

/-- well-formed arguments: an array handed to the `array` setter is a NumPy array (or becomes one) -/
def OpX.WF : OpX → Prop
  | .base op => op.WF
  | .setArrayF _ sh dat _ => dataOk sh dat
  | _ => True

def setNd (d : Ds) (v : NdForm) (set : Ds → NdInfo → Except Err Ds) : Except Err (Ds × Option Ds) :=
  match validateNdForm v d.ndim with
  | .error e => .error e
  | .ok qs => match set d (.list qs) with
    | .error e => .error e
    | .ok r => .ok (r, none)

/-- one public call, input forms included -/
def stepX (d : Ds) : OpX → Except Err (Ds × Option Ds)
  | .base op => step d op
  | .copyWith _ => step d .copy          -- the flag only governs attributes outside array / calibration
  | .setOriginF v => setNd d v setOrigin
  | .setSamplingF v => setNd d v setSampling
  | .setUnitsF v => match validateUnitsForm v d.ndim with
      | .error e => .error e
      | .ok us => step d (.setUnits (.list us))
  | .setArrayF f sh dat k => match ensureValidForm f sh k with
      | .error e => .error e
      | .ok sh' => step d (.setArray sh' dat k)
  | .cropF w ax ip =>
      -- crop tests `isinstance(axes, int | float)` itself before `_normalize_axes`; a NumPy integer
      -- scalar falls through to the tuple branch and is rejected there
      match axesOfForm ax with
      | .error e => .error e
      | .ok a => step d (.crop w a ip)
  | .binF f ax m b ip =>
      -- the reducer is checked before the axes
      if b then .error .value else
      match axesOfForm ax with
      | .error e => .error e
      | .ok a => step d (.bin f a m b ip)
  | .resampleF arg ax ip =>
      match axesOfForm ax with
      | .error e => .error e
      | .ok a => step d (.resample arg a ip)
  | .getitemF ix => step d (.getitem ix.items)

/-- the arguments of the state machine that stand for the plain forms -/
def NdForm.ofNdInfo : NdInfo → NdForm
  | .scalar q => .num q | .list qs => .flat qs | .badType => .other

def UnitsForm.ofArg : UnitsArg → UnitsForm
  | .str s => .str s | .list ss => .seq (ss.map UEntry.str) | .badType => .other

/-- construction from any container and any calibration form: `ensure_valid_array(array)`
(+ the subclass's `ndim=k`), then `__init__`: origin, sampling, units setters in that order -/
def fromArrayF (cls : DsClass) (form : ArrayForm) (shape : List Nat) (data : Option (List Val)) (kind : Kind)
    (o s : Option NdForm) (u : Option UnitsForm) : Except Err Ds :=
  match ensureValidForm form shape kind with
  | .error e => .error e
  | .ok sh =>
    match reqShape cls sh with
    | .error e => .error e
    | .ok shape' =>
      let nd := shape'.length
      match validateNdForm (o.getD (.flat (List.replicate nd 0))) nd with
      | .error e => .error e
      | .ok origin =>
        match validateNdForm (s.getD (.flat (List.replicate nd 1))) nd with
        | .error e => .error e
        | .ok sampling =>
          match validateUnitsForm (u.getD (.seq ((defaultUnits cls nd).map UEntry.str))) nd with
          | .error e => .error e
          | .ok units => .ok ⟨cls, shape', data, kind, origin, sampling, units⟩

/-- `Dataset2d/3d/4d.from_shape(shape, fill_value=…, origin=…, …)`:
`cls.from_array(np.full(shape, fill_value, dtype=np.float32), …)`; the base class has no `from_shape` -/
def fromShape (cls : DsClass) (shape : List Nat) (fill : Val) (o s : Option NdForm) (u : Option UnitsForm) :
    Except Err Ds :=
  if cls = .base then .error .attribute else
  fromArrayF cls .ndarray shape (some (List.replicate (prod shape) fill)) .float o s u

/-! ### histories from the caller's side -/

/-- the same call in the other variant: an in-place call becomes the copying call whose result
the caller keeps, a copying call whose result the caller keeps becomes the in-place call -/
def mirrorOp : Op × Bool → Op × Bool
  | (op, follow) =>
    match op.inplace? with
    | some true => (op.setInplace false, true)
    | some false => if follow then (op.setInplace true, false) else (op, follow)
    | none => (op, follow)

def mirror (ops : List (Op × Bool)) : List (Op × Bool) := ops.map mirrorOp

/-- the history with every rejected call removed (rejection is decided where the call happens) -/
def eraseRejected : Ds → List (Op × Bool) → List (Op × Bool)
  | _, [] => []
  | d, (op, follow) :: rest =>
    match step d op with
    | .error _ => eraseRejected d rest
    | .ok (d', r) =>
      (op, follow) :: eraseRejected (match follow, r with | true, some x => x | _, _ => d') rest

/-- no call of the history is rejected -/
def AllAccepted : Ds → List (Op × Bool) → Prop
  | _, [] => True
  | d, (op, follow) :: rest =>
    match step d op with
    | .error _ => False
    | .ok (d', r) => AllAccepted (match follow, r with | true, some x => x | _, _ => d') rest

end QuantemModel.DatasetExt
