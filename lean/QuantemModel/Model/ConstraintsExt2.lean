import QuantemModel.Model.Constraints
import QuantemModel.Model.PtychoOps
/-!
C10, growth round 6 — `center_probe` of `ProbeConstraints.apply_hard_constraints`
(`probe_models.py:ProbeConstraints._probe_center_of_mass_constraint`), which earlier rounds left out.

```
probe_int = fftshift(|start_probe|², dim=(-2,-1))
y_grid, x_grid = meshgrid(arange(H), arange(W), indexing="ij")
total_intensity = sum(probe_int, dim=(-2,-1))                         # per mode
com_y = sum(probe_int * y_grid) / total_intensity ;  com_x = sum(probe_int * x_grid) / total_intensity
probe_int_com = stack([com_y, com_x], -1) - [s // 2 for s in roi_shape]
return fourier_shift_expand(start_probe, -probe_int_com, expand_dim=False)   # every mode by ITS OWN shift
```
The Fourier shift is `Model/PtychoOps.lean:fourierShift` (the model of `ptycho_utils.fourier_shift_expand`
that C16 ties to the code).  Core Lean only; `H`, `W` are read off the image (rows × columns), so
`H > W` and `H < W` take different row / column roles.
-/
namespace QuantemModel.Constraints
open QuantemModel
variable {R : Type} [Num R]

/-- `torch.fft.fftshift(torch.abs(p).square(), dim=(-2, -1))` of one mode -/
def shiftedIntensity (p : Img R) : List (List R) :=
  PtychoOps.fftshift2 (p.map (·.map fun z => Num.sq (Cx.abs z)))

/-- `Σ_y Σ_x I[y][x] · y` -/
def momentY (I : List (List R)) : R :=
  Num.sum (List.zipWith (fun row (y : Nat) => Num.sum (row.map (· * Num.ofNat y))) I (List.range I.length))
/-- `Σ_y Σ_x I[y][x] · x` -/
def momentX (I : List (List R)) : R :=
  Num.sum (I.map fun row => Num.sum (List.zipWith (fun v (x : Nat) => v * Num.ofNat x) row (List.range row.length)))
/-- `torch.sum(probe_int, dim=(-2,-1))` -/
def totalOf (I : List (List R)) : R := Num.sum (I.map Num.sum)

/-- `probe_int_com` of one mode: centre of mass of the shifted intensity minus `(H // 2, W // 2)` -/
def comShift (p : Img R) : R × R :=
  let I := shiftedIntensity p
  let tot := totalOf I
  (momentY I / tot - Num.ofNat (PtychoOps.nrows p / 2), momentX I / tot - Num.ofNat (PtychoOps.ncols p / 2))

/-- one mode of `_probe_center_of_mass_constraint`: Fourier shift by MINUS its own centre-of-mass offset -/
def centerMode (p : Img R) : Img R :=
  let s := comShift p
  PtychoOps.fourierShift p (-s.1) (-s.2)

/-- `_probe_center_of_mass_constraint` on the stack -/
def centerProbe (ps : List (Img R)) : List (Img R) := ps.map centerMode

/-- a flat mode as an `H × W` image (`W` columns) and back -/
def toImg (w : Nat) : List (Cx R) → Nat → Img R
  | _, 0 => []
  | v, h + 1 => v.take w :: toImg w (v.drop w) h
def ofImg (p : Img R) : Vec R := p.flatten

/-- `ProbeConstraints.apply_hard_constraints` with BOTH options:
```
if constraints["orthogonalize_probe"]: probe = _probe_orthogonalization_constraint(probe)
if constraints["center_probe"]:        probe = _probe_center_of_mass_constraint(probe)
``` -/
def probeApplyHard2 (orthogonalize center : Bool) (ps : List (Img R)) : List (Img R) :=
  let h := ps.headD []
  let (H, W) := (PtychoOps.nrows h, PtychoOps.ncols h)
  let p1 := if orthogonalize then (gramSchmidt (ps.map ofImg)).map (toImg W · H) else ps
  if center then centerProbe p1 else p1

end QuantemModel.Constraints
