/-
Abstract specification of a whole `Ptychography.reconstruct` call (property C09, growth round 6).  Core Lean only.

`Model/Batcher.lean` / `Model/BatcherExt.lean` model the call the way the code is written: a loop over iterations that
threads a state (generator, parameters, histories) through `iterStep` / `iterStepFault`.  This file states WHAT such a call
does to the batch schedule, the generator and the length of the loss history in closed form — no loop, no state:

  * the batcher is built on the generator the object has after the optional reset (`makeBatcher`: one draw for a random
    split, none otherwise);
  * iteration `i` of the call yields the slices `order[0:b], order[b:2b], …` of the `i`-th draw after that
    (`specEpoch`), whatever happened in earlier iterations;
  * a call that runs to completion yields `num_iters` such epochs, advances the generator by `num_iters` draws and
    appends `num_iters` entries to the loss history;
  * a call interrupted in training batch `j` of iteration `i` yields the `i` complete epochs, then the first `j + 1`
    batches of epoch `i` (the interrupted batch was handed out), advances the generator by `i + 1` draws and appends `i`
    entries; interrupted in the validation pass: `i + 1` complete epochs, `i` entries; after the record: `i + 1` and
    `i + 1`; a fault position that is never reached (batch `j` does not exist) changes nothing;
  * an empty training set: one empty epoch, one draw, `ZeroDivisionError`, nothing recorded.

`Props/C09Ext.lean` proves that `reconstructF` (and every history of such calls) IS this specification.
-/
import QuantemModel.Model.BatcherExt

namespace QuantemModel.Batcher

/-- the generator after `k` further draws -/
def Gen.adv (g : Gen) (k : Nat) : Gen := { seed := g.seed, pos := g.pos + k }

/-- what a `reconstruct` call does, as far as the schedule property can see it -/
structure SpecOut where
  schedule : List (List (List Nat))   -- per started iteration: the training batches that were handed out
  gen : Gen                           -- the object's generator after the call
  recorded : Nat                      -- number of entries appended to `_iter_losses`
  raised : Bool                       -- the call did not return
  deriving Repr, DecidableEq

section
variable (draw : Gen → List Nat → List Nat)

/-- the batches of the `i`-th epoch of a batcher with training set `train` whose generator is `g` when the loop starts -/
def specEpoch (b : Nat) (train : List Nat) (g : Gen) (i : Nat) : List (List Nat) :=
  epoch b (draw (g.adv i) train)

/-- `k` complete epochs -/
def specEpochs (b : Nat) (train : List Nat) (g : Gen) (k : Nat) : List (List (List Nat)) :=
  (List.range k).map (specEpoch draw b train g)

/-- the loop `for a0 in range(num_iters)` of a batcher `sp` whose generator is `g`, with an optional fault -/
def specLoop (b : Nat) (sp : Split) (numIters : Nat) (fault : Option Fault) (g : Gen) : SpecOut :=
  let done : SpecOut := { schedule := specEpochs draw b sp.train g numIters, gen := g.adv numIters,
                          recorded := numIters, raised := false }
  if sp.train = [] ∧ 0 < numIters then
    { schedule := [[]], gen := g.adv 1, recorded := 0, raised := true }       -- total_loss / len(batcher): ZeroDivisionError
  else
    match fault with
    | none => done
    | some f =>
      if f.iter < numIters then
        match f.kind with
        | .train j =>
            if j < (specEpoch draw b sp.train g f.iter).length then
              { schedule := specEpochs draw b sp.train g f.iter ++ [(specEpoch draw b sp.train g f.iter).take (j + 1)],
                gen := g.adv (f.iter + 1), recorded := f.iter, raised := true }
            else done
        | .val k =>
            if k < (iterVal b sp.val).length then
              { schedule := specEpochs draw b sp.train g (f.iter + 1), gen := g.adv (f.iter + 1),
                recorded := f.iter, raised := true }
            else done
        | .afterRecord =>
            { schedule := specEpochs draw b sp.train g (f.iter + 1), gen := g.adv (f.iter + 1),
              recorded := f.iter + 1, raised := true }
      else done

/-- the generator a call starts from: `reset_recon` → `_reset_rng` re-creates it from the stored seed (if there is one) -/
def specStartGen (rs : RngState) (reset : Bool) : Gen := if reset then (resetRng rs).gen else rs.gen

/-- a whole `reconstruct` call on an object whose RNG state is `rs` -/
def specCall (cfg : RunCfg) (fault : Option Fault) (rs : RngState) : SpecOut :=
  let bt := makeBatcher draw (specStartGen rs cfg.reset) cfg.n cfg.ratio cfg.mode
  specLoop draw cfg.b bt.1 cfg.numIters fault bt.2

/-- the RNG state of the object after a history of calls (completed or interrupted): the stored seed never changes -/
def specHistory (hist : List (RunCfg × Option Fault)) (rs : RngState) : RngState :=
  hist.foldl (fun r c => { r with gen := (specCall draw c.1 c.2 r).gen }) rs

end
end QuantemModel.Batcher
