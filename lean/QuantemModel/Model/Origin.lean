/-
Model of the centre-of-mass origin estimation code (property C18).  Core Lean only.

  * `CenterOfMassOriginModel.calculate_origin / fit_origin_background / shift_origin_to`
        src/quantem/diffractive_imaging/origin_models.py           (torch, batched)
  * `PtychographyDatasetRaster._set_intensities_com`  (vectorised and looped path)
        src/quantem/diffractive_imaging/dataset_models.py          (numpy)
  * `fit_origin(..., "constant")`                      src/quantem/diffractive_imaging/ptycho_utils.py

Every function is written once over the law-free carrier `[Num R]`: it is executed at `Rat`
(exact correspondence on integer-valued patterns) and at `Float`, and reasoned about at `ℝ`.
The three centre-of-mass functions are written separately, each following its own code.
-/
import QuantemModel.Model.Batcher

namespace QuantemModel.Origin
open QuantemModel

/-- floor to an integer (the carrier class has none); used by the periodic index and the
bilinear sampler of `shift_origin_to` -/
class HasFloor (R : Type) where
  floor : R → Int

instance : HasFloor Rat := ⟨Rat.floor⟩
instance : HasFloor Float := ⟨fun x => x.floor.toInt64.toInt⟩

/-- one diffraction pattern / one 2-D array: list of rows -/
abbrev Pattern (R : Type) := List (List R)

section
variable {R : Type} [Num R]

/-- `sum(..., axis=(-2, -1))` of one pattern -/
def sum2 (p : Pattern R) : R := Num.sum (p.map Num.sum)

/-- elementwise product of two equally shaped 2-D arrays -/
def mul2 (a b : Pattern R) : Pattern R := List.zipWith (fun ra rb => List.zipWith (· * ·) ra rb) a b

/-- `c * I`: the same pattern in another intensity unit -/
def scale2 (c : R) (I : Pattern R) : Pattern R := I.map (fun row => row.map (fun v => c * v))

/-- first output of `meshgrid(arange(h), arange(w), indexing="ij")`: entry `[r][c] = r` -/
def rowGrid (h w : Nat) : Pattern R := (List.range h).map (fun r => List.replicate w (Num.ofNat r))

/-- second output of `meshgrid(arange(h), arange(w), indexing="ij")`: entry `[r][c] = c` -/
def colGrid (h w : Nat) : Pattern R := List.replicate h ((List.range w).map (fun c => Num.ofNat c))

/-! ### 1. torch, batched: `CenterOfMassOriginModel.calculate_origin` -/

/-- `out[idx] = vals` (index assignment with an index list) on a buffer whose untouched
entries are `none` (`torch.empty`) -/
def scatter {α : Type} (out : List (Option α)) (idx : List Nat) (vals : List α) : List (Option α) :=
  (idx.zip vals).foldl (fun o iv => o.set iv.1 (some iv.2)) out

/-- `calculate_origin(max_batch_size = b)` on `tensor.view((-1, nqx, nqy))`; `h w` are
`dataset.shape[-2:]`.  Result: the `(num_dps, 2)` buffer `com_measured`. -/
def comTorchBatched (b h w : Nat) (t3 : List (Pattern R)) : List (Option (R × R)) :=
  let n := t3.length                                      -- self.num_dps
  let qxa : Pattern R := rowGrid h w                      -- qxa, qya = meshgrid(qx, qy, indexing="ij")
  let qya : Pattern R := colGrid h w
  -- SimpleBatcher(num_dps, batch_size=b, shuffle=False): val_ratio 0 → train = arange(num_dps)
  let batches := Batcher.epoch b (List.range n)
  batches.foldl (fun com batchIdx =>
      let intensities := batchIdx.map (fun i => t3.getD i [])                 -- tensor_3d[batch_idx]
      let summed := intensities.map sum2                                       -- torch.sum(intensities, dim=(-2, -1))
      let c0 := List.zipWith (· / ·) (intensities.map (fun I => sum2 (mul2 I qxa))) summed
      let c1 := List.zipWith (· / ·) (intensities.map (fun I => sum2 (mul2 I qya))) summed
      scatter com batchIdx (List.zip c0 c1))                                   -- com_measured[batch_idx, 0/1] = …
    (List.replicate n none)                                                    -- torch.empty((num_dps, 2))

/-! ### 2. numpy, vectorised: `_set_intensities_com(vectorized_calculation=True)` -/

/-- returns `(com_measured_r, com_measured_c)`, each of scan shape -/
def comNumpyVectorised (mask : Option (Pattern R)) (h w : Nat) (I4 : List (List (Pattern R))) :
    List (List R) × List (List R) :=
  let krm : Pattern R := rowGrid h w                      -- krm, kcm = np.meshgrid(kr, kc, indexing="ij")
  let kcm : Pattern R := colGrid h w
  let im : List (List (Pattern R)) := match mask with    -- intensities * dp_mask  (broadcast over the scan axes)
    | some m => I4.map (fun row => row.map (fun I => mul2 I m))
    | none => I4
  let cr := im.map (fun row => row.map (fun I => sum2 (mul2 I krm)))   -- np.sum(intensities_mask * krm[None, None], axis=(-2, -1))
  let cc := im.map (fun row => row.map (fun I => sum2 (mul2 I kcm)))
  let s := im.map (fun row => row.map sum2)                            -- intensities_sum
  (List.zipWith (fun a b => List.zipWith (· / ·) a b) cr s,            -- com_measured_r /= intensities_sum
   List.zipWith (fun a b => List.zipWith (· / ·) a b) cc s)

/-! ### 3. numpy, looped: `_set_intensities_com(vectorized_calculation=False)` -/

/-- body of the loop for one scan position (as repaired: rows with `krm`, columns with `kcm`,
the mask applied to a copy) -/
def comLoopBody (mask : Option (Pattern R)) (krm kcm : Pattern R) (I : Pattern R) : R × R :=
  let masked : Pattern R := match mask with               -- masked_intensity = intensities[Rr, Rc] (* dp_mask)
    | some m => mul2 I m
    | none => I
  let summed := sum2 masked                               -- masked_intensity.sum()
  (sum2 (mul2 masked krm) / summed,                       -- com_measured_r[Rr, Rc] = np.sum(masked * krm) / summed
   sum2 (mul2 masked kcm) / summed)                       -- com_measured_c[Rr, Rc] = np.sum(masked * kcm) / summed

def comNumpyLooped (mask : Option (Pattern R)) (h w : Nat) (I4 : List (List (Pattern R))) :
    List (List R) × List (List R) :=
  let krm : Pattern R := rowGrid h w
  let kcm : Pattern R := colGrid h w
  -- for Rr, Rc in product(range(shape_r), range(shape_c)): every cell is assigned exactly once
  (I4.map (fun row => row.map (fun I => (comLoopBody mask krm kcm I).1)),
   I4.map (fun row => row.map (fun I => (comLoopBody mask krm kcm I).2)))

/-! ### fits -/

/-- `fit_origin_background(fit_method="constant")`: `origin_measured.mean(0)` expanded to all patterns -/
def fitConstantTorch (o : List (R × R)) : List (R × R) :=
  let n : R := Num.ofNat o.length
  List.replicate o.length (Num.sum (o.map (·.1)) / n, Num.sum (o.map (·.2)) / n)

/-- `fit_origin(..., "constant")` for one component: `np.mean(q) * np.ones_like(q)` -/
def fitConstantNumpy (q : List (List R)) : List (List R) :=
  let flat := q.flatten
  let mean : R := Num.sum flat / Num.ofNat flat.length
  q.map (fun row => row.map (fun _ => mean * Num.one))

/-- `fit_linear_plane` + evaluation, for one component.  `pos` are the probe positions, `z` the
measured origin component, `nrm = (a, b, c)` the eigenvector `eigh(cov)[1][:, 0]` (a *parameter*
of the model: unit eigenvector of the smallest eigenvalue of the covariance of the points).
`d = -dot(normal, centroid)`; fitted `= (pos @ [-a, -b] - d) / c`. -/
def fitPlanePCA (pos : List (R × R)) (z : List R) (nrm : R × R × R) : List R :=
  let n : R := Num.ofNat pos.length
  let cx := Num.sum (pos.map (·.1)) / n                   -- centroid = points.mean(0)
  let cy := Num.sum (pos.map (·.2)) / n
  let cz := Num.sum z / n
  let (a, b, c) := nrm
  let d := -(a * cx + b * cy + c * cz)
  pos.map (fun p => ((-a) * p.1 + (-b) * p.2 - d) / c)

/-! ### the families fitted by `fit_origin` with `curve_fit` (ptycho_utils.py) -/

inductive FitKind where
  | plane
  | parabola
  | bezierTwo
  deriving Repr, DecidableEq

/-- `_plane(xy, mx, my, b)`, `_parabola(xy, c0, cx1, cx2, cy1, cy2, cxy)`,
`_bezier_two(xy, c00, c01, c02, c10, c11, c12, c20, c21, c22)`; `θ` lists the parameters in the
order of the Python signature (missing entries read as 0), `xy = (xy[0], xy[1])`. -/
def surfaceF (kind : FitKind) (θ : List R) (xy : R × R) : R :=
  let p (i : Nat) : R := θ.getD i Num.zero
  let x := xy.1
  let y := xy.2
  match kind with
  | .plane => p 0 * x + p 1 * y + p 2                      -- mx * xy[0] + my * xy[1] + b
  | .parabola =>                                           -- c0 + cx1 x + cy1 y + cx2 x**2 + cy2 y**2 + cxy x y
      p 0 + p 1 * x + p 3 * y + p 2 * (x * x) + p 4 * (y * y) + p 5 * x * y
  | .bezierTwo =>
      let u := Num.one - x
      let v := Num.one - y
      p 0 * (u * u) * (v * v)                              -- c00 (1-x)^2 (1-y)^2
        + p 3 * Num.two * u * x * (v * v)                  -- c10 2 (1-x) x (1-y)^2
        + p 6 * (x * x) * (v * v)                          -- c20 x^2 (1-y)^2
        + p 1 * Num.two * (u * u) * v * y                  -- c01 2 (1-x)^2 (1-y) y
        + p 4 * Num.ofNat 4 * u * x * v * y                -- c11 4 (1-x) x (1-y) y
        + p 7 * Num.two * (x * x) * v * y                  -- c21 2 x^2 (1-y) y
        + p 2 * (u * u) * (y * y)                          -- c02 (1-x)^2 y^2
        + p 5 * Num.two * u * x * (y * y)                  -- c12 2 (1-x) x y^2
        + p 8 * (x * x) * (y * y)                          -- c22 x^2 y^2

/-- `f(rc, *popt).reshape(shape)` on the raster `np.indices(shape)` -/
def surfaceOnRaster (kind : FitKind) (θ : List R) (nx ny : Nat) : List R :=
  (List.range nx).flatMap (fun x => (List.range ny).map (fun y => surfaceF kind θ ((Num.ofNat x : R), (Num.ofNat y : R))))

/-- the raster positions `meshgrid(arange(nx), arange(ny), indexing="ij")` stacked and flattened -/
def rasterPositions (nx ny : Nat) : List (R × R) :=
  (List.range nx).flatMap (fun x => (List.range ny).map (fun y => ((Num.ofNat x : R), (Num.ofNat y : R))))

/-! ### `shift_origin_to` -/

/-- torch's `%` on floats with a positive integer modulus: `x - m * floor(x / m)` -/
def fmod [HasFloor R] (x : R) (m : Nat) : R :=
  x - Num.ofNat m * Num.ofInt (HasFloor.floor (x / Num.ofNat m))

/-- pixel `(y, x)` of `I`, zero outside the `h × w` frame (`padding_mode="zeros"`) -/
def pix (I : Pattern R) (h w : Nat) (y x : Int) : R :=
  if 0 ≤ y ∧ y < Int.ofNat h ∧ 0 ≤ x ∧ x < Int.ofNat w then (I.getD y.toNat []).getD x.toNat Num.zero
  else Num.zero

/-- bilinear `grid_sample` of one output pixel at (un-normalised) source coordinate `(y, x)` -/
def sampleBilinear [HasFloor R] (I : Pattern R) (h w : Nat) (y x : R) : R :=
  let y0 := HasFloor.floor y
  let x0 := HasFloor.floor x
  let wy := y - Num.ofInt y0
  let wx := x - Num.ofInt x0
  pix I h w y0 x0 * ((Num.one - wy) * (Num.one - wx))
    + pix I h w y0 (x0 + 1) * ((Num.one - wy) * wx)
    + pix I h w (y0 + 1) x0 * (wy * (Num.one - wx))
    + pix I h w (y0 + 1) (x0 + 1) * (wy * wx)

/-- `shift_origin_to(origin_coordinate = coord)` for one pattern whose fitted origin is `origin`
(row, column):  `shifted_grid = (base_grid + (origin - coord)) % (H, W)`, normalised with
`2 * g / max(size - 1, 1) - 1` (as repaired: an axis of length 1 has the single coordinate 0) and sampled with `align_corners=True` (which un-normalises with
`(g + 1) / 2 * (size - 1)`), bilinear, zero padding. -/
def shiftOriginTo [HasFloor R] (coord : R × R) (h w : Nat) (origin : R × R) (I : Pattern R) : Pattern R :=
  let sy := origin.1 - coord.1                            -- shift_yx = origin_fitted - coordinate
  let sx := origin.2 - coord.2
  (List.range h).map (fun i => (List.range w).map (fun j =>
    let gy := fmod (Num.ofNat i + sy) h                   -- (base_grid + shift) % size
    let gx := fmod (Num.ofNat j + sx) w
    let ny := Num.two * gy / (Num.ofNat (max (h - 1) 1)) - Num.one     -- grid_y_norm = 2 g / max(H - 1, 1) - 1
    let nx := Num.two * gx / (Num.ofNat (max (w - 1) 1)) - Num.one     -- grid_x_norm
    let y := (ny + Num.one) / Num.two * Num.ofNat (h - 1)      -- align_corners=True un-normalisation
    let x := (nx + Num.one) / Num.two * Num.ofNat (w - 1)
    sampleBilinear I h w y x))

/-- the batched loop of `shift_origin_to(max_batch_size = b)` over all patterns -/
def shiftAllBatched [HasFloor R] (b : Nat) (coord : R × R) (h w : Nat) (origins : List (R × R))
    (t3 : List (Pattern R)) : List (Option (Pattern R)) :=
  let n := t3.length
  (Batcher.epoch b (List.range n)).foldl (fun out batchIdx =>
      let vals := batchIdx.map (fun i => shiftOriginTo coord h w (origins.getD i (Num.zero, Num.zero)) (t3.getD i []))
      scatter out batchIdx vals)
    (List.replicate n none)                               -- torch.empty_like(tensor_3d)

/-- `np.roll(I, (-oy, -ox), axis=(0, 1))`: entry `[i][j] = I[(i + oy) mod h][(j + ox) mod w]` -/
def rollNeg (h w : Nat) (oy ox : Int) (I : Pattern R) : Pattern R :=
  (List.range h).map (fun i => (List.range w).map (fun j =>
    (I.getD ((Int.ofNat i + oy) % Int.ofNat h).toNat []).getD ((Int.ofNat j + ox) % Int.ofNat w).toNat Num.zero))

end

/-! ### the `origin_measured` / `origin_fitted` setters: accepted input forms -/

/-- what can be handed to the setters (after `validate_tensor`): an `(N, 2)` list of (row, col)
pairs, an `(Rx, Ry, 2)` scan grid of pairs, or a single pair -/
inductive OriginInput (α : Type) where
  | flat (l : List (α × α))
  | grid (g : List (List (α × α)))
  | pair (p : α × α)

/-- `value.view((-1, 2))`: row-major flattening to pairs -/
def viewPairs {α : Type} : OriginInput α → List (α × α)
  | .flat l => l
  | .grid g => g.flatten                                    -- pattern (i, j) ↦ position i * Ry + j
  | .pair p => [p]

/-- `.expand((num_dps, 2))`: kept if there is one pair per pattern, a single pair is broadcast to
every pattern, any other length raises -/
def expandPairs {α : Type} (numDps : Nat) : List (α × α) → Option (List (α × α))
  | [p] => if numDps = 1 then some [p] else some (List.replicate numDps p)
  | l => if l.length = numDps then some l else none

/-- the setters of `origin_measured` / `origin_fitted` -/
def storeOrigins {α : Type} (numDps : Nat) (v : OriginInput α) : Option (List (α × α)) :=
  expandPairs numDps (viewPairs v)

/-- a layout dispatch that also accepts a component-first `(2, Rx, Ry)` array and recognises it by
the TOO WEAK test `ndim == 3 and shape[0] == 2` (kept as a warning: see
`weak_layout_test_counterexample`): a grid with exactly two rows is re-read as two component
planes `rows, cols` whose entries are paired position by position. -/
def storeOriginsWeakTest {α : Type} (numDps : Nat) (v : OriginInput α) : Option (List (α × α)) :=
  match v with
  | .grid [r0, r1] =>
      let comp (r : List (α × α)) : List α := r.flatMap (fun p => [p.1, p.2])   -- the (Ry, 2) block of one "component"
      expandPairs numDps (List.zip (comp r0) (comp r1))
  | other => storeOrigins numDps other

section
variable {R : Type} [Num R]

/-- the pattern moved down by `a` rows and right by `b` columns WITHOUT wrap-around (the frame
grows): `a` empty rows on top, `b` zeros in front of every row -/
def padShift (a b : Nat) (I : Pattern R) : Pattern R :=
  List.replicate a [] ++ I.map (fun row => List.replicate b (Num.zero : R) ++ row)

end

end QuantemModel.Origin
