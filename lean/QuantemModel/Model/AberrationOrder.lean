import QuantemModel.Core.Num
import QuantemModel.Generated.Aberration
/-!
C12 (growth round 6) — the two conversions WITH their `max_order` argument, as the loops of the source.

```
for n in range(1, max_order + 1):
    for s in range(0, n + 2):
        m = 2 * s - n - 1
        if m < 0: continue
        name = f"C{n}{m}"
        if m == 0: out[name] = src[name]
        else:      …  f"{name}_a", f"{name}_b"   /   name, f"phi{n}{m}"
```

The translated text (Generated/Aberration.lean) is the unrolling of these loops at the default
`max_order = 5`; `Props/C12Ext.lean` proves that the loop model at 5 IS that text, that a smaller explicit
`max_order` yields a prefix of it, and which harmonics (n, m) the loops visit for EVERY `max_order`
(the top harmonic m = n + 1 of every order included).  Core Lean only.
-/
namespace QuantemModel.AberrationOrder
open QuantemModel QuantemModel.Generated.Aberration

variable {R : Type} [Num R]

/-- inner loop: the values `m = 2 s - n - 1 ≥ 0` for `s in range(0, n + 2)`, in loop order -/
def harmonicsOf (n : Nat) : List (Nat × Nat) :=
  (List.range (n + 2)).filterMap fun s => if n + 1 ≤ 2 * s then some (n, 2 * s - n - 1) else none

/-- both loops: `n in range(1, max_order + 1)` -/
def harmonics (maxOrder : Nat) : List (Nat × Nat) :=
  (List.range maxOrder).flatMap fun i => harmonicsOf (i + 1)

/-- `f"C{n}{m}"` (literal on the 14 harmonics of orders 1..5 so that the names reduce by evaluation) -/
def cname : Nat → Nat → String
  | 1, 0 => "C10" | 1, 2 => "C12" | 2, 1 => "C21" | 2, 3 => "C23"
  | 3, 0 => "C30" | 3, 2 => "C32" | 3, 4 => "C34"
  | 4, 1 => "C41" | 4, 3 => "C43" | 4, 5 => "C45"
  | 5, 0 => "C50" | 5, 2 => "C52" | 5, 4 => "C54" | 5, 6 => "C56"
  | n, m => "C" ++ toString n ++ toString m

/-- `f"phi{n}{m}"` -/
def pname : Nat → Nat → String
  | 1, 2 => "phi12" | 2, 1 => "phi21" | 2, 3 => "phi23"
  | 3, 2 => "phi32" | 3, 4 => "phi34"
  | 4, 1 => "phi41" | 4, 3 => "phi43" | 4, 5 => "phi45"
  | 5, 2 => "phi52" | 5, 4 => "phi54" | 5, 6 => "phi56"
  | n, m => "phi" ++ toString n ++ toString m

/-- `f"{name}_a"` -/
def aname : Nat → Nat → String
  | 1, 2 => "C12_a" | 2, 1 => "C21_a" | 2, 3 => "C23_a"
  | 3, 2 => "C32_a" | 3, 4 => "C34_a"
  | 4, 1 => "C41_a" | 4, 3 => "C43_a" | 4, 5 => "C45_a"
  | 5, 2 => "C52_a" | 5, 4 => "C54_a" | 5, 6 => "C56_a"
  | n, m => cname n m ++ "_a"

/-- `f"{name}_b"` -/
def bname : Nat → Nat → String
  | 1, 2 => "C12_b" | 2, 1 => "C21_b" | 2, 3 => "C23_b"
  | 3, 2 => "C32_b" | 3, 4 => "C34_b"
  | 4, 1 => "C41_b" | 4, 3 => "C43_b" | 4, 5 => "C45_b"
  | 5, 2 => "C52_b" | 5, 4 => "C54_b" | 5, 6 => "C56_b"
  | n, m => cname n m ++ "_b"

/-- loop body of `polar_to_cartesian_aberrations` for one (n, m) -/
def p2cStep (polar : String → R) (nm : Nat × Nat) : List (String × R) :=
  if nm.2 = 0 then [(cname nm.1 nm.2, polar (cname nm.1 nm.2))]            -- cart[name] = polar[name]
  else
    [(aname nm.1 nm.2, polar (cname nm.1 nm.2) * Num.cos (Num.ofRat (nm.2 : Nat) * polar (pname nm.1 nm.2))),
     (bname nm.1 nm.2, polar (cname nm.1 nm.2) * Num.sin (Num.ofRat (nm.2 : Nat) * polar (pname nm.1 nm.2)))]

/-- `polar_to_cartesian_aberrations(polar, max_order)` (absent key reads 0: the `defaultdict`) -/
def p2cOrder (polar : String → R) (maxOrder : Nat) : List (String × R) :=
  (harmonics maxOrder).flatMap (p2cStep polar)

/-- loop body of `cartesian_to_polar_aberrations` for one (n, m) -/
def c2pStep (cart : String → R) (nm : Nat × Nat) : List (String × R) :=
  if nm.2 = 0 then [(cname nm.1 nm.2, cart (cname nm.1 nm.2))]
  else
    [(cname nm.1 nm.2, Num.sqrt (npow (cart (aname nm.1 nm.2)) 2 + npow (cart (bname nm.1 nm.2)) 2)),
     (pname nm.1 nm.2, Num.atan2 (cart (bname nm.1 nm.2)) (cart (aname nm.1 nm.2)) / Num.ofRat (nm.2 : Nat))]

/-- `cartesian_to_polar_aberrations(cart, max_order)` -/
def c2pOrder (cart : String → R) (maxOrder : Nat) : List (String × R) :=
  (harmonics maxOrder).flatMap (c2pStep cart)

end QuantemModel.AberrationOrder
