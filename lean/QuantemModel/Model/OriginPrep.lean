/-
C18, growth round 6: what `PtychographyDatasetRaster.preprocess()` does to ONE pattern AFTER the centre-of-mass stage
(`dataset_models.py:_normalize_diffraction_intensities` + `ptycho_utils.py:shift_array(..., bilinear=True)`):

    amplitude        = np.maximum(np.sqrt(np.maximum(I, 0)), 0)
    shift_amplitude  = shift_array(amplitude, -(com_fit_r + 0.0), -(com_fit_c + 0.0), bilinear=True)   # four weighted np.roll
    shift_amplitude  = np.maximum(shift_amplitude, 0)
    centred          = np.fft.fftshift(shift_amplitude)                                                  # roll by shape // 2
    descan_shift     = -1 * com_fit + roi_shape // 2

Core Lean only.  The square root is taken outside (the driver is handed the amplitudes).
-/
import QuantemModel.Model.Origin

namespace QuantemModel.Origin

section
variable {R : Type} [Num R]

/-- entry `[i][j]` of `np.roll(ar, (a, b), axis=(0, 1))` on an `h × w` array: `ar[(i - a) mod h][(j - b) mod w]` -/
def rolledAt (h w : Nat) (a b : Int) (ar : Pattern R) (i j : Nat) : R :=
  (ar.getD ((Int.ofNat i - a) % Int.ofNat h).toNat []).getD ((Int.ofNat j - b) % Int.ofNat w).toNat Num.zero

/-- `shift_array(ar, rshift, cshift, periodic=True, bilinear=True)`:
`rF = floor(rshift)`, `wr = rshift - rF` (same for columns) and
`roll(ar,(rF,cF))*(1-wr)*(1-wc) + roll(ar,(rF+1,cF))*wr*(1-wc) + roll(ar,(rF,cF+1))*(1-wr)*wc + roll(ar,(rF+1,cF+1))*wr*wc` -/
def shiftArrayBilinear [HasFloor R] (h w : Nat) (rshift cshift : R) (ar : Pattern R) : Pattern R :=
  let rF := HasFloor.floor rshift
  let cF := HasFloor.floor cshift
  let wr := rshift - Num.ofInt rF
  let wc := cshift - Num.ofInt cF
  (List.range h).map (fun i => (List.range w).map (fun j =>
    rolledAt h w rF cF ar i j * ((Num.one - wr) * (Num.one - wc))
      + rolledAt h w (rF + 1) cF ar i j * (wr * (Num.one - wc))
      + rolledAt h w rF (cF + 1) ar i j * ((Num.one - wr) * wc)
      + rolledAt h w (rF + 1) (cF + 1) ar i j * (wr * wc)))

/-- `np.fft.fftshift` of an `h × w` array: `np.roll(A, (h // 2, w // 2), axis=(0, 1))` -/
def fftshift2 (h w : Nat) (A : Pattern R) : Pattern R :=
  (List.range h).map (fun i => (List.range w).map (fun j =>
    rolledAt h w (Int.ofNat (h / 2)) (Int.ofNat (w / 2)) A i j))

/-- `np.maximum(A, 0)` -/
def relu2 (A : Pattern R) : Pattern R := A.map (fun row => row.map (fun v => Num.max v Num.zero))

/-- the centred amplitude of one pattern whose fitted centre of mass is `comFit` (row, column) -/
def centreAmplitude [HasFloor R] (h w : Nat) (comFit : R × R) (amp : Pattern R) : Pattern R :=
  fftshift2 h w (relu2 (shiftArrayBilinear h w (-(comFit.1 + Num.zero)) (-(comFit.2 + Num.zero)) amp))

/-- `centered_intensities = shift_amplitude ** 2` -/
def centreIntensity [HasFloor R] (h w : Nat) (comFit : R × R) (amp : Pattern R) : Pattern R :=
  (centreAmplitude h w comFit amp).map (fun row => row.map (fun v => v * v))

/-- `descan_shifts = -1 * com_fit + roi_shape // 2` -/
def descanShift (h w : Nat) (comFit : R × R) : R × R :=
  (Num.ofInt (-1) * comFit.1 + Num.ofNat (h / 2), Num.ofInt (-1) * comFit.2 + Num.ofNat (w / 2))

/-- the loop of `_normalize_diffraction_intensities` over all scan positions (row-major), `positions_mask=None` -/
def centreAll [HasFloor R] (h w : Nat) (comFit : List (R × R)) (amps : List (Pattern R)) : List (Pattern R) :=
  (List.range amps.length).map (fun i => centreAmplitude h w (comFit.getD i (Num.zero, Num.zero)) (amps.getD i []))

end

end QuantemModel.Origin
