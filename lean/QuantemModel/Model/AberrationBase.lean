import QuantemModel.Core.Num
/-!
C12 — 2×2 real matrices for the polar-decomposition fit.  Hand-written, core Lean only; imported by the
generated file (translation of `_torch_polar`) and by Model/Aberration.lean.
-/
namespace QuantemModel.Aberration
open QuantemModel
variable {R : Type} [Num R]

/-- 2×2 matrix `[[a, b], [c, d]]` -/
structure M2 (R : Type) where
  a : R
  b : R
  c : R
  d : R

namespace M2
def mul (x y : M2 R) : M2 R :=
  ⟨x.a * y.a + x.b * y.c, x.a * y.b + x.b * y.d, x.c * y.a + x.d * y.c, x.c * y.b + x.d * y.d⟩
def transpose (x : M2 R) : M2 R := ⟨x.a, x.c, x.b, x.d⟩
def neg (x : M2 R) : M2 R := ⟨-x.a, -x.b, -x.c, -x.d⟩
def det (x : M2 R) : R := x.a * x.d - x.b * x.c
def inv (x : M2 R) : M2 R :=
  let dt := det x
  ⟨x.d / dt, -x.b / dt, -x.c / dt, x.a / dt⟩
/-- `S.diag()` for the two singular values -/
def diag (s : R × R) : M2 R := ⟨s.1, Num.zero, Num.zero, s.2⟩
def one : M2 R := ⟨Num.one, Num.zero, Num.zero, Num.one⟩
end M2

/-- Python/torch `remainder(x, y)` for `x ∈ [-y, 2y)` (the only range reached: |x| ≤ 2π) -/
def rem1 (x y : R) : R :=
  if Num.ltb x Num.zero then x + y else if Num.leb y x then x - y else x

/-- exception classes of the alias code -/
inductive Err | keyError | valueError | typeError
  deriving DecidableEq, Repr

/-- insertion-ordered dict assignment `d[k] = v` -/
def dset : List (String × R) → String → R → List (String × R)
  | [], k, v => [(k, v)]
  | (a, x) :: rest, k, v => if a = k then (a, v) :: rest else (a, x) :: dset rest k v

/-! ### numeric forms of a coefficient value

A value handed to the alias code is a number in the CALLER'S type.  `float(v)` reads its real value; `-v`
negates it in that type: exact for Python int/float/bool and IEEE floats, wrapping modulo 2^bits for unsigned
NumPy/torch integers (`-np.uint16(300) = 65236`), and fixed at the minimum for signed ones (`-np.int8(-128) = -128`). -/

inductive NumTy
  | exact
  | unsigned (bits : Nat)
  | signed (bits : Nat)
  deriving DecidableEq, Repr

structure TVal (R : Type) where
  x : R
  ty : NumTy

namespace TVal
def eqb (a b : R) : Bool := Num.leb a b && Num.leb b a

/-- `float(v)` -/
def toFloat (v : TVal R) : R := v.x

/-- `-v` in the value's own type -/
def neg (v : TVal R) : TVal R :=
  match v.ty with
  | .exact => ⟨-v.x, v.ty⟩
  | .unsigned b => ⟨if eqb v.x Num.zero then v.x else Num.ofNat (2 ^ b) - v.x, v.ty⟩
  | .signed b => ⟨if eqb v.x (-(Num.ofNat (2 ^ (b - 1)))) then v.x else -v.x, v.ty⟩
end TVal

end QuantemModel.Aberration
