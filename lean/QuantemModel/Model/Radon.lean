import QuantemModel.Core.Dft
/-!
C07 — model of `quantem/tomography/radon/radon.py` (radon_torch, get_fourier_filter_torch,
iradon_torch) **and** of the scikit-image functions it ports
(`skimage/transform/radon_transform.py`: radon circle mode, _get_fourier_filter, iradon
linear), written once over the numeric carrier.  Core Lean only.

Layout: the arithmetic lives in "core" functions over *accessors* (`Int → Int → R` for an
image, `Int → R` for a detector row); thin list wrappers on top are what the driver runs.
The two algorithms share the primitives that both libraries document identically
(zero-padded bilinear interpolation, the DFT, the ramp kernel); everything the two
sources write differently is modelled twice (sampling coordinates, window formulas,
linspace, the back-projection interpolant, default angles).
-/
namespace QuantemModel.Radon
open QuantemModel

/-- `floor` to an integer: the one operation the shared carrier lacks. -/
class HasFloor (R : Type) where
  floor : R → Int

instance : HasFloor Float where
  floor x := (Float.floor x).toInt64.toInt

variable {R : Type} [Num R] [HasFloor R]

def ceilI (x : R) : Int := -(HasFloor.floor (-x))
def eqb (a b : R) : Bool := Num.leb a b && Num.leb b a

/-! ## images -/

/-- pixel accessor of a row-major list image, zero outside (`padding_mode="zeros"`, `cval=0`) -/
def px (img : List (List R)) (r c : Int) : R :=
  if 0 ≤ r ∧ 0 ≤ c then (img.getD r.toNat []).getD c.toNat Num.zero else Num.zero

/-- `dist2 <= radius**2` with centre and radius `N // 2` (both libraries) -/
def inDisc (N : Nat) (r c : Int) : Bool :=
  decide (0 ≤ r ∧ r < N ∧ 0 ≤ c ∧ c < N ∧
    (c - (N / 2 : Nat)) * (c - (N / 2 : Nat)) + (r - (N / 2 : Nat)) * (r - (N / 2 : Nat))
      ≤ ((N / 2 : Nat) : Int) * (N / 2 : Nat))

/-- `images *= mask` (radon_torch) -/
def masked (f : Int → Int → R) (N : Nat) : Int → Int → R :=
  fun r c => if inDisc N r c then f r c else Num.zero

/-- the shared primitive: bilinear interpolation with zero padding.
`grid_sample(mode="bilinear", padding_mode="zeros", align_corners=True)` after
un-normalisation, and skimage `warp(order=1, mode="constant", cval=0)`. -/
def bilinear (f : Int → Int → R) (r c : R) : R :=
  let r0 := HasFloor.floor r
  let c0 := HasFloor.floor c
  let dr := r - Num.ofInt r0
  let dc := c - Num.ofInt c0
  let top := (Num.one - dc) * f r0 c0 + dc * f r0 (c0 + 1)
  let bot := (Num.one - dc) * f (r0 + 1) c0 + dc * f (r0 + 1) (c0 + 1)
  (Num.one - dr) * top + dr * bot

/-! ## Radon transform -/

/-- `torch.deg2rad` / `np.deg2rad` -/
def deg2rad (θ : R) : R := θ * (Num.pi / Num.ofNat 180)

/-- `grid = 2 * coords_rot / (N - 1) - 1` -/
def gridNorm (N : Nat) (v : R) : R := Num.two * v / Num.ofNat (N - 1) - Num.one
/-- grid_sample, align_corners=True: `((g + 1) / 2) * (size - 1)` -/
def gridUnnorm (N : Nat) (g : R) : R := (g + Num.one) / Num.two * Num.ofNat (N - 1)

/-- radon_torch: where output pixel (row y, col x) samples the image, as (row, col).
`coords = (x - c, y - c)`, `rot = [[cos, sin], [-sin, cos]]`, `coords @ rot.T + c`, then the
[-1,1] normalisation that grid_sample undoes. -/
def torchCoord (N : Nat) (θ : R) (x y : Nat) : R × R :=
  let ctr : R := Num.ofNat (N / 2)
  let X := Num.ofNat x - ctr
  let Y := Num.ofNat y - ctr
  let c := Num.cos (deg2rad θ)
  let s := Num.sin (deg2rad θ)
  let cx := c * X + s * Y + ctr
  let cy := (-s) * X + c * Y + ctr
  (gridUnnorm N (gridNorm N cy), gridUnnorm N (gridNorm N cx))

/-- skimage radon: `R = [[cos, sin, -center*(cos+sin-1)], [-sin, cos, -center*(cos-sin-1)]]`
applied to the homogeneous output coordinate `(x, y, 1)` gives input `(col, row)`. -/
def skCoord (N : Nat) (θ : R) (x y : Nat) : R × R :=
  let ctr : R := Num.ofNat (N / 2)
  let c := Num.cos (deg2rad θ)
  let s := Num.sin (deg2rad θ)
  let col := c * Num.ofNat x + s * Num.ofNat y + (-ctr) * (c + s - Num.one)
  let row := (-s) * Num.ofNat x + c * Num.ofNat y + (-ctr) * (c - s - Num.one)
  (row, col)

/-- the convention radon_torch had before the fix (`rot = [[cos, -sin], [-sin, -cos]]`):
the reflection `Y ↦ -Y` of the skimage coordinate.  Kept to state exactly what was wrong. -/
def torchCoordLegacy (N : Nat) (θ : R) (x y : Nat) : R × R :=
  let ctr : R := Num.ofNat (N / 2)
  let X := Num.ofNat x - ctr
  let Y := Num.ofNat y - ctr
  let c := Num.cos (deg2rad θ)
  let s := Num.sin (deg2rad θ)
  let cx := c * X + (-s) * Y + ctr
  let cy := (-s) * X + (-c) * Y + ctr
  (gridUnnorm N (gridNorm N cy), gridUnnorm N (gridNorm N cx))

/-- one sinogram sample of radon_torch: `sampled.sum(dim=1)[x]` for one angle -/
def radonTorchAt (f : Int → Int → R) (N : Nat) (θ : R) (x : Nat) : R :=
  Num.sum ((List.range N).map fun y =>
    bilinear (masked f N) (torchCoord N θ x y).1 (torchCoord N θ x y).2)

/-- one sinogram sample of skimage radon (circle=True): `rotated.sum(0)[x]`; the image is
used as given (skimage only warns when it is non-zero outside the circle) -/
def radonSkAt (f : Int → Int → R) (N : Nat) (θ : R) (x : Nat) : R :=
  Num.sum ((List.range N).map fun y =>
    bilinear f (skCoord N θ x y).1 (skCoord N θ x y).2)

def radonLegacyAt (f : Int → Int → R) (N : Nat) (θ : R) (x : Nat) : R :=
  Num.sum ((List.range N).map fun y =>
    bilinear (masked f N) (torchCoordLegacy N θ x y).1 (torchCoordLegacy N θ x y).2)

/-- radon_torch on one square image: `[N_angles][N]` -/
def radonTorch (img : List (List R)) (thetas : List R) : List (List R) :=
  let N := img.length
  thetas.map fun θ => (List.range N).map fun x => radonTorchAt (px img) N θ x

/-- skimage.transform.radon(circle=True), transposed to `[N_angles][N]` -/
def radonSk (img : List (List R)) (thetas : List R) : List (List R) :=
  let N := img.length
  thetas.map fun θ => (List.range N).map fun x => radonSkAt (px img) N θ x

/-- radon_torch on a batch `[B, N, N]` (every torch op in the loop acts per batch item) -/
def radonTorchBatch (imgs : List (List (List R))) (thetas : List R) : List (List (List R)) :=
  imgs.map fun img => radonTorch img thetas

/-! ## Fourier filters -/

inductive FilterName | ramp | sheppLogan | cosine | hamming | hann | none
  deriving DecidableEq, Repr

/-- the `n` array: `concat(arange(1, size/2 + 1, 2), arange(size/2 - 1, 0, -2))` (identical in
both sources, including the quirk for `size ≡ 2 mod 4`) -/
def nList (P : Nat) : List Nat :=
  let h := P / 2
  ((List.range ((h + 1) / 2)).map fun i => 2 * i + 1) ++ ((List.range (h / 2)).map fun i => h - 1 - 2 * i)

/-- `f = zeros(size); f[0] = 0.25; f[1::2] = -1 / (pi * n) ** 2` -/
def rampSpatial (P : Nat) : List R :=
  let ns := nList P
  (List.range P).map fun j =>
    if j = 0 then Num.ofRat (1 / 4)
    else if j % 2 = 1 then
      let n : R := Num.ofNat (ns.getD (j / 2) 1)
      Neg.neg (Num.one / ((Num.pi * n) * (Num.pi * n)))
    else Num.zero

/-- `2 * real(fft(f))` -/
def rampFilter (P : Nat) : List R :=
  (Dft.dft ((rampSpatial P : List R).map Cx.ofReal)).map fun z => Num.two * z.re

/-- index read by `fftshift(w)[k]` -/
def shiftIdx (P k : Nat) : Nat := (k + (P - P / 2)) % P

/-- `torch.linspace(start, end, steps)[i]`: symmetric evaluation from both ends -/
def torchLinspace (a b : R) (steps i : Nat) : R :=
  let step := (b - a) / Num.ofNat (steps - 1)
  if i < steps / 2 then a + step * Num.ofNat i else b - step * Num.ofNat (steps - i - 1)

/-- `np.linspace(start, stop, num, endpoint=False)[i] = arange(num)[i] * (delta / num) + start` -/
def npLinspaceOpen (a b : R) (num i : Nat) : R :=
  Num.ofNat i * ((b - a) / Num.ofNat num) + a

/-- `torch.hamming_window(P, periodic=False, alpha, beta)[n] = alpha - beta*cos(n * (2π/(P-1)))`
(hann: alpha = beta = 1/2) -/
def torchCosWindow (α β : R) (P n : Nat) : R :=
  if P = 1 then Num.one else           -- `if window_length == 1: return ones(1)`
  α - β * Num.cos (Num.ofNat n * (Num.pi * Num.two / Num.ofNat (P - 1)))

/-- `np.hamming(M)[j] = 0.54 + 0.46*cos(pi*n/(M-1))`, `n = arange(1-M, M, 2)[j]`
(`np.hanning`: 0.5, 0.5) -/
def npCosWindow (α β : R) (M j : Nat) : R :=
  if M = 1 then Num.one else           -- `if M == 1: return ones(1)`
  α + β * Num.cos (Num.pi * Num.ofInt (1 - (M : Int) + 2 * j) / Num.ofNat (M - 1))

/-- `sin(omega)/omega`, `omega = pi * fftfreq(size)[k]` for `k ≥ 1`; bin 0 is left alone -/
def sheppLogan (P k : Nat) : R :=
  if k = 0 then Num.one else
  let ω : R := Num.pi * (Num.ofInt (Dft.fftfreqInt P k) / Num.ofNat P)
  Num.sin ω / ω

/-- what get_fourier_filter_torch multiplies the ramp with at bin `k` (`none`: the filter is
overwritten by ones, see `fourierFilterTorch`) -/
def windowTorch (name : FilterName) (P k : Nat) : R :=
  match name with
  | .ramp => Num.one
  | .sheppLogan => sheppLogan P k
  | .cosine => -- freq = torch.linspace(0, pi, steps=size + 1)[:-1]; fftshift(sin(freq))
      Num.sin (torchLinspace Num.zero Num.pi (P + 1) (shiftIdx P k))
  | .hamming => torchCosWindow (Num.ofRat (54 / 100)) (Num.ofRat (46 / 100)) P (shiftIdx P k)
  | .hann => torchCosWindow (Num.ofRat (1 / 2)) (Num.ofRat (1 / 2)) P (shiftIdx P k)
  | .none => Num.one

/-- the same for skimage `_get_fourier_filter` -/
def windowSk (name : FilterName) (P k : Nat) : R :=
  match name with
  | .ramp => Num.one
  | .sheppLogan => sheppLogan P k
  | .cosine => -- freq = np.linspace(0, np.pi, size, endpoint=False); fftshift(np.sin(freq))
      Num.sin (npLinspaceOpen Num.zero Num.pi P (shiftIdx P k))
  | .hamming => npCosWindow (Num.ofRat (54 / 100)) (Num.ofRat (46 / 100)) P (shiftIdx P k)
  | .hann => npCosWindow (Num.ofRat (1 / 2)) (Num.ofRat (1 / 2)) P (shiftIdx P k)
  | .none => Num.one

/-- the cosine window before the fix: `torch.linspace(0, pi, steps=size)` (end point included) -/
def cosineWindowLegacy (P k : Nat) : R :=
  Num.sin (torchLinspace Num.zero Num.pi P (shiftIdx P k))

def fourierFilterWith (window : FilterName → Nat → Nat → R) (name : FilterName) (P : Nat) : List R :=
  match name with
  | .none => List.replicate P Num.one           -- fourier_filter[:] = 1
  | _ => (List.range P).zipWith (fun k rk => rk * window name P k) (rampFilter P)

def fourierFilterTorch (name : FilterName) (P : Nat) : List R := fourierFilterWith windowTorch name P
def fourierFilterSk (name : FilterName) (P : Nat) : List R := fourierFilterWith windowSk name P

def parseFilter : String → Option FilterName
  | "ramp" => some .ramp | "shepp-logan" => some .sheppLogan | "cosine" => some .cosine
  | "hamming" => some .hamming | "hann" => some .hann | "none" => some .none   -- Python `None`
  | _ => Option.none

/-- get_fourier_filter_torch with its two `raise ValueError` branches; size 0 passes the parity
check and fails in `torch.arange(size // 2 - 1, 0, -2)` = `arange(-1, 0, -2)` (RuntimeError: bounds
inconsistent with the step sign) before the filter name is looked at -/
def fourierFilterTorchE (P : Nat) (name : String) : Except String (List R) :=
  if P % 2 ≠ 0 then .error "ValueError"            -- "Filter size must be even"
  else if P = 0 then .error "RuntimeError"         -- torch.arange(-1, 0, -2)
  else match parseFilter name with
    | some n => .ok (fourierFilterTorch n P)
    | Option.none => .error "ValueError"                  -- "Unknown filter"

/-! ### scikit-image's `n` array and size check, literally

`_get_fourier_filter` builds `n` with *float* bounds (`size / 2`) and `dtype=int`:
`np.arange(1, size/2 + 1, 2, dtype=int)`, `np.arange(size/2 - 1, 0, -2, dtype=int)`.  NumPy takes
the length `ceil((stop - start)/step)` and the values `v0 + i*(v1 - v0)` with `v0 = int(start)`,
`v1 = int(start + step)` (truncation).  For even sizes this is the port's integer `n`; for odd
sizes the assignment `f[1::2] = ...` fails to broadcast (ValueError) unless `n` has one element. -/

def nListSk (P : Nat) : List Int :=
  let len1 := (P + 3) / 4                        -- ceil((size/2 + 1 - 1) / 2)
  let len2 := (P + 1) / 4                        -- max(0, ceil((size/2 - 1) / 2))
  let v0 : Int := Int.tdiv ((P : Int) - 2) 2     -- int(size/2 - 1)
  let v1 : Int := Int.tdiv ((P : Int) - 6) 2     -- int(size/2 - 1 - 2)
  ((List.range len1).map fun (i : Nat) => 2 * (i : Int) + 1)
    ++ ((List.range len2).map fun (i : Nat) => v0 + (i : Int) * (v1 - v0))

/-- `f = zeros(size); f[0] = 0.25; f[1::2] = -1 / (pi * n) ** 2` with NumPy broadcasting of a
one-element `n` -/
def rampSpatialSk (P : Nat) (ns : List Int) : List R :=
  (List.range P).map fun j =>
    if j = 0 then Num.ofRat (1 / 4)
    else if j % 2 = 1 then
      let n : R := Num.ofInt (if ns.length = 1 then ns.getD 0 1 else ns.getD (j / 2) 1)
      Neg.neg (Num.one / ((Num.pi * n) * (Num.pi * n)))
    else Num.zero

/-- skimage `_get_fourier_filter(size, name)` with its implicit error: the broadcast failure of
`f[1::2] = ...` when `len(n)` is neither `len(f[1::2]) = size // 2` nor 1.  An unknown name
falls through every `elif` and returns the ramp.  Size 0: `n` is empty (no broadcast error) and
`f[0] = 0.25` on the empty array raises IndexError. -/
def fourierFilterSkE (P : Nat) (name : String) : Except String (List R) :=
  let ns := nListSk P
  if ns.length ≠ P / 2 ∧ ns.length ≠ 1 then .error "ValueError"
  else if P = 0 then .error "IndexError"           -- `f = np.zeros(0); f[0] = 0.25`
  else
    let ramp : List R := (Dft.dft ((rampSpatialSk P ns : List R).map Cx.ofReal)).map fun z => Num.two * z.re
    let nm := (parseFilter name).getD .ramp
    match nm with
    | .none => .ok (List.replicate P Num.one)
    | _ => .ok ((List.range P).zipWith (fun k rk => rk * windowSk nm P k) ramp)

/-! ## filtered back-projection -/

/-- `max(64, 2 ** ceil(log2(2 * N)))` -/
def paddedSize (N : Nat) : Nat :=
  let rec go (p fuel : Nat) : Nat :=
    match fuel with
    | 0 => p
    | fuel + 1 => if 2 * N ≤ p then p else go (2 * p) fuel
  go 64 (2 * N)

/-- `int(ceil(sqrt(2) * N))` (both `_sinogram_circle_to_square` and the port) -/
def diagSize (N : Nat) : Nat := (ceilI (Num.sqrt (Num.two : R) * Num.ofNat N)).toNat

/-- pad one detector row from `N` to the diagonal: `pad_before = D // 2 - N // 2` -/
def circleToSquare (D N : Nat) (row : List R) : List R :=
  let pb := D / 2 - N / 2
  List.replicate pb Num.zero ++ row ++ List.replicate (D - N - pb) Num.zero

/-- `real(ifft(fft(pad(row, P)) * filter))[:N]` -/
def filterRow (filt : List R) (P N : Nat) (row : List R) : List R :=
  let padded := (row ++ List.replicate (P - N) Num.zero).map Cx.ofReal
  let spec := Dft.dft padded
  let prod := List.zipWith (fun (z : Cx R) (h : R) => Cx.smul h z) spec filt
  ((Dft.idft prod).map fun z => z.re).take N

/-- `torch.clamp(i, lo, hi) = min(max(i, lo), hi)` -/
def clampI (i lo hi : Int) : Int := min (max i lo) hi

/-- iradon_torch's interpolant at detector position `u = t + N // 2`:
`t0 = floor(u).clamp(0, N-2); w = u - t0; (1-w)*v[t0] + w*v[t0+1]`, times the
in-detector mask `(u >= 0) & (u <= N-1)` -/
def interpTorch (N : Nat) (v : Int → R) (u : R) : R :=
  let t0 := clampI (HasFloor.floor u) 0 ((N : Int) - 2)
  let w := u - Num.ofInt t0
  let proj := (Num.one - w) * v t0 + w * v (t0 + 1)
  proj * (if Num.leb Num.zero u && Num.leb u (Num.ofInt ((N : Int) - 1)) then Num.one else Num.zero)

/-- the interpolant before the fix: no mask, i.e. linear extrapolation from the clamped pair -/
def interpTorchLegacy (N : Nat) (v : Int → R) (u : R) : R :=
  let t0 := clampI (HasFloor.floor u) 0 ((N : Int) - 2)
  let w := u - Num.ofInt t0
  (Num.one - w) * v t0 + w * v (t0 + 1)

/-- `np.interp(t, xp, fp, left=0, right=0)` with `xp = arange(N) - N // 2` (NumPy's
`arr_interp`: ends, binary search for `xp[j] <= t < xp[j+1]`, last-knot and exact-knot
shortcuts, slope form) -/
def npInterp (N : Nat) (fp : Int → R) (t : R) : R :=
  let x0 : Int := -((N / 2 : Nat) : Int)
  let xl : Int := (N : Int) - 1 + x0
  if Num.ltb t (Num.ofInt x0) then Num.zero          -- left
  else if Num.ltb (Num.ofInt xl) t then Num.zero     -- right
  else
    let j : Int := HasFloor.floor t - x0               -- xp[j] <= t < xp[j+1]
    if j = (N : Int) - 1 then fp j
    else if eqb (Num.ofInt (j + x0)) t then fp j
    else
      let slope := (fp (j + 1) - fp j) / (Num.ofInt (j + 1 + x0) - Num.ofInt (j + x0))
      slope * (t - Num.ofInt (j + x0)) + fp j

def rowAcc (row : List R) : Int → R := fun i => row.getD i.toNat Num.zero

/-- detector coordinate of output pixel (row r, col c): `t = x*cos - y*sin` with
`x = c - radius`, `y = r - radius` (skimage: `ypr*cos - xpr*sin`, `xpr` the row offset) -/
def detT (radius : Nat) (θ : R) (r c : Nat) : R :=
  let x : R := Num.ofInt ((c : Int) - radius)
  let y : R := Num.ofInt ((r : Int) - radius)
  x * Num.cos (deg2rad θ) - y * Num.sin (deg2rad θ)

/-- `x**2 + y**2 > radius**2` -/
def outsideCircle (radius r c : Nat) : Bool :=
  decide ((((c : Int) - radius) * ((c : Int) - radius) + ((r : Int) - radius) * ((r : Int) - radius))
    > (radius : Int) * radius)

/-- default output size: `N` in circle mode, else `int(floor(sqrt(N**2 / 2.0)))` -/
def outputSize (N : Nat) (circle : Bool) : Nat :=
  if circle then N else (HasFloor.floor (Num.sqrt (Num.ofRat ((N * N : Nat) / 2) : R))).toNat

/-- the value accumulated at output pixel (r, c): `recon += interp(filtered_i, t)` over the
angles; a row is an accessor of its filtered detector values paired with its angle -/
def backprojAt (interp : Nat → (Int → R) → R → R) (D : Nat) (rows : List ((Int → R) × R))
    (radius r c : Nat) : R :=
  Num.sum (rows.map fun p => interp D p.1 (detT radius p.2 r c))

/-- back-projection of already filtered rows, common skeleton; `interp D row t` gets the
detector coordinate `t` relative to the rotation axis -/
def backproject (interp : Nat → (Int → R) → R → R) (D : Nat) (filtered : List (List R)) (thetas : List R)
    (out : Nat) (circle : Bool) : List (List R) :=
  let radius := out / 2
  let A := thetas.length
  let rows := (List.zip filtered thetas).map fun p => (rowAcc p.1, p.2)
  (List.range out).map fun r => (List.range out).map fun c =>
    let acc := backprojAt interp D rows radius r c
    let acc := if circle && outsideCircle radius r c then Num.zero else acc   -- recon[:, mask] = 0
    acc * (Num.pi / Num.ofNat (2 * A))                                       -- recon *= pi / (2 * A)

/-- iradon_torch(sinograms[b], theta, output_size=out, filter_name, circle) for one sinogram
`[A][N]` and an explicit output size.  `thetas = none` is `theta=None`: `arange(A) * (180.0 / A)`. -/
def iradonTorchOut (sino : List (List R)) (thetas : Option (List R)) (name : FilterName) (circle : Bool) (out : Nat) :
    List (List R) :=
  let A := sino.length
  let N := (sino.headD []).length
  let th := thetas.getD ((List.range A).map fun i => Num.ofNat i * (Num.ofNat 180 / Num.ofNat A))
  -- circle: pad the detector to the diagonal (F.pad(sinograms, (pad_before, diagonal - N - pad_before)))
  let D := if circle then diagSize (R := R) N else N
  let rows := if circle then sino.map (circleToSquare D N) else sino
  let P := paddedSize D
  let filt := fourierFilterTorch name P
  let filtered := rows.map (filterRow filt P D)
  -- t_idx = t + (N // 2); radius = output_size // 2 (also the radius of the circle mask)
  backproject (fun D v t => interpTorch D v (t + Num.ofNat (D / 2))) D filtered th out circle

/-- `output_size=None`: the default output size -/
def iradonTorch (sino : List (List R)) (thetas : Option (List R)) (name : FilterName) (circle : Bool) :
    List (List R) :=
  iradonTorchOut sino thetas name circle (outputSize (R := R) (sino.headD []).length circle)

/-- skimage.transform.iradon(radon_image, theta, output_size=out, filter_name,
interpolation="linear", circle) with `radon_image = sino.T`.  `thetas = none`:
`np.linspace(0, 180, A, endpoint=False)`. -/
def iradonSkOut (sino : List (List R)) (thetas : Option (List R)) (name : FilterName) (circle : Bool) (out : Nat) :
    List (List R) :=
  let A := sino.length
  let N := (sino.headD []).length
  let th := thetas.getD ((List.range A).map fun i => npLinspaceOpen Num.zero (Num.ofNat 180) A i)
  let D := if circle then diagSize (R := R) N else N      -- _sinogram_circle_to_square
  let rows := if circle then sino.map (circleToSquare D N) else sino
  let P := paddedSize D
  let filt := fourierFilterSk name P
  let filtered := rows.map (filterRow filt P D)
  backproject npInterp D filtered th out circle

def iradonSk (sino : List (List R)) (thetas : Option (List R)) (name : FilterName) (circle : Bool) :
    List (List R) :=
  iradonSkOut sino thetas name circle (outputSize (R := R) (sino.headD []).length circle)

def iradonTorchBatch (sinos : List (List (List R))) (thetas : Option (List R)) (name : FilterName) (circle : Bool) :
    List (List (List R)) :=
  sinos.map fun s => iradonTorch s thetas name circle

end QuantemModel.Radon
