import QuantemModel.Model.SaveFront
import QuantemModel.Model.SaveInstall
/-
C08, growth round 6 — whole histories of COMPLETE `save(...)` calls (front end + protocol) onto ANY
number of targets that are alive at once, and the bridge between the step-level protocol model
(`SaveFs`: `removeOld`, `replace`, `discard` act on an abstract `Content`) and the kind-level
model of `_install()` / `_discard()` (`SaveInstall`: what the helpers do to a file / directory /
symbolic link).  Core Lean only.
-/
namespace QuantemModel.SaveFront
open QuantemModel.SaveFs

/-- the complete call returned normally -/
def succeededFull (name : P → String) (fs : Fs) (k : FullCall) : Bool :=
  match saveFull name k fs with
  | .raisedBeforeAnyEffect _ => false
  | .ran _ raised => !raised

/-- the key of the filesystem a complete call names (whatever else happens) -/
def FullCall.key (name : P → String) (k : FullCall) : String := name (targetOf k.path k.store)

/-- (target key, id) of the calls of a history that returned normally -/
def succeededFullIds (name : P → String) : Fs → List FullCall → List (String × Nat)
  | _, [] => []
  | fs, k :: rest =>
      (if succeededFull name fs k then [(k.key name, k.id)] else []) ++
        succeededFullIds name (applyFull name fs k) rest

/-- the simple abstract specification of one complete call: a map update.  A call that returns
normally binds its resolved target to its own complete object; a call that raises (rejected by
the front end, or struck by a fault) leaves the target as it was — or, only when the fault
strikes inside `_install()` after the old target was removed, absent. `lost` says which. -/
def specApply (T : String) (id : Nat) (ok lost : Bool) (fs : Fs) : Fs :=
  if ok then fsSet fs T (.complete id) else if lost then fsErase fs T else fs

end QuantemModel.SaveFront

namespace QuantemModel.SaveInstall
open QuantemModel.SaveFs

/-- the kind of directory entry that holds a `Content` under a kind assignment `κ`
(`none` = no entry) -/
def absEnt (κ : Content → Kind) : Option Content → Ent
  | .none => .none
  | some x => some (κ x)

end QuantemModel.SaveInstall
