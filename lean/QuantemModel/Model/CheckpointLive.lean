/-
C05 (growth 6) — the TRANSIENT `.grad` tensors of a live reconstruction.  Core Lean only.

`Model/Checkpoint.lean` models one iteration of `Ptychography.reconstruct` without `.grad`: the optimizer of a model
consumes the gradient of the CURRENT forward/backward pass (`Step.grad`).  The real loop is

    for batch_indices in batcher:            # full batch: one pass
        self.zero_grad_all()                 # ptychography_opt.py: optimizer.zero_grad() of every model THAT HAS AN OPTIMIZER
        … forward …
        self.backward(batch_loss, …)         # loss.backward(): torch ACCUMULATES into .grad of every leaf that requires grad
        self.step_optimizers()               # optimizer.step() reads .grad of its param group

so a model WITHOUT optimizer (staged optimisation: object first, probe later) keeps accumulating stale gradients that
no `zero_grad` ever clears, and `.grad` is never part of a checkpoint (`nn.Parameter.__reduce_ex__` drops it): after
`from_file` / `clone` every `.grad` is `None`, in the uninterrupted object it is not.  `liveIter` is the loop as it is,
`liveIterZeroAfter` the variant "zero_grad after the step, none before backward" (seeded change C05e-3).
-/
import QuantemModel.Model.CheckpointSession

namespace QuantemModel.Checkpoint

/-- `.grad` of every optimizable tensor, per model key; `none`: `.grad is None` -/
abbrev Grads (γ : Type) := String → PId → Option γ

/-- after `from_file` / `clone` (and on a fresh object): every `.grad is None` -/
def Grads.none {γ : Type} : Grads γ := fun _ _ => Option.none

/-- `loss.backward()` on one leaf: `.grad is None` → the new gradient; otherwise `.grad += new`; a leaf the loss does
not reach keeps what it had -/
def accum {γ : Type} (add : γ → γ → γ) : Option γ → Option γ → Option γ
  | Option.none, f => f
  | some s, Option.none => some s
  | some s, some f => some (add s f)

/-- `zero_optimizer_grad()` of one model: `if self._optimizer is not None: self._optimizer.zero_grad()`
(`set_to_none=True`) over the optimizer's param group; a model without optimizer is left alone -/
def zeroModel {θ μ σ γ : Type} (key : String) (m : ModelSt θ μ σ) (G : Grads γ) : Grads γ :=
  match m.opt with
  | Option.none => G
  | some o => fun k p => if k = key ∧ o.params.contains p = true then Option.none else G k p

/-- `zero_grad_all()` -/
def zeroGradAll {θ μ σ γ : Type} (r : Recon θ μ σ) (G : Grads γ) : Grads γ :=
  zeroModel "dataset" r.dataset (zeroModel "probe" r.probe (zeroModel "object" r.object G))

/-- `loss.backward()`: accumulation into every leaf -/
def backwardAcc {θ γ μ σ : Type} (S : Step θ γ μ σ) (add : γ → γ → γ) (v : View θ) (G : Grads γ) : Grads γ :=
  fun k p => accum add (G k p) (S.grad v k p)

/-- the step function whose optimizers read the stored `.grad` instead of the gradient of this pass -/
def readGrads {θ γ μ σ : Type} (S : Step θ γ μ σ) (G : Grads γ) : Step θ γ μ σ :=
  { S with grad := fun _ k p => G k p }

/-- the rest of one iteration once `.grad` is what it is: `step_optimizers`, `_record_iter`, `step_schedulers`
(the loss is the one of this pass) -/
def finishIter {θ γ μ σ : Type} (S : Step θ γ μ σ) (G : Grads γ) (r : Recon θ μ σ) : Recon θ μ σ :=
  let v := r.view
  let ℓ := S.loss v
  let S' := readGrads S G
  let o := stepModel S' v "object" r.object
  let p := stepModel S' v "probe" r.probe
  let d := stepModel S' v "dataset" r.dataset
  { r with
    object := schedModel S ℓ o, probe := schedModel S ℓ p, dataset := schedModel S ℓ d,
    book := recordIter (optLrs [("object", o), ("probe", p), ("dataset", d)]) ℓ r.book }

/-- one iteration of the loop as the code is: zero_grad_all, backward (accumulating), step, record, schedulers -/
def liveIter {θ γ μ σ : Type} (S : Step θ γ μ σ) (add : γ → γ → γ) (x : Recon θ μ σ × Grads γ) : Recon θ μ σ × Grads γ :=
  let G1 := backwardAcc S add x.1.view (zeroGradAll x.1 x.2)
  (finishIter S G1 x.1, G1)

/-- the variant of seeded change C05e-3: no `zero_grad` before `backward`, `zero_grad` after the step -/
def liveIterZeroAfter {θ γ μ σ : Type} (S : Step θ γ μ σ) (add : γ → γ → γ) (x : Recon θ μ σ × Grads γ) :
    Recon θ μ σ × Grads γ :=
  let G1 := backwardAcc S add x.1.view x.2
  let r1 := finishIter S G1 x.1
  (r1, zeroGradAll r1 G1)

-- (`iterN` — the `for a0 in range(num_iters)` loop — is the one of Model/CheckpointSession.lean)

end QuantemModel.Checkpoint
