import QuantemModel.Model.Dataset
/-
C06 (growth round 5) — the ARGUMENT layer of `Dataset.bin / crop / pad / fourier_resample`
(dataset.py): every public form of `axes`, `bin_factors`, `reducer`, `out_shape`, `factors`, the
`mode` keyword `pad` hands on to `np.pad`, the keyword DEFAULTS of the signatures (structure field
defaults), and histories of calls on ONE object in which some calls raise.  Core Lean only; the
normalised arguments are handed to the operations of Model/Dataset.lean (imported read-only).
Branch comments quote the Python.
-/
namespace QuantemModel.ResampleArgs
open QuantemModel.Nd QuantemModel.Resample QuantemModel.Dataset

/-- a scalar Python argument, as far as the anchored code inspects it -/
inductive Sc
  | none                 -- `None`
  | bool (b : Bool)      -- `True` / `False` (an `int`)
  | int (i : Int)
  | float (q : Rat)      -- a finite Python float (`np.float64` is a subclass)
  | npInt (i : Int)      -- NumPy integer scalar: `numbers.Integral`, but not an `int`
  | str (s : String)
  | other                -- any other object (not a number, not iterable)
  deriving DecidableEq, Repr, Inhabited

/-- an argument: a scalar, a tuple or a list of scalars -/
inductive Py | sc (x : Sc) | tuple (l : List Sc) | list (l : List Sc)
  deriving Repr, Inhabited

/-- `isinstance(x, int | float)` -/
def Sc.isIntOrFloat : Sc → Bool
  | .bool _ => true | .int _ => true | .float _ => true | _ => false

/-- `isinstance(x, numbers.Integral)` -/
def Sc.isIntegral : Sc → Bool
  | .bool _ => true | .int _ => true | .npInt _ => true | _ => false

/-- `int(q)` on a float: truncation towards zero -/
def truncRat (q : Rat) : Int := if 0 ≤ q then q.floor else -((-q).floor)

/-- `int(x)` -/
def Sc.toInt : Sc → Except Err Int
  | .bool b => .ok (if b then 1 else 0)
  | .int i => .ok i
  | .npInt i => .ok i
  | .float q => .ok (truncRat q)
  | .str s => match s.toNat? with
    | Option.some n => .ok (n : Int)
    | Option.none => .error .value     -- invalid literal for int()
  | .none => .error .type
  | .other => .error .type

/-- `float(x)` -/
def Sc.toFloat : Sc → Except Err Rat
  | .bool b => .ok (if b then 1 else 0)
  | .int i => .ok (i : Rat)
  | .npInt i => .ok (i : Rat)
  | .float q => .ok q
  | .str s => match s.toNat? with
    | Option.some n => .ok (n : Rat)
    | Option.none => .error .value     -- could not convert string to float
  | .none => .error .type
  | .other => .error .type

/-- `for x in arg`: tuples and lists give their items, a string its characters, any other
scalar is not iterable (TypeError) -/
def Py.items : Py → Except Err (List Sc)
  | .tuple l => .ok l
  | .list l => .ok l
  | .sc (.str s) => .ok (s.toList.map fun c => Sc.str c.toString)
  | .sc _ => .error .type

/-- one entry of `axes`: `normalize_axis_index(int(ax), self.ndim)` -/
def axisOf (nd : Nat) (ax : Sc) : Except Err Nat :=
  match ax.toInt with
  | .error e => .error e
  | .ok i => normPos nd i

/-- `Dataset._normalize_axes` -/
def normalizeAxes (nd : Nat) (axes : Py) : Except Err (List Nat) :=
  match axes with
  | .sc .none => .ok (List.range nd)                       -- if axes is None: return tuple(range(self.ndim))
  | .sc x =>
      if x.isIntOrFloat then mapMExcept (axisOf nd) [x]     -- if isinstance(axes, int | float): axes = (axes,)
      else match (Py.sc x).items with                       -- tuple(… for ax in axes)
        | .error e => .error e
        | .ok l => mapMExcept (axisOf nd) l
  | a => match a.items with
    | .error e => .error e
    | .ok l => mapMExcept (axisOf nd) l

def axesArg (ax : List Nat) : AxesArg := .many (ax.map Int.ofNat)

/-! ### bin -/

/-- `ds.bin(bin_factors, axes=None, modify_in_place=False, reducer="sum")` -/
structure BinCall where
  factors : Py
  axes : Py := .sc .none
  inplace : Bool := false
  reducer : Sc := .str "sum"
  deriving Repr, Inhabited

/-- `str(reducer).lower()` in `("sum", "mean")`: `some true` = mean, `none` = ValueError.
`str()` of a non-string (`None`, a number) is never one of the two names. -/
def reducerOf : Sc → Option Bool
  | .str s => if s.toLower = "sum" then some false else if s.toLower = "mean" then some true else none
  | _ => none

/-- the three `isinstance` branches on `bin_factors` -/
def facArgOf : Py → FacArg
  | .sc x =>                                   -- isinstance(bin_factors, numbers.Integral) else TypeError
      if x.isIntegral then (match x.toInt with | .ok i => .one i | .error _ => .badType) else .badType
  | .tuple l => .many (l.map fun e => if e.isIntegral then (match e.toInt with | .ok i => some i | .error _ => none) else none)
  | .list l => .many (l.map fun e => if e.isIntegral then (match e.toInt with | .ok i => some i | .error _ => none) else none)

def callBin (d : Ds) (c : BinCall) : Except Err (Ds × Option Ds) :=
  match reducerOf c.reducer with
  | none => .error .value                      -- "reducer must be 'sum' or 'mean'" (first statement)
  | some mean =>
    match normalizeAxes d.ndim c.axes with     -- axes = self._normalize_axes(axes)
    | .error e => .error e
    | .ok ax => Dataset.bin d (facArgOf c.factors) (axesArg ax) mean false c.inplace

/-! ### crop -/

/-- `ds.crop(crop_widths, axes=None, modify_in_place=False)` -/
structure CropCall where
  widths : List (Int × Int)
  axes : Py := .sc .none
  inplace : Bool := false
  deriving Repr, Inhabited

def callCrop (d : Ds) (c : CropCall) : Except Err (Ds × Option Ds) :=
  match c.axes with
  | .sc .none => Dataset.crop d c.widths .all c.inplace               -- if axes is None
  | .sc x =>
      match normalizeAxes d.ndim (.sc x) with
      | .error e => .error e
      | .ok ax =>
        if x.isIntOrFloat then
          -- elif isinstance(axes, int | float): crop_widths = (crop_widths[0],)
          Dataset.crop d c.widths (.one (Int.ofNat (ax.headD 0))) c.inplace
        else Dataset.crop d c.widths (axesArg ax) c.inplace
  | a =>
      match normalizeAxes d.ndim a with
      | .error e => .error e
      | .ok ax => Dataset.crop d c.widths (axesArg ax) c.inplace

/-! ### fourier_resample -/

/-- `ds.fourier_resample(out_shape=None, factors=None, axes=None, modify_in_place=False)` -/
structure RsCall where
  outShape : Py := .sc .none
  factors : Py := .sc .none
  axes : Py := .sc .none
  inplace : Bool := false
  deriving Repr, Inhabited

def isNone : Py → Bool
  | .sc .none => true | _ => false

/-- resolution of `out_shape` / `factors` up to the conversions the code performs itself -/
def rsArgOf (naxes : Nat) (outShape factors : Py) : Except Err RsArg :=
  if isNone outShape && isNone factors then .ok .neither     -- (out_shape is None) == (factors is None)
  else if !isNone outShape && !isNone factors then .ok .both
  else if !isNone factors then
    match factors with
    | .sc x =>
        if x.isIntOrFloat then                                -- factors = (float(factors),) * len(axes)
          match x.toFloat with
          | .error e => .error e
          | .ok q => .ok (.factor1 q)
        else match (Py.sc x).items with                       -- tuple(float(f) for f in factors)
          | .error e => .error e
          | .ok l => match mapMExcept Sc.toFloat l with
            | .error e => .error e
            | .ok qs => .ok (.factors qs)
    | f => match f.items with
      | .error e => .error e
      | .ok l => match mapMExcept Sc.toFloat l with           -- conversion first, length check afterwards
        | .error e => .error e
        | .ok qs => .ok (.factors qs)
  else
    match outShape with
    | .sc (.str s) =>                                         -- a string has a length; int(ch) per character
        if s.length ≠ naxes then .ok (.outShape (List.replicate s.length 1))
        else match mapMExcept Sc.toInt (s.toList.map fun c => Sc.str c.toString) with
          | .error e => .error e
          | .ok o => .ok (.outShape o)
    | .sc _ => .error .type                                   -- len(out_shape) of a number
    | .tuple l =>
        if l.length ≠ naxes then .ok (.outShape (List.replicate l.length 1))   -- length check first (ValueError) …
        else match mapMExcept Sc.toInt l with                                   -- … then int(nl)
          | .error e => .error e
          | .ok o => .ok (.outShape o)
    | .list l =>
        if l.length ≠ naxes then .ok (.outShape (List.replicate l.length 1))
        else match mapMExcept Sc.toInt l with
          | .error e => .error e
          | .ok o => .ok (.outShape o)

def callResample (d : Ds) (c : RsCall) : Except Err (Ds × Option Ds) :=
  match normalizeAxes d.ndim c.axes with
  | .error e => .error e
  | .ok ax =>
    match rsArgOf ax.length c.outShape c.factors with
    | .error e => .error e
    | .ok arg => Dataset.resample d arg (axesArg ax) c.inplace

/-! ### pad with a `mode` handed to `np.pad` -/

/-- `mode=` of `ds.pad(..., **kwargs)`: `"constant"` (with a scalar `constant_values`) or one of
the modes that read the padding from the array -/
inductive PadMode | constant (c : Val) | rule (r : PadRule)
  deriving Repr, Inhabited

def padDataMode (d : Ds) (w : List (Nat × Nat)) : PadMode → Option (List Val)
  | .constant c => d.data.map fun dat => (padNd c ⟨d.shape, dat⟩ w).data
  | .rule r => d.data.map fun dat => (padNdRule r (⟨d.shape, dat⟩ : Arr Val) w).data

/-- `Dataset.pad(pad_width | output_shape, modify_in_place, mode=…)`: as `Dataset.pad` with the
padding filled by the mode; NumPy refuses to extend an empty axis in the non-constant modes -/
def callPad (d : Ds) (arg : PadArg) (mode : PadMode) (inplace : Bool) : Except Err (Ds × Option Ds) :=
  match padWidthsOf d.shape arg with
  | .error e => .error e
  | .ok w =>
    let grows := (List.zipWith (fun (n : Nat) (p : Nat × Nat) => n == 0 && (p.1 + p.2 != 0)) d.shape w).any id
    match mode, grows with
    | .rule _, true => .error .value           -- "can't extend empty axis … using modes other than 'constant' or 'empty'"
    | _, _ =>
      let shape' := padShape d.shape w
      let data' := padDataMode d w mode
      if inplace then .ok ({ d with shape := shape', data := data' }, none)
      else match copy d with
        | .error e => .error e
        | .ok c => match setArray c shape' data' d.kind with
          | .error e => .error e
          | .ok r => .ok (d, some r)

/-! ### histories of calls on one object -/

inductive Call
  | bin (c : BinCall) | crop (c : CropCall) | resample (c : RsCall)
  | pad (arg : PadArg) (mode : PadMode) (inplace : Bool)
  deriving Repr, Inhabited

def call (d : Ds) : Call → Except Err (Ds × Option Ds)
  | .bin c => callBin d c
  | .crop c => callCrop d c
  | .resample c => callResample d c
  | .pad a m ip => callPad d a m ip

/-- the object after one call, as Python leaves it: every write of the four methods comes after
the last statement that can raise, so a call that raises leaves the object as it was; a copying
call leaves it as well -/
def stepObj (d : Ds) (c : Call) : Ds :=
  match call d c with
  | .error _ => d
  | .ok (d', _) => d'

def runObj (d : Ds) (cs : List Call) : Ds := cs.foldl stepObj d

def raises (d : Ds) (c : Call) : Bool :=
  match call d c with
  | .error _ => true
  | .ok _ => false

/-- the calls of a history that returned normally (the test follows the state of the object) -/
def okCalls : Ds → List Call → List Call
  | _, [] => []
  | d, c :: cs => if raises d c then okCalls d cs else c :: okCalls (stepObj d c) cs

end QuantemModel.ResampleArgs
