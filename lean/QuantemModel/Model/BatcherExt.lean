/-
Extension of the model of the mini-batch scheduling code (property C09), growth round 5.  Core Lean only.

  * `SimpleBatcher` as Python sees it: `batch_size=None`, ANY integer batch size (0 and negative values
    reach `range(0, n, b)` / `ceil(n / b)` / the `len()` builtin), the `shuffle` flag, the `rng` setter
    (src/quantem/diffractive_imaging/ptycho_utils.py)
  * `Ptychography.reconstruct` when it does NOT return: a call interrupted by an exception that comes out
    of a callee in the middle of an epoch (training batch `j` of iteration `i`, validation batch `k`, after
    the iteration was recorded) and the `ZeroDivisionError` of `total_loss / len(batcher)` when the training
    set is empty (src/quantem/diffractive_imaging/ptychography.py)
  * `RNGMixin.rng` setter for every form of seed (`int`, `bool`, `np.random.Generator`, `torch.Generator`),
    `_update_torch_rng` (`seed % 2**32`) and `_reset_rng` (`is not None`, so seed 0 is a seed)
    (src/quantem/core/utils/rng.py)
-/
import QuantemModel.Model.Batcher

namespace QuantemModel.Batcher

/-! ### `SimpleBatcher` with Python's integers -/

inductive PyErr where
  | valueError
  | zeroDivisionError
  | typeError
  deriving Repr, DecidableEq

/-- `self.batch_size = batch_size if batch_size is not None else num` -/
def effBatch (n : Nat) : Option Int → Int
  | none => Int.ofNat n
  | some b => b

/-- `for i in range(0, len(order), b): yield order[i : i + b]` for any Python int `b`:
`range` rejects a zero step, a negative step gives the empty range. -/
def iterPy (b : Int) (order : List Nat) : Except PyErr (List (List Nat)) :=
  if b = 0 then .error .valueError            -- ValueError: range() arg 3 must not be zero
  else if b < 0 then .ok []                   -- range(0, n, b) is empty
  else .ok (chunks b.toNat order)

/-- `int(ceil(m / b))` for `b ≠ 0` (true division, then ceiling): `⌈m/b⌉` for `b > 0`, `-⌊m/|b|⌋` for `b < 0`. -/
def ceilDivPy (m : Nat) (b : Int) : Int :=
  if b > 0 then Int.ofNat (ceilDiv m b.toNat) else - Int.ofNat (m / b.natAbs)

/-- `len(batcher)`: `SimpleBatcher.__len__` returns `int(ceil(len(train) / b))`, and the `len()` builtin
refuses a negative result. -/
def lenPy (b : Int) (train : List Nat) : Except PyErr Nat :=
  if b = 0 then .error .zeroDivisionError     -- len(train) / 0
  else
    let v := ceilDivPy train.length b
    if v < 0 then .error .valueError          -- ValueError: __len__() should return >= 0
    else .ok v.toNat

/-- `SimpleBatcher.iter_val` for any Python int `b` -/
def iterValPy (b : Int) (val : List Nat) : Except PyErr (List (List Nat)) :=
  if val.length == 0 then .ok [] else iterPy b val

/-- `SimpleBatcher.val_len()` — a plain method, so a negative value is returned as it is -/
def valLenPy (b : Int) (val : List Nat) : Except PyErr Int :=
  if val.length > 0 then
    (if b = 0 then .error .zeroDivisionError else .ok (ceilDivPy val.length b))
  else .ok 0

/-- `train_order = self.rng.permutation(self.train_indices) if self.shuffle else self.train_indices`:
the order of an epoch and the generator afterwards (`shuffle=False` draws nothing). -/
def epochOrder (draw : Gen → List Nat → List Nat) (shuffle : Bool) (g : Gen) (train : List Nat) : List Nat × Gen :=
  if shuffle then (draw g train, { seed := g.seed, pos := g.pos + 1 }) else (train, g)

/-- `SimpleBatcher.rng` setter: `None` → OS entropy; `int`/`float` → `np.random.default_rng(v)` (NumPy rejects
floats with TypeError and negative ints with ValueError); anything that is not a Generator → TypeError. -/
def batcherRngCheck : CfgVal → Except PyErr Unit
  | .none => .ok ()
  | .int k => if k ≥ 0 then .ok () else .error .valueError
  | .float _ => .error .typeError
  | .str _ => .error .typeError
  | .other => .error .typeError

/-! ### every form of seed (`RNGMixin.rng` setter, `_update_torch_rng`, `_reset_rng`) -/

/-- what can be handed to `rng=` -/
inductive SeedForm where
  | none                                  -- unseeded
  | int (k : Int)                         -- a Python int (bools are ints: True = 1)
  | npGen (entropy : Nat) (consumed : Nat) -- np.random.Generator built from `entropy`, `consumed` draws already made
  | torchGen (seed : Nat)                 -- torch.Generator: `initial_seed()`
  | float                                 -- default_rng(1.5) → TypeError
  | other                                 -- → TypeError
  deriving Repr

/-- the state of the mixin: stored seed, NumPy generator, seed of the torch generator (None = non-deterministic) -/
structure RngFull where
  rng : RngState
  torchSeed : Option Nat
  deriving Repr, DecidableEq

/-- `RNGMixin.rng = v`; `none` = the call raised and nothing was stored. -/
def rngSet (entropy : Nat) : SeedForm → Option RngFull
  | .none => some { rng := { rngSeed := Option.none, gen := { seed := entropy, pos := 0 } }, torchSeed := Option.none }
  | .int k =>
      if k ≥ 0 then some { rng := { rngSeed := some k.toNat, gen := { seed := k.toNat, pos := 0 } },
                           torchSeed := some (k.toNat % 2 ^ 32) }
      else Option.none
  | .npGen e c =>                          -- `_rng_seed = entropy`, the generator object itself is kept
      some { rng := { rngSeed := some e, gen := { seed := e, pos := c } }, torchSeed := some (e % 2 ^ 32) }
  | .torchGen s =>                         -- `_rng_seed = initial_seed()`, `default_rng(_rng_seed)`
      some { rng := { rngSeed := some s, gen := { seed := s, pos := 0 } }, torchSeed := some (s % 2 ^ 32) }
  | .float => Option.none
  | .other => Option.none

/-- `_reset_rng`: `if self._rng_seed is not None: self.rng = self._rng_seed` -/
def resetRngFull (r : RngFull) : RngFull :=
  match r.rng.rngSeed with
  | some k => { rng := { rngSeed := some k, gen := { seed := k, pos := 0 } }, torchSeed := some (k % 2 ^ 32) }
  | Option.none => r

/-! ### `reconstruct` interrupted by an exception -/

/-- where, inside one iteration, the exception leaves the loop -/
inductive FaultKind where
  | train (j : Nat)      -- while training batch `j` (0-based) is processed: batches `0 … j-1` were completed
  | val (k : Nat)        -- during the validation pass, at validation batch `k`
  | afterRecord          -- after `_record_iter` (scheduler step, snapshot, logger)
  deriving Repr, DecidableEq

structure Fault where
  iter : Nat
  kind : FaultKind
  deriving Repr, DecidableEq

section Faulty
variable {P R : Type} [Num R]
variable (draw : Gen → List Nat → List Nat)
variable (stepFn : P → List Nat → P × R) (valFn : P → List Nat → R)

/-- the iteration in which the exception is raised: the state that is left behind, and whether the exception
fired at all (a position beyond the batches of the iteration is never reached: the iteration completes).
`total_loss` is a local of `reconstruct`, so the losses of the completed batches of the interrupted epoch are
dropped with the frame; `_iter_val_losses` / `_iter_losses` are appended only after the validation pass. -/
def iterStepFault (b : Nat) (sp : Split) (st : LoopState P R) : FaultKind → LoopState P R × Bool
  | .train j =>
      let batches := epoch b (draw st.gen sp.train)
      if j < batches.length then
        ({ st with gen := { seed := st.gen.seed, pos := st.gen.pos + 1 },
                   params := (runBatches stepFn (batches.take j) st.params).1,
                   schedule := st.schedule ++ [batches.take (j + 1)] }, true)
      else (iterStep draw stepFn valFn b sp st, false)
  | .val k =>
      let batches := epoch b (draw st.gen sp.train)
      if k < (iterVal b sp.val).length then
        ({ st with gen := { seed := st.gen.seed, pos := st.gen.pos + 1 },
                   params := (runBatches stepFn batches st.params).1,
                   schedule := st.schedule ++ [batches] }, true)
      else (iterStep draw stepFn valFn b sp st, false)
  | .afterRecord => (iterStep draw stepFn valFn b sp st, true)

/-- the loop `for a0 in range(num_iters):` with an optional fault -/
def iterateF (b : Nat) (sp : Split) (numIters : Nat) (fault : Option Fault) (st : LoopState P R) :
    LoopState P R × Bool :=
  if sp.train = [] ∧ 0 < numIters then
    -- the batch loop of the first iteration yields nothing (the permutation of the empty training set is
    -- still drawn) and `total_loss / len(batcher)` raises ZeroDivisionError
    ({ st with gen := { seed := st.gen.seed, pos := st.gen.pos + 1 }, schedule := st.schedule ++ [[]] }, true)
  else
    match fault with
    | none => (iterate draw stepFn valFn b sp numIters st, false)
    | some f =>
        if f.iter < numIters then
          let r := iterStepFault draw stepFn valFn b sp (iterate draw stepFn valFn b sp f.iter st) f.kind
          if r.2 then r else (iterate draw stepFn valFn b sp (numIters - f.iter - 1) r.1, false)
        else (iterate draw stepFn valFn b sp numIters st, false)

/-- `Ptychography.reconstruct` with an optional fault: new state, the batches yielded, whether the call raised -/
def reconstructF (cfg : RunCfg) (fault : Option Fault) (s : Recon P R) :
    Recon P R × List (List (List Nat)) × Bool :=
  let s1 := if cfg.reset then resetRecon s else s
  let bt := makeBatcher draw s1.rng.gen cfg.n cfg.ratio cfg.mode
  let fin := iterateF draw stepFn valFn cfg.b bt.1 cfg.numIters fault
    { gen := bt.2, params := s1.params, iterLosses := s1.iterLosses, valLosses := s1.valLosses, schedule := [],
      batchLosses := [] }
  ({ s1 with rng := { s1.rng with gen := fin.1.gen }, params := fin.1.params,
             iterLosses := fin.1.iterLosses, valLosses := fin.1.valLosses }, fin.1.schedule, fin.2)

/-- a history of `reconstruct` calls on one object, some of which are interrupted (the caller catches the
exception and carries on) -/
def runHistoryF (hist : List (RunCfg × Option Fault)) (s : Recon P R) : Recon P R :=
  hist.foldl (fun st c => (reconstructF draw stepFn valFn c.1 c.2 st).1) s

end Faulty

end QuantemModel.Batcher
