import QuantemModel.Model.SerializeSpec
/-
C14 extensions of the serializer model (own file: Model/Serialize.lean and SerializeSpec.lean are
shared with C01/C08 and stay untouched).  Core Lean only.

1. `SkipArg` / `normSkip` — the normalisation of the `skip` argument at the top of
   `AutoSerialize.save`, `load` (`isinstance(skip, (str, type))` → `[skip]`, then the two
   comprehensions that split it into names and types and silently drop everything else) and
   `ptychoSkipArg`, the list `Ptychography.save` hands to `AutoSerialize.save`.
2. `encodeG inst` — `_recursive_save / _serialize_value / _serialize_container` with the
   `isinstance` relation as a parameter, and `isInstanceX`, the relation of the generator's type
   universe extended by abstract base classes whose instances are only VIRTUAL subclasses
   (`numbers.Number/Real/Integral`, `collections.abc.Mapping/Sequence/Sized/Hashable`,
   `os.PathLike`) and by `object`.
3. `raisesG` / `saveE` — a save that raises part-way: an attribute that cannot be pickled
   (`dill.dumps` raises TypeError) and is not removed by the skip lists.
4. `decodeAttrsX` / `loadX` — `_recursive_load` with the type test exactly where the code has it:
   the two random-generator branches of the groups loop have NO `type(v) in skip_types` test.
5. `sstep` / `srun` — histories of `save` / `load` calls with skip arguments on a pool of live
   objects and one filesystem; a call that is rejected or raises part-way leaves every target as it was.
-/
namespace QuantemModel.SerializeSkip
open QuantemModel.Serialize

/-! ### 1. the `skip` argument -/

inductive SkipItem where
  | name (s : String)      -- a `str`
  | type (t : String)      -- a class object (named by its tag in the type universe)
  | other                  -- anything else (None, a number, an instance, a typing alias): dropped by both comprehensions
  deriving DecidableEq, Repr, Inhabited

inductive SkipArg where
  | bareName (s : String)        -- `skip="count"`
  | bareType (t : String)        -- `skip=np.ndarray`
  | seq (items : List SkipItem)  -- list / tuple / any re-iterable collection
  deriving Repr, Inhabited

/-- `if isinstance(skip, (str, type)): skip = [skip]` -/
def SkipArg.items : SkipArg → List SkipItem
  | .bareName s => [.name s]
  | .bareType t => [.type t]
  | .seq xs => xs

def nameOf : SkipItem → Option String
  | .name s => some s
  | _ => none

def typeOf : SkipItem → Option String
  | .type t => some t
  | _ => none

/-- `skip_names = {s for s in skip if isinstance(s, str)}` (a set: read through membership only),
`skip_types = tuple(s for s in skip if isinstance(s, type))` -/
def normSkip (a : SkipArg) : Skip :=
  { names := a.items.filterMap nameOf, types := a.items.filterMap typeOf }

/-- `Ptychography.save`: `skip = list(skip)` after the same bare-entry wrapping, extended by
`["_dset", "dset"]` unless `save_raw_data`; a fresh list on every call -/
def ptychoSkipArg (a : SkipArg) (saveRawData : Bool) : SkipArg :=
  .seq (a.items ++ (if saveRawData then [] else [.name "_dset", .name "dset"]))

/-! ### 2. `isinstance` with abstract base classes; the encoder over an arbitrary instance relation -/

def isNumKind : Scalar → Bool
  | .int _ | .float _ => true
  | _ => false

/-- `isinstance(value, T)` for abstract base classes T (virtual subclasses: `register` /
`__subclasshook__`) and for `object` -/
def abcInstance (v : Val) (t : String) : Bool :=
  if t == "object" then true else
  match v with
  | .scalar .none => t == "Hashable"
  | .scalar (.bool _) | .scalar (.int _) => t == "Number" || t == "Real" || t == "Integral" || t == "Hashable"
  | .scalar (.float _) => t == "Number" || t == "Real" || t == "Hashable"
  | .scalar (.str _) => t == "Sequence" || t == "Sized" || t == "Hashable"
  | .npScalar _ (.str _) => t == "Sequence" || t == "Sized" || t == "Hashable"
  | .npScalar _ (.int _) => t == "Number" || t == "Real" || t == "Integral" || t == "Hashable"   -- np.integer
  | .npScalar _ (.float _) => t == "Number" || t == "Real" || t == "Hashable"                     -- np.floating
  | .npScalar _ _ => t == "Hashable"                                                              -- np.bool_ is no Number
  | .path _ => t == "PathLike" || t == "Hashable"
  | .ndarray .. => t == "Sized"                                  -- `__hash__ = None`
  | .torch .tensor _ _ | .torch .parameter _ _ => t == "Sized" || t == "Hashable"
  | .torch .module cls _ => t == "Hashable" || (cls == "Sequential" && t == "Sized")
  | .torch _ _ _ => t == "Hashable"
  | .fallback cls _ =>
      if cls == "complex" || cls == "complex128" || cls == "complex64" then t == "Number" || t == "Hashable"
      else if cls == "bytes" then t == "Sequence" || t == "Sized" || t == "Hashable"
      else if cls == "frozenset" then t == "Sized" || t == "Hashable"
      else t == "Hashable"                                       -- any other plain Python object
  | .rawBytes _ => false
  | .npRng _ | .torchRng | .pyLogger .. => t == "Hashable"
  | .list _ => t == "Sequence" || t == "Sized"
  | .tuple _ => t == "Sequence" || t == "Sized" || t == "Hashable"
  | .set _ => t == "Sized"
  | .dict _ => t == "Mapping" || t == "Sized"
  | .obj .. => t == "Hashable"

def isInstanceX (v : Val) (t : String) : Bool := isInstance v t || abcInstance v t

mutual
/-- `_serialize_value` (as `encode`), over the instance relation `inst` -/
def encodeG (inst : Val → String → Bool) (sk : Skip) : Val → Node
  | .torch k cls tok => .map [(torchFlag k, .bool true)] [(torchPayload k, .bytes ⟨some k, cls, tok⟩)]
  | .pyLogger name level =>
      .map [("_python_logger", .bool true), ("class_name", .str "Logger"),
            ("logger_name", .str name), ("logger_level", .int level)] []
  | .ndarray dt shape data => writeNdarray dt shape data
  | .scalar s => .attr s false
  | .npScalar _ s => .attr s false
  | .path p => .attr (.str p) true
  | .obj cls attrs => .map [("_autoserialize", .str cls)] (encodeAttrsG inst sk attrs)
  | .list xs => encodeSeqG inst sk "list" xs (xs.all isNumeric && !xs.isEmpty) (xs.map scalarOf)
  | .tuple xs => encodeSeqG inst sk "tuple" xs (xs.all isNumeric && !xs.isEmpty) (xs.map scalarOf)
  | .dict kvs => .map [("_container_type", .str "dict")] (encodeKidsG inst sk kvs)
  | .set xs =>
      match encodeSeqG inst sk "list" xs (xs.all isNumeric && !xs.isEmpty) (xs.map scalarOf) with
      | .seq f items => .seq (fset f "_container_type" (.str "set")) items
      | n => n
  | .npRng bitgen => .map [("_numpy_rng", .bool true), ("_bit_generator_type", .str bitgen)] []
  | .torchRng => .map [("_torch_rng_skipped", .bool true)] []
  | .fallback cls tok => .bytes ⟨.none, cls, tok⟩
  | .rawBytes p => .bytes p
def encodeSeqG (inst : Val → String → Bool) (sk : Skip) (ct : String) (xs : List Val) (fast : Bool) (ss : List Scalar) : Node :=
  if fast then
    let c := promote ss
    .seq [("_container_type", .str ct), ("_sequence_encoding", .str "ndarray")]
      [writeNdarray (promotedDt c) [ss.length] (ss.map (castTo c))]
  else .seq [("_container_type", .str ct)] (encodeItemsG inst sk xs)
def encodeItemsG (inst : Val → String → Bool) (sk : Skip) : List Val → List Node
  | [] => []
  | v :: rest => encodeG inst sk v :: encodeItemsG inst sk rest
def encodeKidsG (inst : Val → String → Bool) (sk : Skip) : List (String × Val) → List (String × Node)
  | [] => []
  | (k, v) :: rest => (k, encodeG inst sk v) :: encodeKidsG inst sk rest
/-- `_recursive_save`: `if attr_name in skip_names or isinstance(attr_value, skip_types): continue` -/
def encodeAttrsG (inst : Val → String → Bool) (sk : Skip) : List (String × Val) → List (String × Node)
  | [] => []
  | (k, v) :: rest =>
      if sk.names.contains k || sk.types.any (inst v) then encodeAttrsG inst sk rest
      else (k, encodeG inst sk v) :: encodeAttrsG inst sk rest
end

def saveG (inst : Val → String → Bool) (sk : Skip) (v : Val) : Saved :=
  { root := encodeG inst sk v, skipNames := sk.names, skipTypes := sk.types }

/-! ### 3. a save that raises part-way -/

/-- a value `dill.dumps` cannot pickle (a live generator, a lock, a database handle): it reaches
the fallback branch of `_serialize_value` and raises there -/
def isPoison : Val → Bool
  | .fallback cls _ => cls == "unpicklable"
  | _ => false

mutual
/-- does the traversal of `encodeG inst sk v` reach an unpicklable value? -/
def raisesG (inst : Val → String → Bool) (sk : Skip) : Val → Bool
  | .obj _ attrs => raisesAttrsG inst sk attrs
  | .list xs | .tuple xs | .set xs =>
      if xs.all isNumeric && !xs.isEmpty then false else raisesItemsG inst sk xs
  | .dict kvs => raisesKidsG inst sk kvs
  | v => isPoison v
def raisesItemsG (inst : Val → String → Bool) (sk : Skip) : List Val → Bool
  | [] => false
  | v :: rest => raisesG inst sk v || raisesItemsG inst sk rest
def raisesKidsG (inst : Val → String → Bool) (sk : Skip) : List (String × Val) → Bool
  | [] => false
  | (_, v) :: rest => raisesG inst sk v || raisesKidsG inst sk rest
def raisesAttrsG (inst : Val → String → Bool) (sk : Skip) : List (String × Val) → Bool
  | [] => false
  | (k, v) :: rest =>
      if sk.names.contains k || sk.types.any (inst v) then raisesAttrsG inst sk rest
      else raisesG inst sk v || raisesAttrsG inst sk rest
end

/-- `obj.save(path, skip=…)` as far as the object tree is concerned: TypeError out of the
traversal, or the stored tree -/
def saveE (inst : Val → String → Bool) (sk : Skip) (v : Val) : Except Err Saved :=
  if raisesG inst sk v then .error .typeError else .ok (saveG inst sk v)

/-! ### 4. `_recursive_load` with the type test where the code has it -/

def isRng : Val → Bool
  | .npRng _ | .torchRng => true
  | _ => false

/-- `if type(v) in skip_types: continue` — in the arrays loop and in every branch of the groups
loop EXCEPT the NumPy / torch random-generator branches; never in the attributes loop -/
def dropTypesX (types : List String) (xs : List (String × Ns × Val)) : List (String × Ns × Val) :=
  xs.filter (fun x => x.2.1 == .attr || isRng x.2.2 || !types.any (exactType x.2.2))

mutual
def decodeAttrsX (sk : Skip) : List (String × Node) → Except Err (List (String × Ns × Val))
  | [] => .ok []
  | (k, n) :: rest =>
      if sk.names.contains k then decodeAttrsX sk rest
      else do
        let v ← decodeAttrX sk n
        let vs ← decodeAttrsX sk rest
        .ok ((k, nsOf n, v) :: vs)
/-- as `decodeAttr`; only the nested-object branch differs (it uses `dropTypesX`) -/
def decodeAttrX (sk : Skip) : Node → Except Err Val
  | .map f kids =>
      if ftrue f "_torch_tensor" || ftrue f "_torch_optimizer" || ftrue f "_torch_scheduler"
          || ftrue f "_python_logger" || ftrue f "_torch_whole_module" then decodeAttr sk (.map f kids)
      else match fget f "_autoserialize" with
        | some (.str cls) => do
            let xs ← decodeAttrsX sk kids
            .ok (.obj cls (reorder (dropTypesX sk.types xs)))
        | _ => decodeAttr sk (.map f kids)
  | n => decodeAttr sk n
end

/-- `load(path, skip)` -/
def loadX (user : Skip) (s : Saved) : Except Err Val :=
  let sk : Skip := { names := user.names ++ s.skipNames.filter (fun n => !user.names.contains n),
                     types := user.types ++ s.skipTypes.filter (fun t => !user.types.contains t) }
  match s.root with
  | .map f kids =>
      match fget f "_autoserialize" with
      | some (.str cls) => do
          let xs ← decodeAttrsX sk kids
          .ok (.obj cls (reorder (dropTypesX sk.types xs)))
      | _ => .error .keyError
  | _ => .error .keyError

/-! ### the required graph, over an instance relation -/

mutual
/-- the graph the property requires: every attribute removed whose name is in `ns` or which is
an instance of a type in `ts`, at every attribute-nested object level; nothing else touched -/
def stripG (inst : Val → String → Bool) (ns ts : List String) : Val → Val
  | .obj cls attrs => .obj cls (stripAttrsG inst ns ts attrs)
  | v => v
def stripAttrsG (inst : Val → String → Bool) (ns ts : List String) : List (String × Val) → List (String × Val)
  | [] => []
  | (k, v) :: rest =>
      if ns.contains k || ts.any (inst v) then stripAttrsG inst ns ts rest
      else (k, stripG inst ns ts v) :: stripAttrsG inst ns ts rest
end

mutual
/-- no attribute (at any attribute-nested level) is an instance of a listed type -/
def typeFreeG (inst : Val → String → Bool) (ts : List String) : Val → Bool
  | .obj _ attrs => typeFreeAttrsG inst ts attrs
  | _ => true
def typeFreeAttrsG (inst : Val → String → Bool) (ts : List String) : List (String × Val) → Bool
  | [] => true
  | (_, v) :: rest => !(ts.any (inst v)) && typeFreeG inst ts v && typeFreeAttrsG inst ts rest
end

/-! ### 5. histories -/

abbrev SFs := List (String × Saved)

def sfsGet (fs : SFs) (p : String) : Option Saved :=
  match fs with
  | [] => none
  | (q, s) :: rest => if q = p then some s else sfsGet rest p

def sfsSet (fs : SFs) (p : String) (s : Saved) : SFs :=
  match fs with
  | [] => [(p, s)]
  | (q, t) :: rest => if q = p then (p, s) :: rest else (q, t) :: sfsSet rest p s

structure SaveCall where
  obj : Nat              -- which live object of the pool `.save` is called on
  path : String
  overwrite : Bool       -- `mode == "o"`
  badLevel : Bool        -- `compression_level` outside 0..9: rejected first, before anything else is looked at
  skip : SkipArg
  deriving Repr, Inhabited

inductive SOp where
  | save (c : SaveCall)
  | load (path : String) (skip : SkipArg)
  deriving Repr, Inhabited

inductive SOut where
  | saved
  | raised (e : String)
  | loaded (v : Val)
  deriving Repr, Inhabited

def errStr : Err → String
  | .valueError => "ValueError" | .keyError => "KeyError" | .typeError => "TypeError"

/-- one public call: `pool[c.obj].save(c.path, mode, skip=c.skip, compression_level=…)` or
`load(path, skip)`.  The live objects are not changed by any call. -/
def sstep (inst : Val → String → Bool) (pool : List Val) (fs : SFs) : SOp → SFs × SOut
  | .save c =>
      if c.badLevel then (fs, .raised "ValueError")                          -- nothing touched
      else if (sfsGet fs c.path).isSome && !c.overwrite then (fs, .raised "FileExistsError")
      else match pool[c.obj]? with
        | none => (fs, .raised "IndexError")
        | some v =>
            match saveE inst (normSkip c.skip) v with
            | .error e => (fs, .raised (errStr e))                           -- staging discarded, targets as before
            | .ok s => (sfsSet fs c.path s, .saved)
  | .load p a =>
      match sfsGet fs p with
      | none => (fs, .raised "FileNotFoundError")
      | some s =>
          match loadX (normSkip a) s with
          | .ok v => (fs, .loaded v)
          | .error e => (fs, .raised (errStr e))

def srun (inst : Val → String → Bool) (pool : List Val) (fs : SFs) : List SOp → SFs × List SOut
  | [] => (fs, [])
  | op :: rest =>
      let r := sstep inst pool fs op
      let r2 := srun inst pool r.1 rest
      (r2.1, r.2 :: r2.2)

/-- an operation that cannot change what `path` holds -/
def quietOn (path : String) : SOp → Bool
  | .load .. => true
  | .save c => c.path != path

end QuantemModel.SerializeSkip
