import QuantemModel.Model.Registration
/-!
Growth round 5 additions to the registration model (core Lean only; `Model/Registration.lean` is
shared with C15 and left untouched):

* the *entry points* with their dispatch on `upsample_factor` as the code has it
  (`cross_correlation_shift`: `if upsample_factor <= 1`; `align_images_fourier_torch`:
  `if upsample_factor > 2`), so that one definition covers every factor `0, 1, 2, 3, …`;
* `align_images_fourier_torch` as an entry point of its own (it returns the position *before* the
  signed centring that `cross_correlation_shift_torch` applies);
* the NumPy parabola as repaired in this round: `parabolic_peak` returns `0.0` for a flat triple
  (`denom == 0`, e.g. an axis of length 1 where the three samples are the same pixel) instead of
  `0/0 = nan` — which is exactly the guard the torch variant always had (`parabolicT`).
-/
namespace QuantemModel
namespace Registration
variable {R : Type} [Num R] [NumFloor R]

/-- NumPy coarse stage with the guarded parabola (`parabolic_peak` after the repair):
identical to `coarseNp` except that a zero denominator gives `0.0`. -/
def coarseNpG (M N : Nat) (cs c : Nat → Nat → R) : Coarse R :=
  let p := argmax2 M N cs
  let x0 := p.1
  let y0 := p.2
  let dx := parabolicT (c (wrap M ((x0 : Int) - 1)) y0) (c x0 y0) (c (wrap M ((x0 : Int) + 1)) y0)
  let dy := parabolicT (c x0 (wrap N ((y0 : Int) - 1))) (c x0 y0) (c x0 (wrap N ((y0 : Int) + 1)))
  { x0 := x0, y0 := y0, dx := dx, dy := dy,
    x := pmod (Num.ofNat x0 + dx) M, y := pmod (Num.ofNat y0 + dy) N }

/-- sub-pixel parabola on the patch, NumPy caller (same guarded `parabolic_peak`) -/
def patchRefineG (P : Nat) (p : Nat → Nat → R) (lx ly : Nat) : R × R :=
  if 1 ≤ lx ∧ lx + 2 ≤ P ∧ 1 ≤ ly ∧ ly + 2 ≤ P then
    (parabolicT (p (lx - 1) ly) (p lx ly) (p (lx + 1) ly),
     parabolicT (p lx (ly - 1)) (p lx ly) (p lx (ly + 1)))
  else (Num.zero, Num.zero)

/-- upsampled branch of `cross_correlation_shift` before the final centring -/
def upsampledNpOfG (up : Nat) (x0 y0 : R) (p : Nat → Nat → R) : R × R :=
  let P := sideNp up
  let pk := argmax2 P P p
  let d := patchRefineG P p pk.1 pk.2
  (finalNp up x0 pk.1 d.1, finalNp up y0 pk.2 d.2)

/-- **`cross_correlation_shift(im_ref, im, upsample_factor=up, max_shift=…)`** for every factor:
`cs` the (masked) search table, `c` the unmasked `cc_real`, `F = F_ref * conj(F_im)`.
`if upsample_factor <= 1: shifts = (x0, y0)  else: local DFT upsampling`, then the signed centring. -/
def shiftNp (M N up : Nat) (cs c : Nat → Nat → R) (F : Nat → Nat → Cx R) : R × R :=
  let k := coarseNpG M N cs c
  if up ≤ 1 then (centre k.x M, centre k.y N)
  else
    let s := upsampledNpOfG up k.x k.y (patchNp M N up F k.x k.y)
    (centre s.1 M, centre s.2 N)

/-- **`align_images_fourier_torch(G1, G2, upsample_factor=up)`**: the half-pixel position, refined by
`upsampled_correlation_torch` only `if upsample_factor > 2`; *not* centred. -/
def alignTorch (M N up : Nat) (c : Nat → Nat → R) (F : Nat → Nat → Cx R) : R × R :=
  let k := coarseTorch M N c
  if up ≤ 2 then (k.x, k.y) else upsampledTorch M N up F k.x k.y

/-- **`cross_correlation_shift_torch(im_ref, im, upsample_factor=up)`** for every factor:
`dx = ((xy_shift[0] + M/2) % M) - M/2`, same for `dy`. -/
def shiftTorch (M N up : Nat) (c : Nat → Nat → R) (F : Nat → Nat → Cx R) : R × R :=
  let s := alignTorch M N up c F
  (centre s.1 M, centre s.2 N)

end Registration
end QuantemModel
