import QuantemModel.Model.DatasetProto
import QuantemModel.Model.DatasetExt
/- C03 driver protocol, growth 5: every request goes through `DatasetExt.stepX` / `fromArrayF` /
`fromShape` (input forms in front of the state machine of Model/Dataset.lean); the codec of the
plain forms and the heap request are those of Model/DatasetProto.lean. -/
open Lean QuantemModel QuantemModel.Proto QuantemModel.Nd QuantemModel.Dataset QuantemModel.DatasetExt

namespace DrvC03X
open DrvC03

def ratListList (j : Json) : Except String (List (List Rat)) := do
  (← j.getArr?).toList.mapM ratList

/-- `{"s": q}` | `{"l": […]}` | `{"form": "bool"|"str"|"ragged"|"nonnum" (+"len")|"nested" (+"rows")}` | anything else: other -/
def ndFormOfJson (j : Json) : Except String (Option NdForm) :=
  match j with
  | .null => pure none
  | _ =>
    match j.getObjVal? "form" with
    | .ok (.str "bool") => pure (some .boolScalar)
    | .ok (.str "str") => pure (some .strScalar)
    | .ok (.str "ragged") => pure (some .ragged)
    | .ok (.str "nonnum") => do pure (some (.nonNumeric (← natField j "len")))
    | .ok (.str "nested") => do pure (some (.nested (← ratListList (← field j "rows"))))
    | .ok _ => throw "ndform"
    | .error _ =>
      match j.getObjVal? "s" with
      | .ok v => do pure (some (.num (← ratOfJson v)))
      | .error _ => match j.getObjVal? "l" with
        | .ok v => do pure (some (.flat (← ratList v)))
        | .error _ => pure (some .other)

def uEntryOfJson (j : Json) : Except String UEntry :=
  match j with
  | .str s => pure (.str s)
  | _ => do pure (.int (← j.getInt?))

def unitsFormOfJson (j : Json) : Except String (Option UnitsForm) :=
  match j with
  | .null => pure none
  | _ =>
    match j.getObjVal? "s" with
    | .ok v => do pure (some (.str (← v.getStr?)))
    | .error _ => match j.getObjVal? "l" with
      | .ok v => do pure (some (.seq (← (← v.getArr?).toList.mapM uEntryOfJson)))
      | .error _ => pure (some .other)

/-- `null` | `{"one": int | bool}` | `{"onef": q}` | `{"np": int}` | `{"many": [int…]}` | `{"manyf": [q…]}` -/
def axesFormOfJson (j : Json) : Except String AxesForm :=
  match j with
  | .null => pure .none
  | _ => match j.getObjVal? "one" with
    | .ok (.bool b) => pure (.scalar (if b then 1 else 0))
    | .ok v => do pure (.scalar ((← v.getInt?) : Rat))
    | .error _ => match j.getObjVal? "onef" with
      | .ok v => do pure (.scalar (← ratOfJson v))
      | .error _ => match j.getObjVal? "np" with
        | .ok v => do pure (.npInt (← v.getInt?))
        | .error _ => match j.getObjVal? "manyf" with
          | .ok v => do pure (.seq (← ratList v))
          | .error _ => do pure (.seq ((← intList (← field j "many")).map fun (i : Int) => (i : Rat)))

def arrayFormOfJson (j : Json) : ArrayForm :=
  match j.getObjVal? "form" with
  | .ok (.str "seq") => .seq
  | .ok (.str "scalar") => .scalar
  | .ok (.str "bad") => .bad
  | _ => .ndarray

def itemFormOfJson (j : Json) : Except String ItemForm :=
  match j with
  | .str _ => pure .ellipsis
  | _ =>
    let np := (boolField j "np").toOption.getD false
    match j.getObjVal? "i" with
    | .ok v => do let i ← v.getInt?; pure (if np then .npInt i else .pyInt i)
    | .error _ => match j.getObjVal? "l" with
      | .ok v => do let l ← intList v; pure (if np then .ndarray l else .list l)
      | .error _ => do
        let a ← arrField j "s"
        if a.size != 3 then throw "slice" else
        pure (.slice (← optInt a[0]!) (← optInt a[1]!) (← optInt a[2]!))

def opxOfJson (j : Json) : Except String OpX := do
  let op ← strField j "op"
  let ip := (boolField j "inplace").toOption.getD false
  match op with
  | "copy" => pure (.copyWith ((boolField j "custom").toOption.getD true))
  | "set_origin" => match ← ndFormOfJson (← field j "v") with
      | some v => pure (.setOriginF v) | none => throw "v"
  | "set_sampling" => match ← ndFormOfJson (← field j "v") with
      | some v => pure (.setSamplingF v) | none => throw "v"
  | "set_units" => match ← unitsFormOfJson (← field j "v") with
      | some v => pure (.setUnitsF v) | none => throw "v"
  | "set_array" =>
      let aj ← field j "array"
      let (sh, dat, k) ← arrayOfJson aj
      pure (.setArrayF (arrayFormOfJson aj) sh dat k)
  | "crop" =>
      let ws ← (← arrField j "widths").toList.mapM pairOfJson
      pure (.cropF ws (← axesFormOfJson (fieldD j "axes" Json.null)) ip)
  | "bin" =>
      pure (.binF (← facOfJson (← field j "f")) (← axesFormOfJson (fieldD j "axes" Json.null))
        ((boolField j "mean").toOption.getD false) ((boolField j "bad_reducer").toOption.getD false) ip)
  | "resample" =>
      pure (.resampleF (← rsOfJson (← field j "arg")) (← axesFormOfJson (fieldD j "axes" Json.null)) ip)
  | "getitem" =>
      let its ← (← arrField j "ix").toList.mapM itemFormOfJson
      let bare := (boolField j "bare").toOption.getD false
      match bare, its with
      | true, [it] => pure (.getitemF (.bare it))
      | _, _ => pure (.getitemF (.tuple its))
  | _ => do pure (.base (← opOfJson j))

def step (st : St) (j : Json) : St × Json :=
  match (do
    let op ← strField j "op"
    if op == "heap" then
      pure (DrvC03.step st j)
    else if op == "new" then
      let cls ← clsOfStr (← strField j "cls")
      let o ← ndFormOfJson (fieldD j "origin" Json.null)
      let s ← ndFormOfJson (fieldD j "sampling" Json.null)
      let u ← unitsFormOfJson (fieldD j "units" Json.null)
      let r ← match j.getObjVal? "from_shape" with
        | .ok fj => do
            let sh ← natList (← field fj "shape")
            let fill ← ratOfJson (← field fj "fill")
            pure (fromShape cls sh ⟨fill, 0⟩ o s u)
        | .error _ => do
            let aj ← field j "array"
            let (sh, dat, k) ← arrayOfJson aj
            pure (fromArrayF cls (arrayFormOfJson aj) sh dat k o s u)
      match r with
      | .ok d => pure (({ cur := some d } : St), Json.mkObj [("r", okJson Json.null), ("st", dsToJson d)])
      | .error e => pure (({ cur := none } : St), Json.mkObj [("r", errJson (errName e)), ("st", Json.null)])
    else
      let o ← opxOfJson j
      let follow := (boolField j "follow").toOption.getD false
      match st.cur with
      | none => throw "no dataset"
      | some d =>
        match stepX d o with
        | .error e => pure (st, Json.mkObj [("r", errJson (errName e)), ("recv", dsToJson d)])
        | .ok (d', r) =>
          let rj := match r with | none => Json.null | some x => dsToJson x
          let next := match follow, r with | true, some x => x | _, _ => d'
          pure (({ cur := some next } : St),
                Json.mkObj [("r", okJson rj), ("recv", dsToJson d')])
    : Except String (St × Json)) with
  | .ok r => r
  | .error e => (st, errJson s!"driver:{e}")

end DrvC03X
