import QuantemModel.Model.PtychoOps
/-!
C16 (growth 5) — further anchored code, modelled branch by branch.  Core Lean only.

* ptycho_utils.sum_patches_base / sum_patches WITH torch's argument checks and the failure
  semantics of `index_add_` (entries are accumulated in order, the first index outside
  `[0, n)` raises IndexError AFTER the entries in front of it were written into the buffer;
  negative indices are rejected by `index_add_`, not wrapped); the buffer is a NEW
  `torch.zeros(prod(obj_shape))` per call, so a rejected call leaves nothing behind;
  call histories (valid and raising calls interleaved).
* object_models.ObjectBase._get_obj_patches with torch's advanced-indexing rule
  (negative indices wrap once, anything outside `[-n, n)` raises IndexError).
* object_models.ObjectPixelated.backward: the back-transmit / back-propagate chain that
  produces the returned `gradient` (one probe mode, one pattern).
* ptychography_base.estimate_intensities.
* ptychography_base.reset_recon / `constraints` setter / BaseConstraints.{constraints setter,
  add_constraint}: the constraint dictionaries as state, with the KeyError branches and their
  partial writes, and the `apply_hard_constraints` gate "which keys can change the modulus of
  a pure-phase object".
-/
namespace QuantemModel.PtychoOps
open QuantemModel QuantemModel.Dft

/-! ### A. checked scatter / gather -/
inductive OpErr where
  | indexError      -- torch: "index out of range in self" / "index i is out of bounds"
  | runtimeError    -- torch: "index_add_(): Number of indices should be equal to source.size(dim)"
  | keyError        -- "Invalid … constraint key" / "Invalid constraint category"
  deriving DecidableEq, Repr

def OpErr.name : OpErr → String
  | .indexError => "IndexError"
  | .runtimeError => "RuntimeError"
  | .keyError => "KeyError"

section Checked
variable {α : Type}

/-- torch `out.index_add_(0, index, source)` on a 1-D buffer: entries in order; the first index
outside `[0, len)` raises; what was accumulated before stays in the buffer.
Returns (buffer afterwards, raised?). -/
def indexAddSeq [Add α] : List α → List (Int × α) → List α × Bool
  | out, [] => (out, false)
  | out, (i, w) :: rest =>
    if 0 ≤ i ∧ i.toNat < out.length then indexAddSeq (out.modify i.toNat (· + w)) rest
    else (out, true)

/-- `sum_patches_base(patches, indices, obj_shape)` with `n = prod(obj_shape)`:
`out = zeros(n)` (fresh), `out.index_add_(0, indices.reshape(-1), patches.reshape(-1))`. -/
def sumPatchesBaseChecked [Add α] (zero : α) (n : Nat) (patches : List α) (idx : List Int) :
    Except OpErr (List α) :=
  if idx.length != patches.length then .error .runtimeError else
  let r := indexAddSeq (List.replicate n zero) (List.zip idx patches)
  if r.2 then .error .indexError else .ok r.1

/-- one `sum_patches_base` call of a history -/
structure ScatterCall (α : Type) where
  n : Nat
  patches : List α
  idx : List Int

/-- a history of calls: there is no state between calls in the code (fresh buffer each time) -/
def runScatterHistory [Add α] (zero : α) (calls : List (ScatterCall α)) : List (Except OpErr (List α)) :=
  calls.map fun c => sumPatchesBaseChecked zero c.n c.patches c.idx

/-- torch advanced indexing `flat[idx]`: negative indices wrap once; outside `[-n, n)` raises -/
def gatherChecked (obj : List α) (d : α) (idx : List Int) : Except OpErr (List α) :=
  let n : Int := obj.length
  if idx.all (fun i => decide (-n ≤ i ∧ i < n)) then
    .ok (idx.map fun i => obj.getD (if i < 0 then i + n else i).toNat d)
  else .error .indexError
end Checked

section Carrier
variable {R : Type} [Num R]

/-- complex `sum_patches`: the real part is scattered first, then the imaginary part; an error of
either call propagates (`real + 1j*imag` is never formed) -/
def sumPatchesCxChecked (n : Nat) (patches : List (Cx R)) (idx : List Int) : Except OpErr (List (Cx R)) := do
  let re ← sumPatchesBaseChecked (Num.zero : R) n (patches.map (·.re)) idx
  let im ← sumPatchesBaseChecked (Num.zero : R) n (patches.map (·.im)) idx
  pure (List.zipWith (fun a b => (⟨a, b⟩ : Cx R)) re im)

/-! ### B. ObjectPixelated.backward — the returned gradient -/
def conjImg (a : Img R) : Img R := a.map (·.map Cx.conj)

/-- `for s in reversed(range(S)): gradient *= conj(obj_patches[s]); if s > 0: gradient =
_propagate_array(gradient, conj(propagators[s-1]))`, for one mode / one pattern.
`patches = [O_0 … O_{S-1}]`, `props = [P_0 … P_{S-2}]`. -/
def backwardGradient (patches props : List (Img R)) (g : Img R) : Img R :=
  match patches with
  | [] => g
  | p0 :: rest =>
    mulImg ((List.zip props rest).reverse.foldl
      (fun acc pp => propagate (mulImg acc (conjImg pp.2)) (conjImg pp.1)) g) (conjImg p0)

/-! ### C. estimate_intensities -/
/-- `sum(abs(fft2(overlap, norm="ortho"))**2, dim=0)` — corner centred, no eps -/
def estimateIntensities (overlaps : List (Img R)) : RImg R := intensitiesCorner overlaps

end Carrier

/-! ### D. constraint dictionaries as state: reset_recon, the setters, KeyError branches -/
abbrev CDict := List (String × String)      -- insertion-ordered dict, values as canonical text

def CDict.keys (d : CDict) : List String := d.map (·.1)
def CDict.get? (d : CDict) (k : String) : Option String := (d.find? (·.1 == k)).map (·.2)

/-- `d[k] = v`: an existing key keeps its position, a new key is appended -/
def CDict.set (d : CDict) (k v : String) : CDict :=
  if d.any (·.1 == k) then d.map (fun kv => if kv.1 == k then (k, v) else kv) else d ++ [(k, v)]

/-- `for key, value in c.items(): if key not in allowed: raise KeyError; self._constraints[key] = value`
(BaseConstraints.constraints setter, and a run of add_constraint calls): the items in front of a
rejected key HAVE been written.  Returns (dict afterwards, raised KeyError?). -/
def applyItems (allowed : CDict) : CDict → List (String × String) → CDict × Bool
  | d, [] => (d, false)
  | d, (k, v) :: rest =>
    if allowed.any (·.1 == k) then applyItems allowed (d.set k v) rest else (d, true)

structure Session where
  objDefaults : CDict     -- ObjectConstraints.DEFAULT_CONSTRAINTS (class level; the code never writes it)
  probeDefaults : CDict
  dsetDefaults : CDict
  obj : CDict             -- obj_model._constraints
  probe : CDict           -- probe_model._constraints
  dset : CDict            -- dset._constraints

/-- a freshly built reconstruction: every model starts from `DEFAULT_CONSTRAINTS.copy()` -/
def Session.fresh (od pd dd : CDict) : Session := ⟨od, pd, dd, od, pd, dd⟩

/-- one entry of the dict given to `ptycho.constraints = {...}`: the category and, if the value is a
dict, its items (`none`: the value is not a dict) -/
abbrev CatEntry := String × Option (List (String × String))

inductive SessOp where
  | ptychoSet (entries : List CatEntry)          -- ptycho.constraints = {...} / reconstruct(constraints=…)
  | objSet (items : List (String × String))      -- obj_model.constraints = {...}
  | objAdd (k v : String)                        -- obj_model.add_constraint(k, v)
  | resetRecon                                   -- ptycho.reset_recon() / reconstruct(reset=True)

/-- PtychographyBase.constraints setter, entry by entry, in dict order -/
def ptychoSetEntries : Session → List CatEntry → Session × Bool
  | s, [] => (s, false)
  | s, (cat, val) :: rest =>
    match cat, val with
    | "object", some items =>
      let r := applyItems s.objDefaults s.obj items
      if r.2 then ({ s with obj := r.1 }, true) else ptychoSetEntries { s with obj := r.1 } rest
    | "probe", some items =>
      let r := applyItems s.probeDefaults s.probe items
      if r.2 then ({ s with probe := r.1 }, true) else ptychoSetEntries { s with probe := r.1 } rest
    | "dataset", some items =>
      let r := applyItems s.dsetDefaults s.dset items
      if r.2 then ({ s with dset := r.1 }, true) else ptychoSetEntries { s with dset := r.1 } rest
    | "detector", some _ => ptychoSetEntries s rest      -- warn("Detector constraints not implemented, skipping")
    | _, _ => (s, true)                                    -- KeyError: invalid category (or value is not a dict)

/-- one operation: (state afterwards, raised KeyError?) -/
def Session.step (s : Session) : SessOp → Session × Bool
  | .ptychoSet entries => ptychoSetEntries s entries
  | .objSet items => let r := applyItems s.objDefaults s.obj items; ({ s with obj := r.1 }, r.2)
  | .objAdd k v => let r := applyItems s.objDefaults s.obj [(k, v)]; ({ s with obj := r.1 }, r.2)
  -- `self.obj_model.constraints = self.obj_model.DEFAULT_CONSTRAINTS`: the setter copies key by key;
  -- probe and dataset constraints are NOT restored by reset_recon
  | .resetRecon => let r := applyItems s.objDefaults s.obj s.objDefaults; ({ s with obj := r.1 }, r.2)

/-- the caller carries on after a rejected call -/
def Session.run (s : Session) (ops : List SessOp) : Session := ops.foldl (fun st op => (st.step op).1) s

/-- Python truthiness of a constraint value in canonical text -/
def falsyText (v : String) : Bool :=
  v == "None" || v == "False" || v == "0" || v == "0.0" || v == "-0.0" || v == ""

/-- the gates of `apply_hard_constraints` behind which the modulus of a `pure_phase` object can change:
`gaussian_sigma is not None` (blur), `any([q_lowpass, q_highpass])` (Butterworth),
`num_slices > 1 and identical_slices` (slice mean).  `apply_fov_mask` tapers the phase only. -/
def modulusNeutral (numSlices : Nat) (c : CDict) : Bool :=
  (c.get? "gaussian_sigma").getD "None" == "None"
  && falsyText ((c.get? "q_lowpass").getD "None")
  && falsyText ((c.get? "q_highpass").getD "None")
  && (numSlices ≤ 1 || falsyText ((c.get? "identical_slices").getD "False"))

end QuantemModel.PtychoOps
