import QuantemModel.Model.Config
/-!
Histories of the configuration store: the operations of `quantem.core.config` as one
transition function over the module state (`config`, `defaults`), with Python's in-place
semantics when a call raises (what has been mutated stays mutated).  The driver
(`Driver/C19.lean`) steps its state with `hstep`, so the history theorems of `Props/C19.lean`
speak about the very function that is compared with the real module on every run.
-/
namespace QuantemModel.Config

inductive HOp where
  /-- `config.set(arg, **kwargs)`; the items in application order -/
  | set (items : List (Key × Tree))
  /-- `with config.set(...): pass` -/
  | withBlock (items : List (Key × Tree))
  /-- `config.update_defaults(new)` -/
  | updateDefaults (new : Dict)
  /-- `config.refresh()` -/
  | refresh
  deriving Repr, Inhabited

/-- the exception (if any) the call raises -/
def hstepErr (env : Env) (s : State) : HOp → Option Err
  | .set items => (setItems env s.config [] items).2.2
  | .withBlock items => (setItems env s.config [] items).2.2
  | .updateDefaults new => (updateDefaultsP env s new).2
  | .refresh => (refreshP env s).2

/-- the module state after the call, whether or not it raised -/
def hstep (env : Env) (s : State) : HOp → State
  | .set items => { s with config := (setItems env s.config [] items).1 }
  | .withBlock items =>
      -- `__exit__` only runs when `__init__` returned
      match setItems env s.config [] items with
      | (cfg, rec_, .none) => { s with config := exitCtx cfg rec_ }
      | (cfg, _, some _) => { s with config := cfg }
  | .updateDefaults new => (updateDefaultsP env s new).1
  | .refresh => (refreshP env s).1

def hrun (env : Env) (s : State) (ops : List HOp) : State := ops.foldl (hstep env) s

end QuantemModel.Config
