import QuantemModel.Model.Registration
/-!
Model of the resampling geometry of `quantem/imaging/drift.py`
(`DriftCorrection.preprocess`, `DriftInterpolator.transform_rows/transform_coordinates`,
`DriftCorrection.align_translation`) and of the bilinear splat of
`imaging_utils.bilinear_kde`.

Written once over `[Num R] [NumFloor R]`; executed at `Float` (coordinates, alignment) and at
`Rat` (splat weights on dyadic coordinates, exact); reasoned about at `ℝ`
(Lemmas/Drift.lean, Props/C15.lean).  The scan vectors `scan_fast = (sin(-θ), cos(-θ))`,
`scan_slow = (cos(-θ), -sin(-θ))` enter as four free parameters `(f0, f1)`, `(s0, s1)`: no
trigonometric identity is used anywhere.  Core Lean only.
-/
namespace QuantemModel.Drift
open QuantemModel QuantemModel.Registration
variable {R : Type} [Num R]

/-- `np.linspace(a, b, n)[i]` (`endpoint=True`): `a + i·step`, `step = (b - a)/(n - 1)`, last
sample overwritten with `b`; `n = 1` gives `[a]` -/
def linspace (a b : R) (n i : Nat) : R :=
  if n ≤ 1 then a
  else if i + 1 = n then b
  else Num.ofNat i * ((b - a) / Num.ofNat (n - 1)) + a

/-- `(n - 1) / 2` as a carrier value -/
def halfSpan (n : Nat) : R := Num.ofRat (((n : Rat) - 1) / 2)

/-- the four scan-vector components of one image -/
structure Scan (R : Type) where
  f0 : R
  f1 : R
  s0 : R
  s1 : R

/-- `preprocess`: `scan_fast = (sin(-θ), cos(-θ))`, `scan_slow = (cos(-θ), -sin(-θ))`,
`θ = deg2rad(angle)` -/
def scanOfDegrees (deg : R) : Scan R :=
  let th := deg * (Num.pi / Num.ofRat 180)
  { f0 := Num.sin (-th), f1 := Num.cos (-th), s0 := Num.cos (-th), s1 := -Num.sin (-th) }

/-- `preprocess`: initial knot `k` of scan line `row`:
`xa = (Hc-1)/2 + u_fast[k]·fast[0] + v_slow[row]·slow[0]`, `ya = (Wc-1)/2 + u_fast[k]·fast[1] + v_slow[row]·slow[1]`,
`v_slow = linspace(-(H-1)/2, (H-1)/2, H)`, `u_fast = linspace(-(W-1)/2, (W-1)/2, nk)` -/
def initialKnot (Hc Wc H W nk : Nat) (sc : Scan R) (row k : Nat) : R × R :=
  let v := linspace (-(halfSpan H : R)) (halfSpan H) H row
  let u := linspace (-(halfSpan W : R)) (halfSpan W) nk k
  (halfSpan Hc + u * sc.f0 + v * sc.s0, halfSpan Wc + u * sc.f1 + v * sc.s1)

/-- product `Π_{j<n, j≠i} (u - t j)/(t i - t j)` -/
def lagBasis (n : Nat) (t : Nat → R) (i : Nat) (u : R) : R :=
  (List.range n).foldl (fun acc j => if j = i then acc else acc * ((u - t j) / (t i - t j))) Num.one

/-- the polynomial of degree `n - 1` through `(t i, y i)`, `i < n`, in Lagrange form — what
`interp1d(kind="quadratic"/"cubic")` evaluates when it is given exactly 3 / 4 points
(a not-a-knot spline with no interior knot is that single polynomial) -/
def lagrange (n : Nat) (t y : Nat → R) (u : R) : R :=
  sumN n fun i => y i * lagBasis n t i u

/-- `transform_rows` for one coordinate component of one scan line.
`kn` are the `nk` knot values, `u ∈ linspace(0, 1, W)`, `fcomp` the matching component of
`scan_fast`, `W` the number of columns (`input_shape[1]`). -/
def transformRow (nk W : Nat) (kn : Nat → R) (fcomp : R) (u : R) : R :=
  if nk = 1 then
    -- xa = knots_row[0] + u * scan_fast[0] * (input_shape[1] - 1)   (same factor in `ya`)
    kn 0 + u * fcomp * Num.ofInt ((W : Int) - 1)
  else if nk = 2 then
    -- interp1d linear: slope = (y_hi - y_lo)/(x_hi - x_lo); y = slope*(x - x_lo) + y_lo
    let t : Nat → R := linspace Num.zero Num.one 2
    ((kn 1 - kn 0) / (t 1 - t 0)) * (u - t 0) + kn 0
  else
    -- nk = 3 ("quadratic") and nk = 4 ("cubic"); larger knot counts (a genuine cubic spline) are
    -- outside the property and not modelled
    lagrange nk (linspace Num.zero Num.one nk) kn u

/-- `transform_coordinates` on `preprocess`-made knots: canvas coordinates of pixel `(r, c)` -/
def coords (Hc Wc H W nk : Nat) (sc : Scan R) (r c : Nat) : R × R :=
  let u : R := linspace Num.zero Num.one W c
  (transformRow nk W (fun k => (initialKnot Hc Wc H W nk sc r k).1) sc.f0 u,
   transformRow nk W (fun k => (initialKnot Hc Wc H W nk sc r k).2) sc.f1 u)

variable [NumFloor R]

/-- `int(np.round(n * (1 + pad_fraction) / 2) * 2)` (`np.round` rounds half to even) -/
def canvasDim (n : Nat) (pad : R) : Int :=
  roundHalfEven (Num.ofNat n * (Num.one + pad) / Num.two) * 2

/-! ## bilinear splat (`bilinear_kde` before the Gaussian filter) -/

/-- the four `(row, col, weight)` contributions of a point at `(xa, ya)` -/
def corners (xa ya : R) : List (Int × Int × R) :=
  let xF := NumFloor.floor xa
  let yF := NumFloor.floor ya
  let dx := xa - Num.ofInt xF
  let dy := ya - Num.ofInt yF
  [ (xF, yF, (Num.one - dx) * (Num.one - dy)),
    (xF + 1, yF, dx * (Num.one - dy)),
    (xF, yF + 1, (Num.one - dx) * dy),
    (xF + 1, yF + 1, dx * dy) ]

/-- what one corner contributes to canvas cell `(i, j)`:
`ravel_multi_index(mode="wrap")` sends `(row, col)` to `(row % rows, col % cols)` -/
def hit (rows cols : Nat) (q : Int × Int × R) (i j : Nat) : R :=
  if wrap rows q.1 = i ∧ wrap cols q.2.1 = j then q.2.2 else Num.zero

/-- what one point adds to canvas cell `(i, j)` (`bincount` of the four wrapped corners) -/
def splatAt (rows cols : Nat) (xa ya : R) (i j : Nat) : R :=
  ((corners xa ya).map fun q => hit rows cols q i j).foldl (· + ·) Num.zero

/-- raw `pix_count[i, j]` for `n` points -/
def weightMapAt (rows cols n : Nat) (pt : Nat → R × R) (i j : Nat) : R :=
  sumN n fun p => splatAt rows cols (pt p).1 (pt p).2 i j

/-! ## Gaussian KDE (`scipy.ndimage.gaussian_filter`, one axis) -/

/-- correlation of a length-`n` signal with a kernel of radius `r` (`w 0 … w (2r)`, centre `w r`) under
`mode="wrap"`: `out[i] = Σ_d w[d] · x[(i + d - r) mod n]` -/
def convWrap (n r : Nat) (w x : Nat → R) (i : Nat) : R :=
  sumN (2 * r + 1) fun d => w d * x (wrap n ((i : Int) + d - r))

/-- index map of `mode="reflect"` (the default of `gaussian_filter`, the mode the code uses):
`(d c b a | a b c d | d c b a)`, i.e. the even extension of period `2n` -/
def reflIdx (n : Nat) (z : Int) : Nat :=
  let j := wrap (2 * n) z
  if j < n then j else 2 * n - 1 - j

/-- the same correlation under `mode="reflect"` -/
def convReflect (n r : Nat) (w x : Nat → R) (i : Nat) : R :=
  sumN (2 * r + 1) fun d => w d * x (reflIdx n ((i : Int) + d - r))

/-! ## translation alignment -/

/-- a Fourier-space image (`np.fft.fft2` of a canvas, or the running reference `F_ref`) -/
abbrev FImg (R : Type) := Nat → Nat → Cx R

/-- a registration routine on Fourier-space images: `(F_ref, F_im) ↦ (shift, aligned F_im)`; the
code calls `cross_correlation_shift(F_ref, fft2(im), fft_input=True, fft_output=True,
return_shifted_image=True, upsample_factor=…, max_shift=…)` -/
abbrev Reg (R : Type) := FImg R → FImg R → (R × R) × FImg R

/-- `F_ref = F_ref * ind / (ind + 1) + image_shift / (ind + 1)` -/
def meanUpdate (ref al : FImg R) (ind : Nat) : FImg R :=
  fun k l =>
    ⟨(ref k l).re * Num.ofNat ind / Num.ofNat (ind + 1) + (al k l).re / Num.ofNat (ind + 1),
     (ref k l).im * Num.ofNat ind / Num.ofNat (ind + 1) + (al k l).im / Num.ofNat (ind + 1)⟩

/-- the loop `for ind in range(1, n)` of `align_translation` -/
def alignLoop (reg : Reg R) : FImg R → Nat → List (FImg R) → List (R × R)
  | _, _, [] => []
  | ref, ind, im :: rest =>
      let r := reg ref im
      r.1 :: alignLoop reg (meanUpdate ref r.2 ind) (ind + 1) rest

/-- `dxy` before the mean is removed (`dxy[0] = 0`, `F_ref = fft2(images_warped[0])`) -/
def alignShifts (reg : Reg R) : List (FImg R) → List (R × R)
  | [] => []
  | im0 :: rest => (Num.zero, Num.zero) :: alignLoop reg im0 1 rest

/-- the registration routine `align_translation` uses, built from C13's model of
`cross_correlation_shift(F_ref, F_im, upsample_factor=up, max_shift=ms, fft_input=True,
fft_output=True, return_shifted_image=True)`.  `ccReal Fr Fi` stands for
`real(ifft2(Fr * conj(Fi)))` (a parameter: the driver passes the defining inverse DFT). -/
def regNp (M N up : Nat) (ms : Option R) (ccReal : FImg R → FImg R → Nat → Nat → R) : Reg R :=
  fun Fr Fi =>
    let raw := ccReal Fr Fi
    let cs := masked M N ms raw
    let shift := if up ≤ 1 then shiftNp1 M N cs raw else shiftNpUp M N up cs raw (ccF Fr Fi)
    (shift, rampAt M N Fi shift.1 shift.2)

/-- `real(ifft2(F_ref * conj(F_im)))` — the `ccReal` the code (and the driver) uses -/
def ccRealDft (M N : Nat) : FImg R → FImg R → Nat → Nat → R :=
  fun Fr Fi => idft2ReAt M N (ccF Fr Fi)

def sumPairs : List (R × R) → R × R
  | [] => (Num.zero, Num.zero)
  | d :: ds => let s := sumPairs ds; (d.1 + s.1, d.2 + s.2)

/-- `dxy -= np.mean(dxy, axis=0)` -/
def removeMean (d : List (R × R)) : List (R × R) :=
  let s := sumPairs d
  let n : R := Num.ofNat d.length
  d.map fun v => (v.1 - s.1 / n, v.2 - s.2 / n)

/-- `knots[ind][0] += dxy[ind, 0]; knots[ind][1] += dxy[ind, 1]` for one knot -/
def moveKnot (k d : R × R) : R × R := (k.1 + d.1, k.2 + d.2)

end QuantemModel.Drift
