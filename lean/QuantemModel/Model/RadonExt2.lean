import QuantemModel.Model.Radon
import QuantemModel.Model.RadonExt
/-!
C07 growth round 6 — more of `quantem/tomography/radon/radon.py` inside the model.  Core Lean only.

* `iradonGeom`: the integers iradon_torch derives from the sinogram width before it touches the data
  (`diagonal`, `pad_before`, the right-hand padding of the circle-to-square step, `padded_size`,
  `pad_y`, the output size) — compared EXACTLY with what the real call feeds to its FFT, for every width.
* `iradonTorchBatchLoop`: the back-projection as the code computes it on a batch — ONE preallocated
  zero tensor `recon[B, out, out]`, and in the `i`-th iteration of `for i, angle in enumerate(theta)`
  one image `proj` per batch item, computed from `filtered[:, i, :]`, added in place (`recon += proj`),
  then the circle mask and the scaling on the whole batch.
-/
namespace QuantemModel.Radon
open QuantemModel

variable {R : Type} [Num R] [HasFloor R]

/-- the integers of one iradon_torch call -/
structure IradonGeom where
  D : Nat          -- detector length after the circle-to-square padding (`N = diagonal`)
  padBefore : Nat  -- `pad_before = diagonal // 2 - N // 2`
  padAfter : Nat   -- `diagonal - N - pad_before`
  P : Nat          -- `padded_size`
  padY : Nat       -- `pad_y = padded_size - N`
  out : Nat        -- `output_size`
  deriving Repr, DecidableEq

def iradonGeom (N : Nat) (circle : Bool) (out : Option Nat) : IradonGeom :=
  let D := if circle then diagSize (R := R) N else N
  let pb := if circle then D / 2 - N / 2 else 0
  { D := D, padBefore := pb, padAfter := if circle then D - N - pb else 0,
    P := paddedSize D, padY := paddedSize D - D,
    out := out.getD (outputSize (R := R) N circle) }

/-- an `out × out` image given by its entries -/
def tab (out : Nat) (h : Nat → Nat → R) : List (List R) :=
  (List.range out).map fun r => (List.range out).map fun c => h r c

/-- `proj` of one batch item in one loop iteration: `(1 - w) * val0 + w * val1`, masked to the detector,
at `t_idx = t + N // 2` for every output pixel -/
def projImage (D : Nat) (row : List R) (θ : R) (out : Nat) : List (List R) :=
  tab out fun r c => interpTorch D (rowAcc row) (detT (out / 2) θ r c + Num.ofNat (D / 2))

/-- `recon[b] += proj[b]` -/
def addImage (a b : List (List R)) : List (List R) :=
  List.zipWith (fun ra rb => List.zipWith (fun x y => x + y) ra rb) a b

/-- the filtered sinograms `filtered[B][A][D]` of a batch (padding, FFT filtering, cut back to `D`) -/
def filteredBatch (sinos : List (List (List R))) (name : FilterName) (circle : Bool) (N D : Nat) : List (List (List R)) :=
  let P := paddedSize D
  let filt := fourierFilterTorch (R := R) name P
  sinos.map fun sino => (if circle then sino.map (circleToSquare D N) else sino).map (filterRow filt P D)

/-- iradon_torch on a batch `[B][A][N]` with an explicit output size, as the code computes it. -/
def iradonTorchBatchLoop (sinos : List (List (List R))) (thetas : Option (List R)) (name : FilterName)
    (circle : Bool) (out : Nat) : List (List (List R)) :=
  let A := (sinos.headD []).length                       -- B, A, N = sinograms.shape
  let N := ((sinos.headD []).headD []).length
  let th := thetas.getD ((List.range A).map fun i => Num.ofNat i * (Num.ofNat 180 / Num.ofNat A))
  let D := if circle then diagSize (R := R) N else N
  let filtered := filteredBatch sinos name circle N D
  -- recon = torch.zeros((B, output_size, output_size))
  let recon0 : List (List (List R)) := filtered.map fun _ => List.replicate out (List.replicate out Num.zero)
  -- for i, angle in enumerate(theta): ... recon += proj
  let recon := th.zipIdx.foldl
    (fun recon p => List.zipWith (fun rb fb => addImage rb (projImage D (fb.getD p.2 []) p.1 out)) recon filtered) recon0
  -- recon[:, mask] = 0.0 ; recon *= pi / (2 * A)
  recon.map fun rb => tab out fun r c =>
    let acc := (rb.getD r []).getD c Num.zero
    let acc := if circle && outsideCircle (out / 2) r c then Num.zero else acc
    acc * (Num.pi / Num.ofNat (2 * th.length))

end QuantemModel.Radon
