/-
State machines of the two objects that HOLD centre-of-mass state (property C18).  Core Lean only.

  * `CenterOfMassOriginModel`   src/quantem/diffractive_imaging/origin_models.py
        state   `num_dps, dataset.shape, _tensor, _origin_measured, _origin_fitted, _shifted_tensor`
        calls   `calculate_origin`, the `origin_measured` / `origin_fitted` / `tensor` setters,
                `fit_origin_background`, `shift_origin_to`, `forward` — INCLUDING every way in which
                a call is rejected (bad argument, failing validation, a callee that raises)
  * `PtychographyDatasetRaster` src/quantem/diffractive_imaging/dataset_models.py
        state   `intensities_4d` (held by reference), `com_measured`, `com_fit`
        calls   `_set_intensities_com` (both paths, masks, fit functions none / no_shift / constant,
                an invalid fit function, a mask of the wrong shape), the centre-of-mass part of
                `preprocess()`, in-place edits of the held array, the `intensities_4d` /
                `com_measured` / `com_fit` setters

Every step returns the new state together with `none` (the call returned) or `some r` (it raised).
The numeric work is done by the functions of `Model/Origin.lean`.
-/
import QuantemModel.Model.Origin

namespace QuantemModel.Origin
open QuantemModel

/-- how a call ended when it did not return (the Python exception class) -/
inductive Rejected where
  | valueError
  | runtimeError
  | notImplemented
  deriving Repr, DecidableEq

/-- `[a0, b0, a1, b1, …]` → `[(a0, b0), (a1, b1), …]`: `.view((-1, 2))` of a row-major array with an
even number of entries -/
def pairUp {α : Type} : List α → List (α × α)
  | a :: b :: t => (a, b) :: pairUp t
  | _ => []

/-- a buffer created with `torch.empty` is usable only if every entry has been written -/
def allSome {α : Type} : List (Option α) → Option (List α)
  | [] => some []
  | none :: _ => none
  | some a :: t => (allSome t).map (a :: ·)

/-- an array-like handed to a setter: `real = false` stands for everything `validate_tensor(…,
dtype=torch.float)` refuses (complex dtype, strings); `vals` is the row-major content -/
structure RawArray (α : Type) where
  real : Bool
  vals : List α

/-- `.expand((num_dps, 2))` on a `(k, 2)` tensor, as a raising operation -/
def storePairs {α : Type} (numDps : Nat) (l : List (α × α)) : Except Rejected (List (α × α)) :=
  match expandPairs numDps l with
  | some l' => .ok l'
  | none => .error .runtimeError                               -- "The expanded size of the tensor …"

/-- the `origin_measured` / `origin_fitted` setters on any array-like:
`validate_tensor(value, …).to(device).view((-1, 2)).expand((num_dps, 2))` — the expression is
evaluated completely BEFORE the attribute is assigned -/
def setOrigins {α : Type} (numDps : Nat) (v : RawArray α) : Except Rejected (List (α × α)) :=
  if !v.real then .error .valueError                           -- validate_tensor raises
  else if v.vals.length % 2 ≠ 0 then .error .runtimeError      -- .view((-1, 2)) raises
  else storePairs numDps (pairUp v.vals)

section
variable {R : Type} [Num R]

/-! ### 1. `CenterOfMassOriginModel` -/

structure OmState (R : Type) where
  numDps : Nat                               -- self.num_dps
  scan : Option (Nat × Nat)                  -- dataset.shape[:2] when dataset.ndim == 4
  h : Nat                                    -- dataset.shape[-2]
  w : Nat                                    -- dataset.shape[-1]
  tensor : List (Pattern R)                  -- self.tensor.view((-1, h, w))
  measured : Option (List (R × R))           -- self._origin_measured
  fitted : Option (List (R × R))             -- self._origin_fitted
  shifted : Option (List (Pattern R))        -- self._shifted_tensor

/-- `from_dataset(dataset)`: `num_dps = prod(dataset.shape[:-2])`, nothing measured yet -/
def OmState.init (scan : Option (Nat × Nat)) (h w : Nat) (t3 : List (Pattern R)) : OmState R :=
  { numDps := t3.length, scan := scan, h := h, w := w, tensor := t3, measured := none, fitted := none, shifted := none }

inductive FitMethod where
  | plane
  | constant
  | other                                    -- any other string
  deriving Repr, DecidableEq

inductive Positions (R : Type) where
  | inferred                                 -- probe_positions=None
  | explicit (v : RawArray R)                -- tensor / ndarray, flat (N, 2) or scan grid

inductive OmOp (R : Type) where
  | measure (b : Nat)                         -- calculate_origin(max_batch_size=b); None is num_dps
  | setMeasured (v : RawArray R)             -- model.origin_measured = v
  | setFitted (v : RawArray R)               -- model.origin_fitted = v
  | fit (pos : Positions R) (m : FitMethod) (nrm : (R × R × R) × (R × R × R))   -- fit_origin_background
  | shift (coord : R × R) (b : Nat)          -- shift_origin_to(origin_coordinate=coord, max_batch_size=b)
  | setTensor (scan : Option (Nat × Nat)) (h w : Nat) (t3 : List (Pattern R))   -- model.tensor = 4-D array
  | forward (b : Nat) (m : FitMethod) (nrm : (R × R × R) × (R × R × R)) (coord : R × R)
      -- forward(max_batch_size=b, fit_method=m, estimate_detector_orientation=False, origin_coordinate=coord)

/-- `origin_measured.mean(0)` -/
def meanPair (o : List (R × R)) : R × R :=
  let n : R := Num.ofNat o.length
  (Num.sum (o.map (·.1)) / n, Num.sum (o.map (·.2)) / n)

/-- a call computes everything first and assigns last: the object changes only if nothing raised -/
def commit {σ α : Type} (s : σ) (r : Except Rejected α) (f : α → σ) : σ × Option Rejected :=
  match r with
  | .ok a => (f a, none)
  | .error e => (s, some e)

def calcE (s : OmState R) (b : Nat) : Except Rejected (List (R × R)) :=
  if b = 0 then .error .valueError                             -- range(0, n, 0) in SimpleBatcher.__iter__
  else match allSome (comTorchBatched b s.h s.w s.tensor) with
    | none => .error .runtimeError                             -- an unwritten entry (never for b > 0)
    | some com => storePairs s.numDps com                      -- self.origin_measured = com_measured

def omCalc (s : OmState R) (b : Nat) : OmState R × Option Rejected :=
  commit s (calcE s b) (fun l => { s with measured := some l })

def omSetMeasured (s : OmState R) (v : RawArray R) : OmState R × Option Rejected :=
  commit s (setOrigins s.numDps v) (fun l => { s with measured := some l })

def omSetFitted (s : OmState R) (v : RawArray R) : OmState R × Option Rejected :=
  commit s (setOrigins s.numDps v) (fun l => { s with fitted := some l })

/-- the probe positions `fit_origin_background` works with -/
def fitPositions (s : OmState R) (om : List (R × R)) : Positions R → Except Rejected (List (R × R))
  | .inferred =>
      match s.scan with
      | none => .error .valueError                             -- "probe positions could not be inferred"
      | some (nx, ny) => .ok (rasterPositions nx ny)
  | .explicit v =>
      if !v.real then .error .valueError                       -- validate_tensor
      else if v.vals.length % 2 ≠ 0 then .error .runtimeError  -- .view((-1, 2))
      else if (pairUp v.vals).length ≠ om.length then .error .valueError   -- "shape must match"
      else .ok (pairUp v.vals)

def fitE (s : OmState R) (pos : Positions R) (m : FitMethod) (nrm : (R × R × R) × (R × R × R)) :
    Except Rejected (List (R × R)) :=
  match s.measured with
  | none => .error .valueError                                 -- "measured origins not detected"
  | some om =>
    match fitPositions s om pos with
    | .error e => .error e
    | .ok pp =>
      match m with
      | .plane => storePairs s.numDps
          (List.zip (fitPlanePCA pp (om.map (·.1)) nrm.1) (fitPlanePCA pp (om.map (·.2)) nrm.2))
      | .constant => storePairs s.numDps [meanPair om]         -- a single (2,) pair through the setter
      | .other => .error .notImplemented

def omFit (s : OmState R) (pos : Positions R) (m : FitMethod) (nrm : (R × R × R) × (R × R × R)) :
    OmState R × Option Rejected :=
  commit s (fitE s pos m nrm) (fun f => { s with fitted := some f })

def shiftE [HasFloor R] (s : OmState R) (coord : R × R) (b : Nat) : Except Rejected (List (Pattern R)) :=
  match s.fitted with
  | none => .error .valueError                                 -- "fitted origins not detected"
  | some f =>
    if b = 0 then .error .valueError
    else match allSome (shiftAllBatched b coord s.h s.w f s.tensor) with
      | none => .error .runtimeError
      | some sh => .ok sh

def omShift [HasFloor R] (s : OmState R) (coord : R × R) (b : Nat) : OmState R × Option Rejected :=
  commit s (shiftE s coord b) (fun sh => { s with shifted := some sh })

/-- the `tensor` setter (as repaired: `num_dps` follows the new array; `dataset.array` is replaced, so
the shapes the other calls read from the dataset follow as well); stored origins are kept -/
def omSetTensor (s : OmState R) (scan : Option (Nat × Nat)) (h w : Nat) (t3 : List (Pattern R)) :
    OmState R × Option Rejected :=
  ({ s with tensor := t3, scan := scan, h := h, w := w, numDps := t3.length }, none)

def omStep [HasFloor R] (s : OmState R) : OmOp R → OmState R × Option Rejected
  | .measure b => omCalc s b
  | .setMeasured v => omSetMeasured s v
  | .setFitted v => omSetFitted s v
  | .fit pos m nrm => omFit s pos m nrm
  | .shift coord b => omShift s coord b
  | .setTensor scan h w t3 => omSetTensor s scan h w t3
  | .forward b m nrm coord =>
      -- three calls in a row; NOT atomic: what the earlier calls stored stays when a later one raises
      match omCalc s b with
      | (s1, some e) => (s1, some e)
      | (s1, none) =>
        match omFit s1 .inferred m nrm with
        | (s2, some e) => (s2, some e)
        | (s2, none) => omShift s2 coord b

/-- the object after a whole history -/
def omRun [HasFloor R] (s : OmState R) (ops : List (OmOp R)) : OmState R :=
  ops.foldl (fun st op => (omStep st op).1) s

/-- the calls of a history that returned (decided along the run) -/
def omAccepted [HasFloor R] : OmState R → List (OmOp R) → List (OmOp R)
  | _, [] => []
  | s, op :: rest =>
      match omStep s op with
      | (s', none) => op :: omAccepted s' rest
      | (s', some _) => omAccepted s' rest

/-- a setter written the other way round (kept as a warning, see `store_before_validate_counterexample`):
the reshaped value is stored FIRST and the row count is checked afterwards -/
def omSetMeasuredStoreFirst (s : OmState R) (v : RawArray R) : OmState R × Option Rejected :=
  if !v.real then (s, some .valueError)
  else if v.vals.length % 2 ≠ 0 then (s, some .runtimeError)
  else
    let s1 := { s with measured := some (pairUp v.vals) }      -- self._origin_measured = value.view((-1, 2))
    match storePairs s.numDps (pairUp v.vals) with
    | .ok l => ({ s1 with measured := some l }, none)
    | .error e => (s1, some e)

/-! ### 2. `PtychographyDatasetRaster`: `intensities_4d`, `com_measured`, `com_fit` -/

abbrev Grid (R : Type) := List (List R)

structure DsState (R : Type) where
  gpts : Nat × Nat                           -- self.gpts
  roi : Nat × Nat                            -- self.roi_shape
  held : List (List (Pattern R))             -- self.intensities_4d (a reference: in-place edits are seen)
  comMeasured : Option (Grid R × Grid R)     -- self._com_measured
  comFit : Option (Grid R × Grid R)          -- self._com_fit

inductive DsFit where
  | none                                     -- "none"
  | noShift                                  -- "no_shift"
  | constant                                 -- "constant"
  | other                                    -- a string fit_origin does not know
  deriving Repr, DecidableEq

inductive DsSrc (R : Type) where
  | held                                     -- _set_intensities_com(self.intensities_4d, …)
  | external (h w : Nat) (I4 : List (List (Pattern R)))

inductive DsOp (R : Type) where
  | setCom (src : DsSrc R) (mask : Option (Pattern R)) (fit : DsFit) (vec : Bool)
  | preprocess (fit : DsFit) (vec : Bool)    -- the centre-of-mass stage of preprocess()
  | edit (a b : Nat) (pat : Pattern R)       -- self.intensities_4d[a, b] = pat   (in place)
  | assign (I4 : List (List (Pattern R)))    -- self.intensities_4d = new 4-D array of the same shape
  | setComMeasured (v : Grid R × Grid R)     -- self.com_measured = (r, c)
  | setComFit (v : Grid R × Grid R)          -- self.com_fit = (r, c)

/-- `shape == (nr, nc)` of a nested list -/
def gridShapeIs {α : Type} (nr nc : Nat) (g : List (List α)) : Bool :=
  g.length == nr && g.all (fun row => row.length == nc)

/-- the `com_measured` / `com_fit` setters: `validate_array(com, shape=(2, *self.gpts))` -/
def validCom (gpts : Nat × Nat) (v : Grid R × Grid R) : Bool :=
  gridShapeIs gpts.1 gpts.2 v.1 && gridShapeIs gpts.1 gpts.2 v.2

/-- the measured centre of mass on either path -/
def comGrids (mask : Option (Pattern R)) (h w : Nat) (I4 : List (List (Pattern R))) (vec : Bool) : Grid R × Grid R :=
  if vec then comNumpyVectorised mask h w I4 else comNumpyLooped mask h w I4

/-- `dp_mask.shape != intensities.shape[-2:]` → ValueError -/
def maskOk (mask : Option (Pattern R)) (h w : Nat) : Bool :=
  match mask with
  | some m => gridShapeIs h w m
  | none => true

/-- the fitted centre of mass for the fit functions that need no optimiser -/
def dsFitE (roi : Nat × Nat) (fit : DsFit) (cm : Grid R × Grid R) : Except Rejected (Grid R × Grid R) :=
  match fit with
  | .none => .ok cm                                            -- com_fit_r, com_fit_c = com_measured_r, com_measured_c
  | .noShift =>                                                -- ones_like * (roi_shape // 2)
      .ok (cm.1.map (fun row => row.map (fun _ => Num.one * Num.ofNat (roi.1 / 2))),
           cm.2.map (fun row => row.map (fun _ => Num.one * Num.ofNat (roi.2 / 2))))
  | .constant => .ok (fitConstantNumpy cm.1, fitConstantNumpy cm.2)     -- fit_origin(…, "constant")
  | .other => .error .valueError                               -- fit_origin raises before anything is stored

/-- everything `_set_intensities_com` computes before its two assignments at the very end -/
def dsComE (gpts roi : Nat × Nat) (h w : Nat) (I4 : List (List (Pattern R))) (mask : Option (Pattern R)) (fit : DsFit)
    (vec : Bool) : Except Rejected ((Grid R × Grid R) × (Grid R × Grid R)) :=
  if !maskOk mask h w then .error .valueError
  else match dsFitE roi fit (comGrids mask h w I4 vec) with
    | .error e => .error e
    | .ok cf =>
      if validCom gpts (comGrids mask h w I4 vec) then .ok (comGrids mask h w I4 vec, cf)
      else .error .valueError                                  -- self.com_measured = … raises first

def dsSetCom (s : DsState R) (h w : Nat) (I4 : List (List (Pattern R))) (mask : Option (Pattern R)) (fit : DsFit)
    (vec : Bool) : DsState R × Option Rejected :=
  commit s (dsComE s.gpts s.roi h w I4 mask fit vec) (fun r => { s with comMeasured := some r.1, comFit := some r.2 })

def setAt {α : Type} (l : List α) (i : Nat) (f : α → α) : List α :=
  match l[i]? with
  | some x => l.set i (f x)
  | none => l

def dsStep (s : DsState R) : DsOp R → DsState R × Option Rejected
  | .setCom .held mask fit vec => dsSetCom s s.roi.1 s.roi.2 s.held mask fit vec
  | .setCom (.external h w I4) mask fit vec => dsSetCom s h w I4 mask fit vec
  | .preprocess fit vec => dsSetCom s s.roi.1 s.roi.2 s.held none fit vec
  | .edit a b pat => ({ s with held := setAt s.held a (fun row => row.set b pat) }, none)
  | .assign I4 => ({ s with held := I4 }, none)
  | .setComMeasured v => commit s (if validCom s.gpts v then .ok v else .error .valueError) (fun v => { s with comMeasured := some v })
  | .setComFit v => commit s (if validCom s.gpts v then .ok v else .error .valueError) (fun v => { s with comFit := some v })

def dsRun (s : DsState R) (ops : List (DsOp R)) : DsState R :=
  ops.foldl (fun st op => (dsStep st op).1) s

end

end QuantemModel.Origin
