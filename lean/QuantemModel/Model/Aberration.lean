import QuantemModel.Core.Num
import QuantemModel.Generated.Aberration
/-!
C12 — hand-written specification of the aberration surface and hand models of the code that is
not formula code (alias handling, polar-decomposition fit).  Core Lean only, generic over `[Num R]`.

* `chi` : the one meaning of the surface,
    χ(α,φ) = (2π/λ) Σ_{(n,m)∈table} α^{n+1}/(n+1) · C_nm · cos(m(φ − φ_nm))
  over the table of the 14 (n,m) pairs of orders 1..5 (25 polar symbols, 25 Cartesian labels).
* `standardize`, `validate`, `probeParams` : the three places where coefficient dicts with
  aliases are accepted (complex_probe.standardize_aberration_coefs,
  validators.validate_aberration_coefficients, ProbeBase.probe_params setter), branch by branch.
* `lateralShift`, `lstsq2`, `polar2`, `fitExtract`, `fit` : DirectPtychography._return_lateral_shifts
  and direct_ptycho_utils.fit_aberrations_from_shifts as 2×2 algebra.
The translated formula code lives in Generated/Aberration.lean.
-/
namespace QuantemModel.Aberration
open QuantemModel
variable {R : Type} [Num R]

/-! ## the specification -/

/-- (n, m, name of C_nm, name of phi_nm ("" when m = 0)) -/
def table : List (Nat × Nat × String × String) :=
  [(1, 0, "C10", ""), (1, 2, "C12", "phi12"),
   (2, 1, "C21", "phi21"), (2, 3, "C23", "phi23"),
   (3, 0, "C30", ""), (3, 2, "C32", "phi32"), (3, 4, "C34", "phi34"),
   (4, 1, "C41", "phi41"), (4, 3, "C43", "phi43"), (4, 5, "C45", "phi45"),
   (5, 0, "C50", ""), (5, 2, "C52", "phi52"), (5, 4, "C54", "phi54"), (5, 6, "C56", "phi56")]

/-- the polar symbols named by the table, in table order -/
def tableSymbols : List String :=
  table.flatMap fun t => if t.2.1 = 0 then [t.2.2.1] else [t.2.2.1, t.2.2.2]

/-- the Cartesian labels named by the table, in table order -/
def tableLabels : List String :=
  table.flatMap fun t => if t.2.1 = 0 then [t.2.2.1] else [t.2.2.1 ++ "_a", t.2.2.1 ++ "_b"]

def pw (x : R) : Nat → R
  | 0 => Num.one
  | n + 1 => pw x n * x

def sumOver {ι : Type} : List ι → (ι → R) → R
  | [], _ => Num.zero
  | a :: t, f => f a + sumOver t f

/-- the azimuth offset of entry `t` under coefficients `c` (0 for the round terms) -/
def phase0 (c : String → R) (t : Nat × Nat × String × String) : R :=
  if t.2.1 = 0 then Num.zero else c t.2.2.2

/-- α^{n+1}/(n+1) · C · cos(m(φ − φ₀)) -/
def term (n m : Nat) (C phi0 alpha phi : R) : R :=
  pw alpha (n + 1) / Num.ofNat (n + 1) * (C * Num.cos (Num.ofNat m * (phi - phi0)))

/-- ∂/∂α of `term` -/
def termDAlpha (n m : Nat) (C phi0 alpha phi : R) : R :=
  pw alpha n * (C * Num.cos (Num.ofNat m * (phi - phi0)))

/-- ∂/∂φ of `term` -/
def termDPhi (n m : Nat) (C phi0 alpha phi : R) : R :=
  pw alpha (n + 1) / Num.ofNat (n + 1) * (C * (-(Num.ofNat m * Num.sin (Num.ofNat m * (phi - phi0)))))

/-- the aberration phase surface χ(α, φ) for wavelength `lam` and polar coefficients `c` -/
def chi (alpha phi lam : R) (c : String → R) : R :=
  Num.two * Num.pi / lam *
    sumOver table (fun t => term t.1 t.2.1 (c t.2.2.1) (phase0 c t) alpha phi)

def chiDAlpha (alpha phi lam : R) (c : String → R) : R :=
  Num.two * Num.pi / lam *
    sumOver table (fun t => termDAlpha t.1 t.2.1 (c t.2.2.1) (phase0 c t) alpha phi)

def chiDPhi (alpha phi lam : R) (c : String → R) : R :=
  Num.two * Num.pi / lam *
    sumOver table (fun t => termDPhi t.1 t.2.1 (c t.2.2.1) (phase0 c t) alpha phi)

/-- Σ_l cart_l · basis_l over the label table the translator unrolled the basis over -/
def dot : List R → List R → R
  | a :: as, b :: bs => a * b + dot as bs
  | _, _ => Num.zero

/-- the Cartesian-basis expansion evaluated with the generated basis columns -/
def basisExpansion (alpha phi lam : R) (cart : String → R) : R :=
  dot (Generated.Aberration.CARTESIAN_LABELS.map cart)
      (Generated.Aberration.aberration_surface_cartesian_basis alpha phi lam)

/-- a dict returned by generated code, read back as an environment -/
def envOfDict (d : List (String × R)) : String → R := Generated.Aberration.lookupD d

/-! ## alias handling (three implementations) -/

-- `Err` and `dset` live in Model/AberrationBase.lean (the translated alias loop bodies use them)

def dget : List (String × R) → String → Option R
  | [], _ => none
  | (a, x) :: rest, k => if a = k then some x else dget rest k

def aliasTarget (aliases : List (String × String)) (k : String) : Option String :=
  match aliases with
  | [] => none
  | (a, t) :: rest => if a = k then some t else aliasTarget rest k

/-- one iteration of the loop of `complex_probe.standardize_aberration_coefs`
(value `none` = Python `None`, on which `float(val)` raises TypeError) -/
def standardizeStep (syms : List String) (aliases : List (String × String))
    (out : List (String × R)) (k : String) (v : Option R) : Except Err (List (String × R)) :=
  let canonical := (aliasTarget aliases k).getD k          -- POLAR_ALIASES.get(key, key)
  if k = "defocus" then                                     -- if key == "defocus": out["C10"] = -float(val)
    match v with
    | none => .error .typeError
    | some x => .ok (dset out "C10" (-x))
  else if syms.contains canonical then                      -- elif canonical in POLAR_SYMBOLS
    match v with
    | none => .error .typeError
    | some x => .ok (dset out canonical x)
  else .error .keyError                                     -- else: raise KeyError

def standardizeFrom (syms : List String) (aliases : List (String × String)) :
    List (String × R) → List (String × Option R) → Except Err (List (String × R))
  | out, [] => .ok out
  | out, (k, v) :: rest =>
    match standardizeStep syms aliases out k v with
    | .error e => .error e
    | .ok out' => standardizeFrom syms aliases out' rest

def standardize (syms : List String) (aliases : List (String × String))
    (l : List (String × Option R)) : Except Err (List (String × R)) :=
  standardizeFrom syms aliases [] l

/-- one iteration of `process_polar_params` in validators.validate_aberration_coefficients and
in the ProbeBase.probe_params setter (non-dict value); keys that are no symbol/alias are ignored -/
def processStep (syms : List String) (aliases : List (String × String))
    (out : List (String × R)) (k : String) (v : Option R) : List (String × R) :=
  match v with
  | none => out                                             -- if value is None: continue
  | some x =>
    if syms.contains k then dset out k x                    -- elif symbol in POLAR_SYMBOLS
    else if k = "defocus" then dset out "C10" (-x)          -- elif symbol == "defocus": C10 = -float(value)
    else match aliasTarget aliases k with                   -- elif symbol in POLAR_ALIASES
      | some t => dset out t x
      | none => out

def processFrom (syms : List String) (aliases : List (String × String)) :
    List (String × R) → List (String × Option R) → List (String × R)
  | out, [] => out
  | out, (k, v) :: rest => processFrom syms aliases (processStep syms aliases out k v) rest

/-- `validators.validate_aberration_coefficients` -/
def validate (syms : List String) (aliases : List (String × String))
    (l : List (String × Option R)) : Except Err (List (String × R)) :=
  -- validate_dict_keys(value, [*POLAR_SYMBOLS, *POLAR_ALIASES.keys()])  → ValueError
  if l.all (fun kv => syms.contains kv.1 || (aliasTarget aliases kv.1).isSome) then
    .ok (processFrom syms aliases [] l)
  else .error .valueError

/-- a value in the `probe_params` dict -/
inductive PVal (R : Type)
  | none
  | num (x : R)
  | dict (items : List (String × Option R))      -- e.g. "aberration_coefs": {...}
  | other                                        -- anything else that is not None / dict / number

/-- the order digit `int(sym[-2])` -/
def orderOf (sym : String) : Nat :=
  match sym.toList.reverse with
  | _ :: d :: _ => d.toNat - '0'.toNat
  | _ => 0

def fillZeros (syms : List String) (maxOrder : Nat) : List (String × R) → List String → List (String × R)
  | out, [] => out
  | out, s :: rest =>
    if orderOf s ≤ maxOrder && (dget out s).isNone then fillZeros syms maxOrder (dset out s Num.zero) rest
    else fillZeros syms maxOrder out rest

def processTop (syms : List String) (aliases : List (String × String)) :
    List (String × R) → List (String × PVal R) → List (String × R)
  | out, [] => out
  | out, (k, v) :: rest =>
    match v with
    | .dict items => processTop syms aliases (processFrom syms aliases out items) rest   -- recurse, keys unchecked
    | .none => processTop syms aliases out rest
    | .num x => processTop syms aliases (processStep syms aliases out k (some x)) rest
    | .other => processTop syms aliases out rest            -- float(value) of e.g. a bool key is never reached: such keys are no symbols

/-- `ProbeBase.probe_params` setter → the resulting `aberration_coefs` dict -/
def probeParams (defaults syms : List String) (aliases : List (String × String)) (maxOrder : Option Nat)
    (l : List (String × PVal R)) : Except Err (List (String × R)) :=
  if l.all (fun kv => defaults.contains kv.1 || syms.contains kv.1 || (aliasTarget aliases kv.1).isSome) then
    let out := processTop syms aliases [] l
    match maxOrder with
    | none => .ok out
    | some mo => .ok (fillZeros syms mo out syms)
  else .error .valueError

/-! ## lateral shifts and the polar-decomposition fit -/

-- the 2×2 matrix type `M2` and its operations live in Model/AberrationBase.lean (the generated file uses them too)

/-- `_passively_rotate_grid` (translated) -/
def rotateGrid (kx ky theta : R) : R × R :=
  Generated.Aberration.passively_rotate_grid kx ky theta

/-- `DirectPtychography._return_lateral_shifts` at one detector pixel (kx, ky): grid rotation, polar coordinates and
Cartesian gradients are the TRANSLATED functions; the glue (`spatial_frequencies(..., rotation_angle)` rotating only
when an angle is given, `k * self.wavelength`, `dx[bf_mask]`, `/ 2 / np.pi`) is written by hand -/
def lateralShift (kx ky lam : R) (theta : Option R) (coefs : String → R) : R × R :=
  let k' := match theta with
    | none => (kx, ky)
    | some t => rotateGrid kx ky t
  let kp := Generated.Aberration.polar_coordinates k'.1 k'.2
  let g := Generated.Aberration.aberration_surface_cartesian_gradients (kp.1 * lam) kp.2 coefs
  (g.1 / Num.two / Num.pi, g.2 / Num.two / Num.pi)

/-- least squares `shifts ≈ basis · M` through the normal equations (2 columns) -/
def lstsq2 (basis shifts : List (R × R)) : M2 R :=
  let z : R := Num.zero
  let pairs := basis.zip shifts
  let g11 := pairs.foldl (fun s p => s + p.1.1 * p.1.1) z
  let g12 := pairs.foldl (fun s p => s + p.1.1 * p.1.2) z
  let g22 := pairs.foldl (fun s p => s + p.1.2 * p.1.2) z
  let h11 := pairs.foldl (fun s p => s + p.1.1 * p.2.1) z
  let h12 := pairs.foldl (fun s p => s + p.1.1 * p.2.2) z
  let h21 := pairs.foldl (fun s p => s + p.1.2 * p.2.1) z
  let h22 := pairs.foldl (fun s p => s + p.1.2 * p.2.2) z
  M2.mul (M2.inv ⟨g11, g12, g12, g22⟩) ⟨h11, h12, h21, h22⟩

/-- polar decomposition `M = U · P` of a non-singular 2×2 matrix in closed form:
`P = √(MᵀM) = (MᵀM + |det M|·1) / √(tr MᵀM + 2|det M|)`, `U = M P⁻¹`
(`_torch_polar` computes the same factors from an SVD). -/
def polar2 (m : M2 R) : M2 R × M2 R :=
  let q := M2.mul (M2.transpose m) m
  let s := Num.abs (M2.det m)
  let t := Num.sqrt (q.a + q.d + Num.two * s)
  let p : M2 R := ⟨(q.a + s) / t, q.b / t, q.c / t, (q.d + s) / t⟩
  (M2.mul m (M2.inv p), p)

/-- the extraction part of `fit_aberrations_from_shifts`: (C10, C12, phi12, rotation) -/
def fitExtract (u p : M2 R) : R × R × R × R :=
  let pi : R := Num.pi
  let twoPi : R := Num.two * pi
  -- rotation_rad = -arctan2(M_rotation[1, 0], M_rotation[0, 0])
  let rot := -(Num.atan2 u.c u.a)
  -- if 2 * abs(remainder(rot + pi, 2 pi) - pi) > pi: rot = remainder(rot, 2 pi) - pi; M_aberration = -M_aberration
  let flip := Num.ltb pi (Num.two * Num.abs (rem1 (rot + pi) twoPi - pi))
  let rot' := if flip then rem1 rot twoPi - pi else rot
  let p' := if flip then M2.neg p else p
  let a := p'.a
  let b := (p'.c + p'.b) / Num.two
  let c := p'.d
  let c10 := (a + c) / Num.two
  let c12a := (a - c) / Num.two
  let c12b := b
  let c12 := Num.sqrt (Generated.Aberration.npow c12a 2 + Generated.Aberration.npow c12b 2)
  let phi12 := Num.atan2 c12b c12a / Num.two
  (c10, c12, phi12, rot')

def fit (basis shifts : List (R × R)) : R × R × R × R :=
  let up := polar2 (lstsq2 basis shifts)
  fitExtract up.1 up.2

/-- the TRANSLATED extraction part of `fit_aberrations_from_shifts`, read back as (C10, C12, phi12, rotation_angle) -/
def fitExtractTranslated (u p : M2 R) : R × R × R × R :=
  let d := Generated.Aberration.fit_aberrations_from_shifts_extract u p
  (Generated.Aberration.lookupD d "C10", Generated.Aberration.lookupD d "C12",
   Generated.Aberration.lookupD d "phi12", Generated.Aberration.lookupD d "rotation_angle")

/-- the fit with the TRANSLATED `_torch_polar` and the TRANSLATED extraction on top of an abstract svd routine
(only the least-squares solve and the k-grid plumbing are hand-modelled) -/
def fitTranslated (svd : M2 R → M2 R × (R × R) × M2 R) (basis shifts : List (R × R)) : R × R × R × R :=
  let up := Generated.Aberration.torch_polar svd (lstsq2 basis shifts)
  fitExtractTranslated up.1 up.2

/-- executable variant for the driver: closed-form polar factors, translated extraction -/
def fitDriver (basis shifts : List (R × R)) : R × R × R × R :=
  let up := polar2 (lstsq2 basis shifts)
  fitExtractTranslated up.1 up.2

/-- the rotation matrix `R_{-θ}` and the aberration matrix `A` of (C10, C12, φ12):
`_return_lateral_shifts` produces `shifts = basis · (R_{-θ} · A)` for quadratic aberrations -/
def rotNeg (theta : R) : M2 R := ⟨Num.cos theta, Num.sin theta, -Num.sin theta, Num.cos theta⟩
def aberrationMatrix (c10 c12 phi12 : R) : M2 R :=
  ⟨c10 + c12 * Num.cos (Num.two * phi12), c12 * Num.sin (Num.two * phi12),
   c12 * Num.sin (Num.two * phi12), c10 - c12 * Num.cos (Num.two * phi12)⟩

end QuantemModel.Aberration
