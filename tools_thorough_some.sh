#!/bin/bash
# tools_thorough_some.sh <ids...> : (for `vp run`) build everything in this snapshot, then run the thorough tier of the given
# properties one after the other and print one summary line each.  Informational: evidence is only ever committed from /verif itself.
cd "$(dirname "$0")"
bash -c "$(python3 -c "import json;print(json.load(open('MANIFEST.json'))['setup_cmd'])")" > setup.log 2>&1 || { echo "SETUP FAILED"; tail -20 setup.log; exit 2; }
for p in "$@"; do
  s=$(date +%s); VERIF_SEED=0 ./check $p --tier thorough > thorough-$p.log 2>&1; rc=$?
  echo "$p thorough exit=$rc wall=$(( $(date +%s) - s ))s $(grep -c '^VIOLATION' thorough-$p.log) $(grep "^\[$p\]" thorough-$p.log | cut -c1-150)"
done
