#!/usr/bin/env python3
"""Regenerate MANIFEST.json from harness/props/*.py metadata (MANIFEST_ENTRY dicts)."""
import importlib
import json
import os
import sys

HERE = os.path.dirname(os.path.abspath(__file__))
sys.path.insert(0, os.path.join(HERE, "harness"))
ALL = [f"C{i:02d}" for i in range(1, 21)]
NA_REASONS = json.load(open(os.path.join(HERE, "not_applicable.json"))) if os.path.exists(os.path.join(HERE, "not_applicable.json")) else {}

# properties whose checks have been accepted (pass on the unchanged tree, several seeds)
READY = [l.strip() for l in open(os.path.join(HERE, "registered.txt")) if l.strip() and not l.startswith("#")]

checks, na = [], []
EXTRA = []  # further Props modules (EXTRA_PROPS of a harness module), built by setup_cmd as well
for pid in ALL:
    if pid not in READY:
        na.append({"property_id": pid, "reason": NA_REASONS.get(pid, "check under construction in this round (design in DESIGN.md §6); nothing is claimed for it yet")})
        continue
    path = os.path.join(HERE, "harness", "props", pid.lower() + ".py")
    if not os.path.exists(path):
        na.append({"property_id": pid, "reason": NA_REASONS.get(pid, "check not built yet in this round (design in DESIGN.md §6); nothing is claimed for it")})
        continue
    # read metadata without importing heavy deps
    src = open(path).read()
    meta = {}
    ns = {}
    start = src.find("MANIFEST_ENTRY = ")
    if start < 0:
        na.append({"property_id": pid, "reason": NA_REASONS.get(pid, "harness module present but not registered yet")})
        continue
    # evaluate the literal
    import ast
    node = ast.parse(src)
    for n in node.body:
        if isinstance(n, ast.Assign) and getattr(n.targets[0], "id", "") == "MANIFEST_ENTRY":
            meta = ast.literal_eval(n.value)
        if isinstance(n, ast.Assign) and getattr(n.targets[0], "id", "") == "EXTRA_PROPS":
            EXTRA.extend(ast.literal_eval(n.value))
    checks.append({
        "property_id": pid,
        "quick_cmd": f"./check {pid} --tier quick",
        "thorough_cmd": f"./check {pid} --tier thorough",
        "evidence_file": f"/verif/evidence/{pid}.json",
        "replay_cmd_template": f"./check {pid} --replay {{path}}",
        "engine": "lean4-proof+correspondence",
        "level_claimed": {"category": meta.get("category", "proof"), "text": meta["text"], "design_ref": meta.get("design_ref", "DESIGN.md §6 " + pid)},
        "level_note": meta["note"],
        "technique": meta.get("technique", "Lean 4 theorems about a hand-written executable model + differential correspondence with the real code"),
    })

manifest = {
    "version": 1,
    "setup_cmd": "cd lean && lake build " + " ".join(f"QuantemModel.Props.{c['property_id']} QuantemModel.Driver.{c['property_id']}" for c in checks) + "".join(" " + m for m in EXTRA),
    "hooks": {
        "guard": "QUANTEM_VERIF",
        "enable": "no source hooks are needed: faults and observations are injected from the harness process (monkeypatching at run time); the guard name is reserved",
        "baseline_off_cmd": "cd /repo && /venv/bin/python -m pytest -ra -q -p no:cacheprovider --timeout=900 --continue-on-collection-errors",
        "source_commits": [],
        "add_only": True,
    },
    "engines": [{
        "name": "lean4-proof+correspondence",
        "path": "/verif/check",
        "serves_properties": [c["property_id"] for c in checks],
        "kind_free_text": "Lean 4 kernel-checked theorems about executable models (lean/QuantemModel), audited axioms, JSON-lines model driver, Python differential harness driving the real quantem from /repo/src",
    }],
    "checks": checks,
    "not_applicable": na,
    "notes": "See DESIGN.md. known_findings.txt lists fixed defects (fix: commits in /repo) and recorded findings.",
}
json.dump(manifest, open(os.path.join(HERE, "MANIFEST.json"), "w"), indent=1)
print("checks:", [c["property_id"] for c in checks], "not_applicable:", [n["property_id"] for n in na])
