#!/usr/bin/env python3
"""tools_seedprompt.py <id> <round> : print the prompt handed to an independent seeding sub-agent.
The prompt contains ONLY the text of the property (copied from properties.jsonl) and the path of a
scratch worktree; nothing else from /verif.  Themes differ per round so that later rounds do not
repeat earlier ones."""
import json, sys

THEMES = {
    "6": [
        "SIZE / COUNT THRESHOLD OR EXACT MULTIPLE: the behaviour differs only beyond an internal threshold or exactly on a boundary that small default examples never reach: a count that needs two digits or exceeds 127 / 255 / 32767 / 2**24 / 2**31, more items than an internal chunk / batch / buffer size, a length that is an exact multiple (or exactly one more than a multiple) of a block size, the last index of an axis, an index exactly equal to the length, the second (not the first) repetition of a loop, more than one slice / mode / frame / group when one is the default.",
        "SIGN / QUADRANT / ORIENTATION ASYMMETRY: the change is invisible on symmetric, square, positive, ascending or axis-aligned inputs and shows only for negative values, descending or reversed coordinates, angles in one particular quadrant or beyond 180 degrees, H > W versus H < W, row/column roles exchanged, negative steps / origins / shifts, values on the other side of a branch cut or wrap-around, the second of two axes treated like the first.",
        "A PERFORMANCE SHORTCUT THAT IS RIGHT FOR ONE OBJECT USED ONCE: introduce (or widen) a cache, memo, lazily computed attribute, reused scratch buffer, avoided copy or early-exit fast path that is correct for a single object used once with fixed parameters, and wrong when two objects or two configurations are alive at the same time, when a parameter or an input array is changed between calls, when the same call is repeated, or when the fast path's guard is slightly too wide (it also fires for an input that needed the slow path).",
    ],
    "5": [
        "EXCEPTION SAFETY / REJECTED CALL: the defect only shows after a call on the object (or into the module) has raised or been rejected part-way (invalid argument, failing validation, an exception thrown by a callee, an interrupted loop) and the caller then carries on with perfectly valid calls; with no failed call in the history everything is identical to the clean tree.",
        "LANGUAGE / LIBRARY SEMANTIC TRAP AT A DEGENERATE INPUT: a refactor that looks equivalent but differs through Python / NumPy / torch semantics (truthiness of 0 / empty / None, `is` vs `==`, shallow vs deep copy, view vs copy, integer vs true division, negative modulo or negative index, round-half-to-even, dtype promotion or silent down-cast, broadcasting of a length-1 axis, sort stability, dict / set ordering) and is visible only at a degenerate or boundary input: an axis of length 1 or 2, a prime or odd length, an empty selection, duplicated or unsorted indices, exactly tied values, negative zero, NaN / inf, a value exactly on a threshold.",
        "A SHARED HELPER WITH ONE EXPOSED CALLER, OR A >= 3-STEP HISTORY: either change a helper / validator / utility that several callers use so that all callers but one (in one particular configuration) are unaffected, or make a change that needs a history of at least three public operations in a particular order on one object (e.g. configure, run, reconfigure, run again; or build, derive, mutate the parent, read the child) before anything differs.",
    ],
}


def main():
    pid, rnd = sys.argv[1], sys.argv[2]
    prop = None
    for line in open("/verif/properties.jsonl"):
        p = json.loads(line)
        if p["id"] == pid:
            prop = p
    wt = f"/tmp/seed/wt{rnd}-{pid}"
    out = f"/tmp/seed/out{rnd}-{pid}"
    themes = THEMES[rnd]
    text = f"""You are helping to evaluate a verification tool by writing realistic, subtle regressions ("seeded changes") for an open-source Python package. Work autonomously; do not ask questions.

THE PACKAGE: electronmicroscopy/quantem (quantitative electron microscopy toolkit). You have your OWN scratch git worktree of it at {wt} (already created, clean). Work ONLY inside {wt} and write your results ONLY under {out}/ . Never read, list or touch /verif or /repo (they are off limits: what you write must be independent of the tool being evaluated). Run Python as `cd {wt} && PYTHONPATH={wt}/src /venv/bin/python ...` (the PYTHONPATH makes `import quantem` resolve to YOUR worktree; check `quantem.__file__` once). No network. Keep torch threads low (`OMP_NUM_THREADS=2`).

THE PROPERTY the package is supposed to satisfy (this text is all you are given about it):

id: {prop['id']}
title: {prop['title']}
statement: {prop['statement']}
quantified over: {prop['quantifier']['text']}
why the existing tests cannot settle it: {prop['why_tests_cant']}
anchored in: {json.dumps(prop['anchors'], indent=1)}

YOUR TASK: produce THREE independent changes to the package source (each a separate patch against the CLEAN worktree, touching only files under src/), each of which BREAKS this property on the real code while (a) the package still imports, (b) the existing test suite still passes (`cd {wt} && PYTHONPATH={wt}/src /venv/bin/python -m pytest -q -p no:cacheprovider tests --timeout=900` -> currently "176 passed, 2 skipped"), and (c) ordinary, default use does NOT expose it at once. Each change must look like something a maintainer could plausibly commit (a refactor, an optimisation, a "simplification", a bug fix that is subtly wrong) — no sabotage comments, no special-casing of magic inputs, no random behaviour. Each must need something SPECIFIC to manifest. The three changes must follow these three themes, one each:

 1. {themes[0]}
 2. {themes[1]}
 3. {themes[2]}

For each change n in 1,2,3 write into {out}/n/ :
 * patch.diff — `git diff` of the change against the clean worktree (must apply with `git apply` on a clean tree; only files under src/);
 * demo.py — a small stand-alone program (run as `cd <tree> && PYTHONPATH=<tree>/src /venv/bin/python demo.py`) that checks the property on the specific input / history the change needs: it must EXIT 0 on the clean tree and EXIT NON-ZERO (assertion failure) on the patched tree, deterministically, in < 2 minutes, without network or GPU. It must test the property as stated (an observable behaviour through the public API), not an implementation detail;
 * meta.json — {{"title": one line, "files": [...], "what_it_breaks": which clause of the property and how, "needs_to_manifest": exactly which inputs / history / configuration expose it and which common ones do NOT}}.

PROCEDURE for each change: read the anchored code carefully first; make the edit in {wt}; run demo.py (must fail); run the full test suite (must pass); `git -C {wt} diff > {out}/n/patch.diff`; then `git -C {wt} checkout -- .` to restore the clean tree; run demo.py again (must pass). Never use `git stash`. Verify at the end that `git -C {wt} status --short` is empty and that each patch passes `git -C {wt} apply --check`.

Prefer changes in the anchored files/mechanisms of the property; make the three changes genuinely different from each other (different functions, different clauses of the property). Avoid changes that merely make something raise for every input, and avoid changes that every realistic use of the feature would reveal immediately.

FINAL MESSAGE: for each change: title, file/function edited, what it needs to manifest, and confirmation of the three runs (demo clean = 0, demo patched != 0, suite on patched tree = 176 passed)."""
    print(text)


if __name__ == "__main__":
    main()
