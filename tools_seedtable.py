#!/usr/bin/env python3
"""print the markdown table of confirmed seeded changes (from seeded/*/meta.json)"""
import glob, json, os, re
rows = []
for f in sorted(glob.glob('/verif/seeded/*/meta.json')):
    m = json.load(open(f))
    name = os.path.basename(os.path.dirname(f))
    c = m.get('confirmed_by_me', {})
    caught = m.get('caught_by') or []
    kind = 'missed'
    if c.get('check_exit') == 1:
        pf = [x for x in caught if x.startswith('PREDICATE-FAILURE')]
        und = [x for x in caught if x.startswith('undischarged')]
        nf = [x for x in caught if 'no-failing-input-found' in x]
        key = re.search(r'PREDICATE-FAILURE\[([^\]]+)\]', pf[0]).group(1) if pf else ''
        kind = ('failing input `' + key + '`') if pf else ('tie broken, no failing input' if nf else 'violation')
        if und:
            kind += ' + broken proof obligation'
        if any(x.startswith('DISAGREEMENT') for x in caught):
            kind += ' + correspondence'
    rc = m.get('recheck')
    if rc and c.get('check_exit') != 1:
        # the first measurement (above) missed the change or gave no verdict; `recheck` is the CURRENT check's result
        now = ('failing input `' + rc['key'] + '`') if rc.get('exit') == 1 and rc.get('key') not in (None, 'none') else \
              ('tie broken, no failing input' if rc.get('exit') == 1 else 'missed')
        first = 'missed' if c.get('check_exit') == 0 else f"no verdict (exit {c.get('check_exit')})"
        kind = f"at first: {first}; after strengthening: {now}"
    title = (m.get('title') or m.get('breaks') or '')[:110].replace('|', '/').replace('\n', ' ')
    needs = (m.get('needs_to_manifest') or '')[:170].replace('|', '/').replace('\n', ' ')
    rows.append(f"| {name} | {title} | {needs} | {kind} |")
print("| seed | change | needs to manifest | caught by `./check` (quick) |")
print("|---|---|---|---|")
print("\n".join(rows))
