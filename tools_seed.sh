#!/bin/bash
# tools_seed.sh <prop id> <seed dir (contains patch.diff demo.py meta.json)> <name>
# confirms a seeded change (demo passes clean / fails patched, test suite passes patched) and runs ./check against it
id=$1; src=$2; name=$3
wt=/tmp/wt/seedtest-$name
log=/tmp/t/seed-$name.log
rm -rf $wt; git -C /repo worktree prune; git -C /repo worktree add --detach $wt HEAD -q || exit 2
{
echo "== demo on clean tree"; (cd $wt && PYTHONPATH=$wt/src timeout 300 /venv/bin/python $src/demo.py >/dev/null 2>&1); c0=$?
(cd $wt && { git apply $src/patch.diff 2>/dev/null || git apply --3way $src/patch.diff; }) || { echo "PATCH DOES NOT APPLY"; git -C /repo worktree remove --force $wt; exit 3; }
echo "== demo on patched tree"; (cd $wt && PYTHONPATH=$wt/src timeout 300 /venv/bin/python $src/demo.py >/dev/null 2>&1); c1=$?
echo "== test suite on patched tree"; suite=$(cd $wt && PYTHONPATH=$wt/src timeout 1500 /venv/bin/python -m pytest -q -p no:cacheprovider --timeout=900 tests 2>&1 | grep -E "passed|failed" | tail -1)
echo "== check"; (cd /verif && QVERIF_REPO=$wt timeout 3000 ./check $id --tier quick > /tmp/t/seed-$name.check.log 2>&1); ck=$?
nv=$(grep -c "^VIOLATION" /tmp/t/seed-$name.check.log)
first=$(grep "^VIOLATION" /tmp/t/seed-$name.check.log | head -1)
pf=$(grep "^PREDICATE-FAILURE" /tmp/t/seed-$name.check.log | head -1 | cut -c1-200)
echo "RESULT $name: demo_clean=$c0 demo_patched=$c1 suite='$suite' check_exit=$ck violations=$nv | $first | $pf"
} 2>&1 | tee $log | grep "^RESULT\|PATCH DOES"
git -C /repo worktree remove --force $wt
