#!/usr/bin/env python3
"""Regenerate the machine-written part of DESIGN.md (§12 seeded table, §13 per-check status) between markers."""
import glob, json, os, re, subprocess
V = '/verif'
reg = [l.strip() for l in open(f'{V}/registered.txt') if l.strip() and not l.startswith('#')]
rows = []
for pid in sorted(reg):
    ev = json.load(open(f'{V}/evidence/{pid}.json'))
    cov = ev['coverage']
    names = [n.split('.')[-1] for n in cov.get('obligation_names', [])]
    fixed = sum(1 for l in open(f'{V}/known_findings.txt') if l.startswith('fixed:') and f'property={pid} ' in l)
    finds = sum(1 for l in open(f'{V}/known_findings.txt') if l.startswith('finding:') and f'property={pid} ' in l)
    rows.append(f"| {pid} | {cov['discharged']}/{cov['obligations']} | {', '.join(names[:60])} | {cov['evaluations']} / {cov['distinct_nontrivial']} | {ev['wall_s']:.0f} s | {fixed} fixed, {finds} finding(s) |")
status = "| id | obligations discharged | audited theorems (Props/<id>.lean) | quick-tier evaluations / distinct non-trivial | quick wall | defects found on the real code |\n|---|---|---|---|---|---|\n" + "\n".join(rows)
seed = subprocess.run(['python3', f'{V}/tools_seedtable.py'], capture_output=True, text=True).stdout
kf = open(f'{V}/known_findings.txt').read()
kf_lines = [l for l in kf.splitlines() if l.startswith(('fixed:', 'finding:'))]
s = open(f'{V}/DESIGN.md').read()
def put(tag, body):
    global s
    a, b = f'<!-- BEGIN {tag} -->', f'<!-- END {tag} -->'
    if a in s:
        s = s[:s.index(a) + len(a)] + '\n' + body + '\n' + s[s.index(b):]
    else:
        s += f'\n{a}\n{body}\n{b}\n'
put('SEEDTABLE', seed)
put('STATUSTABLE', status)
put('FINDINGS', '```\n' + '\n'.join(l[:400] for l in kf_lines) + '\n```')
open(f'{V}/DESIGN.md', 'w').write(s)
print('ok', len(rows), 'checks;', len(kf_lines), 'finding lines')
