"""Python `ast` -> Lean translators for formula code (DESIGN.md §1, translation route)."""
