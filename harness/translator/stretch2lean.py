"""stretch2lean — regenerate lean/QuantemModel/Generated/Stretch.lean from the *Stretch
dataclasses of quantem/core/visualization/custom_normalizations.py (property C20).

What is translated (Python `ast` -> Lean, written once over `[Num R]` of Core/Num.lean):

* the dataclass fields and their default expressions          -> `structure` + `default`
* `__post_init__` guards `if <cmp>: raise ValueError(...)`    -> `valid : Bool`
* `__call__`: the in-place pipeline
      values = np.array(values, copy=copy)                    (no-op on values)
      np.<ufunc>(values, <expr>, out=values)                  -> `let values := values <op> <expr>`
      np.<ufunc>(values, out=values)                          -> `let values := f values`
      np.clip(values, lo, hi, out=values)                     -> `let values := Num.clip values lo hi`
      if <test>: return values                                -> `if <test> then values else …`
      if <test>: <in-place steps>                             -> `let values := if <test> then … else values`
      return values
  read as function composition on ONE element (ufuncs are element-wise); a ufunc call without
  `out=values` is translated as what it is: a no-op on `values`.
* the `inverse` property `return <OtherStretch>(<expr>, …)`    -> `inverse : Self R → Other R`

Expression grammar: int/float literals, `self.<field>`, unary `-`, binary `+ - * /`,
`np.log/exp/sinh/arcsinh/sqrt(<expr>)`, comparisons `== != < <= > >=`, `and`/`or`/`not`.
Anything else raises `TranslationError` (the runner records it as "tie broken").

The source is read from `$QVERIF_REPO/src` (default /repo/src).  Output is deterministic: the
same source text gives a byte-identical file.
"""
from __future__ import annotations

import ast
import os
from fractions import Fraction

REL_SOURCE = "quantem/core/visualization/custom_normalizations.py"
HERE = os.path.dirname(os.path.abspath(__file__))
OUT_PATH = os.path.normpath(os.path.join(HERE, "..", "..", "lean", "QuantemModel", "Generated", "Stretch.lean"))

# the theorems of Props/C20.lean and the hand model Model/Norm.lean are about exactly these
# classes/fields; a different set is reported as "tie broken" (the old file stays in place)
EXPECTED = {
    "LinearStretch": ["slope", "intercept"],
    "PowerLawStretch": ["power"],
    "LogarithmicStretch": ["a"],
    "InverseLogarithmicStretch": ["a"],
    "InverseHyperbolicSineStretch": ["a"],
    "HyperbolicSineStretch": ["a"],
}

BIN_UFUNC = {"multiply": "*", "add": "+", "subtract": "-", "true_divide": "/", "divide": "/"}
UN_FUNC = {"log": "Num.log", "exp": "Num.exp", "sinh": "Num.sinh", "arcsinh": "Num.asinh", "sqrt": "Num.sqrt"}
CMP = {ast.Eq: "feq", ast.NotEq: "fne", ast.Lt: "Num.ltb", ast.LtE: "Num.leb"}
CMP_SWAP = {ast.Gt: "Num.ltb", ast.GtE: "Num.leb"}


class TranslationError(Exception):
    pass


def source_path() -> str:
    root = os.environ.get("QVERIF_REPO", "/repo")
    return os.path.join(root, "src", REL_SOURCE)


def _where(node) -> str:
    return f"line {getattr(node, 'lineno', '?')}"


def _rat(value) -> str:
    """Python numeric literal -> exact rational literal (decimal reading of its repr: 0.1 -> 1/10,
    so that `Num.ofRat` at Float rounds to the very same double)."""
    if isinstance(value, bool) or not isinstance(value, (int, float)):
        raise TranslationError(f"unsupported literal {value!r}")
    if isinstance(value, float) and (value != value or value in (float("inf"), float("-inf"))):
        raise TranslationError("non-finite literal")
    q = Fraction(repr(value)) if isinstance(value, float) else Fraction(value)
    if q.numerator >= 2 ** 53 or q.denominator >= 2 ** 53:
        raise TranslationError(f"literal {value!r} not exactly convertible")
    if q.denominator == 1:
        return f"(Num.ofRat {q.numerator})" if q >= 0 else f"(Num.ofRat ({q.numerator}))"
    return f"(Num.ofRat ({q.numerator} / {q.denominator}))" if q >= 0 else f"(Num.ofRat (({q.numerator}) / {q.denominator}))"


def _is_np(node, names=None):
    """`np.<name>` attribute -> name (or None)"""
    if isinstance(node, ast.Attribute) and isinstance(node.value, ast.Name) and node.value.id in ("np", "numpy"):
        if names is None or node.attr in names:
            return node.attr
    return None


class ClassTranslator:
    def __init__(self, cls: ast.ClassDef):
        self.cls = cls
        self.name = cls.name
        self.fields: list[tuple[str, ast.expr]] = []
        self.methods: dict[str, ast.FunctionDef] = {}
        for st in cls.body:
            if isinstance(st, ast.AnnAssign) and isinstance(st.target, ast.Name):
                if st.value is None:
                    raise TranslationError(f"{self.name}.{st.target.id}: field without default ({_where(st)})")
                self.fields.append((st.target.id, st.value))
            elif isinstance(st, ast.FunctionDef):
                self.methods[st.name] = st
            elif isinstance(st, ast.Expr) and isinstance(st.value, ast.Constant) and isinstance(st.value.value, str):
                continue  # docstring
            else:
                raise TranslationError(f"{self.name}: unsupported class-level statement ({_where(st)})")
        self.field_names = [f for f, _ in self.fields]

    # ---- expressions ----------------------------------------------------------------
    def expr(self, e, allow_self=True) -> str:
        if isinstance(e, ast.Constant):
            return _rat(e.value)
        if isinstance(e, ast.Attribute) and isinstance(e.value, ast.Name) and e.value.id == "self":
            if not allow_self or e.attr not in self.field_names:
                raise TranslationError(f"{self.name}: unknown attribute self.{e.attr} ({_where(e)})")
            return f"self.{e.attr}"
        if isinstance(e, ast.UnaryOp) and isinstance(e.op, ast.USub):
            return f"(-{self.expr(e.operand, allow_self)})"
        if isinstance(e, ast.UnaryOp) and isinstance(e.op, ast.UAdd):
            return self.expr(e.operand, allow_self)
        if isinstance(e, ast.BinOp):
            op = {ast.Add: "+", ast.Sub: "-", ast.Mult: "*", ast.Div: "/"}.get(type(e.op))
            if op is None:
                raise TranslationError(f"{self.name}: unsupported operator {type(e.op).__name__} ({_where(e)})")
            return f"({self.expr(e.left, allow_self)} {op} {self.expr(e.right, allow_self)})"
        if isinstance(e, ast.Call) and not e.keywords and len(e.args) == 1:
            fn = _is_np(e.func, UN_FUNC)
            if fn:
                return f"({UN_FUNC[fn]} {self.expr(e.args[0], allow_self)})"
        raise TranslationError(f"{self.name}: unsupported expression `{ast.unparse(e)}` ({_where(e)})")

    def test(self, t) -> str:
        if isinstance(t, ast.BoolOp):
            op = " && " if isinstance(t.op, ast.And) else " || "
            return "(" + op.join(self.test(v) for v in t.values) + ")"
        if isinstance(t, ast.UnaryOp) and isinstance(t.op, ast.Not):
            return f"(!{self.test(t.operand)})"
        if isinstance(t, ast.Compare) and len(t.ops) == 1:
            a, b = self.expr(t.left), self.expr(t.comparators[0])
            k = type(t.ops[0])
            if k in CMP:
                return f"({CMP[k]} {a} {b})"
            if k in CMP_SWAP:
                return f"({CMP_SWAP[k]} {b} {a})"
        raise TranslationError(f"{self.name}: unsupported test `{ast.unparse(t)}` ({_where(t)})")

    # ---- __call__ -------------------------------------------------------------------
    def step(self, st) -> str | None:
        """one in-place statement -> Lean expression for the new `values` (None = no-op)"""
        if isinstance(st, ast.Assign) and len(st.targets) == 1 and isinstance(st.targets[0], ast.Name) \
                and st.targets[0].id == "values" and isinstance(st.value, ast.Call) \
                and _is_np(st.value.func, ("array", "asarray", "asanyarray")) \
                and len(st.value.args) == 1 and isinstance(st.value.args[0], ast.Name) and st.value.args[0].id == "values":
            return None  # values = np.array(values, copy=copy): same numbers
        if isinstance(st, ast.Expr) and isinstance(st.value, ast.Call):
            c = st.value
            fn = _is_np(c.func)
            if fn is None:
                raise TranslationError(f"{self.name}.__call__: unsupported call `{ast.unparse(c)}` ({_where(st)})")
            kw = {k.arg: k.value for k in c.keywords}
            if set(kw) - {"out"}:
                raise TranslationError(f"{self.name}.__call__: unsupported keyword in `{ast.unparse(c)}` ({_where(st)})")
            if not c.args or not (isinstance(c.args[0], ast.Name) and c.args[0].id == "values"):
                raise TranslationError(f"{self.name}.__call__: first ufunc operand must be `values` ({_where(st)})")
            rest = [self.expr(a) for a in c.args[1:]]
            if fn in BIN_UFUNC and len(rest) == 1:
                new = f"values {BIN_UFUNC[fn]} {rest[0]}"
            elif fn == "power" and len(rest) == 1:
                new = f"Num.rpow values {rest[0]}"
            elif fn == "clip" and len(rest) == 2:
                new = f"Num.clip values {rest[0]} {rest[1]}"
            elif fn in UN_FUNC and not rest:
                new = f"{UN_FUNC[fn]} values"
            else:
                raise TranslationError(f"{self.name}.__call__: unsupported ufunc `{ast.unparse(c)}` ({_where(st)})")
            if "out" not in kw:
                return None  # result discarded: `values` unchanged (translated as written)
            if not (isinstance(kw["out"], ast.Name) and kw["out"].id == "values"):
                raise TranslationError(f"{self.name}.__call__: out= must be `values` ({_where(st)})")
            return new
        raise TranslationError(f"{self.name}.__call__: unsupported statement `{ast.unparse(st)}` ({_where(st)})")

    def call_body(self) -> list[str]:
        fn = self.methods.get("__call__")
        if fn is None:
            raise TranslationError(f"{self.name}: no __call__")
        argn = [a.arg for a in fn.args.args]
        if argn[:2] != ["self", "values"]:
            raise TranslationError(f"{self.name}.__call__: unexpected signature {argn}")
        lines: list[str] = []
        body = list(fn.body)
        if body and isinstance(body[0], ast.Expr) and isinstance(body[0].value, ast.Constant) and isinstance(body[0].value.value, str):
            body = body[1:]
        if not body or not (isinstance(body[-1], ast.Return) and isinstance(body[-1].value, ast.Name) and body[-1].value.id == "values"):
            raise TranslationError(f"{self.name}.__call__: must end with `return values`")
        for st in body[:-1]:
            if isinstance(st, ast.If):
                if st.orelse:
                    raise TranslationError(f"{self.name}.__call__: else-branch not supported ({_where(st)})")
                cond = self.test(st.test)
                if len(st.body) == 1 and isinstance(st.body[0], ast.Return):
                    r = st.body[0].value
                    if not (isinstance(r, ast.Name) and r.id == "values"):
                        raise TranslationError(f"{self.name}.__call__: early return must return `values` ({_where(st)})")
                    lines.append(f"if {cond} then values else")
                    continue
                inner = [self.step(s) for s in st.body]
                inner = [s for s in inner if s is not None]
                if not inner:
                    continue
                chain = "".join(f"let values := {s}; " for s in inner) + "values"
                lines.append(f"let values := if {cond} then ({chain}) else values")
            else:
                s = self.step(st)
                if s is not None:
                    lines.append(f"let values := {s}")
        lines.append("values")
        return lines

    # ---- __post_init__ --------------------------------------------------------------
    def valid(self) -> str:
        fn = self.methods.get("__post_init__")
        if fn is None:
            return "true"
        conds = []
        for st in fn.body:
            if isinstance(st, ast.Expr) and isinstance(st.value, ast.Constant):
                continue
            ok = (isinstance(st, ast.If) and not st.orelse and len(st.body) == 1 and isinstance(st.body[0], ast.Raise)
                  and isinstance(st.body[0].exc, ast.Call) and isinstance(st.body[0].exc.func, ast.Name)
                  and st.body[0].exc.func.id == "ValueError")
            if not ok:
                raise TranslationError(f"{self.name}.__post_init__: unsupported statement ({_where(st)})")
            conds.append(f"(!{self.test(st.test)})")
        return " && ".join(conds) if conds else "true"

    # ---- inverse --------------------------------------------------------------------
    def inverse(self, classes: dict[str, "ClassTranslator"]) -> tuple[str, list[tuple[str, str]]]:
        fn = self.methods.get("inverse")
        if fn is None:
            raise TranslationError(f"{self.name}: no inverse")
        if not any(isinstance(d, ast.Name) and d.id == "property" for d in fn.decorator_list):
            raise TranslationError(f"{self.name}.inverse: expected a property")
        body = [s for s in fn.body if not (isinstance(s, ast.Expr) and isinstance(s.value, ast.Constant))]
        if len(body) != 1 or not isinstance(body[0], ast.Return) or not isinstance(body[0].value, ast.Call) \
                or not isinstance(body[0].value.func, ast.Name):
            raise TranslationError(f"{self.name}.inverse: expected `return <Stretch>(…)`")
        call = body[0].value
        target = call.func.id
        if target not in classes:
            raise TranslationError(f"{self.name}.inverse: unknown class {target}")
        tfields = classes[target].fields
        if len(call.args) > len(tfields):
            raise TranslationError(f"{self.name}.inverse: too many arguments")
        vals: dict[str, str] = {}
        for (fname, _), a in zip(tfields, call.args):
            vals[fname] = self.expr(a)
        for k in call.keywords:
            if k.arg not in [f for f, _ in tfields] or k.arg in vals:
                raise TranslationError(f"{self.name}.inverse: bad keyword {k.arg}")
            vals[k.arg] = self.expr(k.value)
        out = []
        for fname, dflt in tfields:
            out.append((fname, vals[fname] if fname in vals else classes[target].expr(dflt, allow_self=False)))
        return target, out


PRELUDE = """/-
GENERATED by harness/translator/stretch2lean.py from
  src/quantem/core/visualization/custom_normalizations.py  (classes *Stretch)
on every `./check C20` run — DO NOT EDIT.  Element-wise reading of the in-place
`np.*(values, …, out=values)` pipelines as function composition over `[Num R]`.
`copy=` (aliasing of the caller's buffer) is outside this model.
-/
import QuantemModel.Core.Num
set_option linter.unusedVariables false
namespace QuantemModel.Generated.Stretch
open QuantemModel

/-- Python `a == b` on floats (`-0.0 == 0.0`, `nan == x` is False) -/
def feq {R : Type} [Num R] (a b : R) : Bool := Num.leb a b && Num.leb b a
/-- Python `a != b` on floats -/
def fne {R : Type} [Num R] (a b : R) : Bool := !(feq a b)
"""


def translate(src: str) -> str:
    try:
        tree = ast.parse(src)
    except SyntaxError as e:
        raise TranslationError(f"source does not parse: {e}")
    found: dict[str, ClassTranslator] = {}
    order: list[str] = []
    for node in tree.body:
        if isinstance(node, ast.ClassDef) and node.name.endswith("Stretch"):
            if not any((isinstance(d, ast.Name) and d.id == "dataclass") or
                       (isinstance(d, ast.Call) and isinstance(d.func, ast.Name) and d.func.id == "dataclass")
                       for d in node.decorator_list):
                raise TranslationError(f"{node.name}: expected a @dataclass")
            found[node.name] = ClassTranslator(node)
            order.append(node.name)
    got = {n: found[n].field_names for n in order}
    if got != EXPECTED:
        raise TranslationError(f"stretch classes/fields changed: expected {EXPECTED}, found {got}")

    out = [PRELUDE]
    for n in order:
        ct = found[n]
        out.append(f"structure {n} (R : Type) where")
        for f in ct.field_names:
            out.append(f"  {f} : R")
        out.append("")
    for n in order:
        ct = found[n]
        out.append(f"namespace {n}")
        out.append("variable {R : Type} [Num R]")
        dflt = ", ".join(f"{f} := {ct.expr(v, allow_self=False)}" for f, v in ct.fields)
        out.append(f"/-- dataclass defaults -/")
        out.append(f"def default : {n} R := {{ {dflt} }}")
        out.append(f"/-- `__post_init__` does not raise -/")
        out.append(f"def valid (self : {n} R) : Bool := {ct.valid()}")
        out.append(f"/-- `__call__` on one element -/")
        out.append(f"def call (self : {n} R) (values : R) : R :=")
        for ln in ct.call_body():
            out.append(f"  {ln}")
        target, vals = ct.inverse(found)
        out.append(f"/-- the `inverse` property -/")
        out.append(f"def inverse (self : {n} R) : {target} R := {{ " + ", ".join(f"{f} := {v}" for f, v in vals) + " }")
        out.append(f"end {n}")
        out.append("")

    # name-indexed dispatch for the driver (parameters in field order)
    out.append("section Dispatch")
    out.append("variable {R : Type} [Num R]")
    out.append("def classNames : List String := [" + ", ".join(f'"{n}"' for n in order) + "]")
    out.append("def fieldNames : String → List String")
    for n in order:
        out.append(f'  | "{n}" => [' + ", ".join(f'"{f}"' for f in found[n].field_names) + "]")
    out.append("  | _ => []")

    def pat(n):
        return "[" + ", ".join(found[n].field_names) + "]"

    def mk(n):
        return "{ " + ", ".join(f"{f} := {f}" for f in found[n].field_names) + f" : {n} R }}"

    def lst(n, var):
        return "[" + ", ".join(f"{var}.{f}" for f in found[n].field_names) + "]"

    out.append("def defaultsByName : String → Option (List R)")
    for n in order:
        out.append(f'  | "{n}" => some (let d : {n} R := {n}.default; {lst(n, "d")})')
    out.append("  | _ => none")
    out.append("def validByName : String → List R → Option Bool")
    for n in order:
        out.append(f'  | "{n}", {pat(n)} => some ({mk(n)}).valid')
    out.append("  | _, _ => none")
    out.append("def callByName : String → List R → R → Option R")
    for n in order:
        out.append(f'  | "{n}", {pat(n)}, x => some (({mk(n)}).call x)')
    out.append("  | _, _, _ => none")
    out.append("def inverseByName : String → List R → Option (String × List R)")
    for n in order:
        target, _ = found[n].inverse(found)
        out.append(f'  | "{n}", {pat(n)} => some (let i := ({mk(n)}).inverse; ("{target}", {lst(target, "i")}))')
    out.append("  | _, _ => none")
    out.append("end Dispatch")
    out.append("")
    out.append("end QuantemModel.Generated.Stretch")
    return "\n".join(out) + "\n"


def regenerate(out_path: str = OUT_PATH) -> bool:
    """translate the current source; rewrite the Lean file only if its text changes.
    Returns True if the file changed.  Raises TranslationError (file left untouched)."""
    p = source_path()
    try:
        src = open(p, encoding="utf-8").read()
    except OSError as e:
        raise TranslationError(f"cannot read {p}: {e}")
    text = translate(src)
    old = None
    if os.path.exists(out_path):
        old = open(out_path, encoding="utf-8").read()
    if old == text:
        return False
    os.makedirs(os.path.dirname(out_path), exist_ok=True)
    tmp = out_path + ".tmp"
    with open(tmp, "w", encoding="utf-8") as f:
        f.write(text)
    os.replace(tmp, out_path)
    return True


if __name__ == "__main__":
    import sys
    try:
        changed = regenerate()
        print(("rewrote " if changed else "unchanged ") + OUT_PATH)
    except TranslationError as e:
        print("TranslationError:", e)
        sys.exit(1)
