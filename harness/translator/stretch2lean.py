"""stretch2lean — regenerate lean/QuantemModel/Generated/Stretch.lean from the *Stretch
dataclasses of quantem/core/visualization/custom_normalizations.py (property C20).

The tie is SEMANTIC: the classes are not pattern-matched, they are EXECUTED on symbolic values.

* the module source of `$QVERIF_REPO/src` is loaded as a private module object (the imported
  `quantem` of the harness is not touched);
* one element of the array argument is the symbol `values`, the dataclass fields are the symbols
  `self.<field>`; both are objects (`TNum`, `TArr`) whose operators, in-place operators, ndarray-style
  methods and NumPy protocols (`__array_ufunc__`, `__array_function__`; `np.array/asarray/…` through a
  thin proxy of the module's `np` global) build an expression tree.  So every spelling that reaches
  the same arithmetic — `np.multiply(v, c, out=v)`, `v *= c`, `v = v * c`, `np.divide`/`np.true_divide`,
  `v.clip(0, 1, out=v)`, temporaries, renamed locals, private helper functions, commuted products —
  gives the same tree;
* a branch on a comparison of PARAMETERS (`if self.power == 1.0`) is explored: the function is run
  again under each outcome (an atom decided once on a path keeps its outcome), the paths are merged
  into a decision tree (identical sub-trees collapse);
* commutative operands are sorted, nothing is re-associated (the Lean text is run at Float against
  the real code, exact equality on the linear path);
* `BaseInterval.__call__` / `BaseInterval.inverse` are traced the same way through a subclass whose `get_limits`
  returns the symbols `(vmin, vmax)` (`baseIntervalCall`, `baseIntervalInverse`);
* per class are traced: construction (`valid`: does `cls(params)` raise ValueError), `__call__`
  (`call`), the `inverse` attribute (`inverse`: class + fields of the object it returns; the paths on
  which building it raises ValueError must be exactly those the target's own validation rejects),
  and the defaults (`cls()`).

What the tracer cannot follow raises `TranslationError` (the runner records "tie broken", the old
file stays): a branch / comparison on the traced ELEMENT, conversion of a traced value to a Python
number (`float()`, `math.*`), an unknown ufunc / NumPy function / ndarray method, dtype changes,
indexing, more than 64 paths, an exception other than ValueError, a `call` path that raises.

Output is deterministic: the same behaviour gives a byte-identical file.
"""
from __future__ import annotations

import dataclasses
import importlib.util
import math
import numbers
import os
import sys
from fractions import Fraction

import numpy as _np

REL_SOURCE = "quantem/core/visualization/custom_normalizations.py"
HERE = os.path.dirname(os.path.abspath(__file__))
OUT_PATH = os.path.normpath(os.path.join(HERE, "..", "..", "lean", "QuantemModel", "Generated", "Stretch.lean"))

# the theorems of Props/C20.lean and the hand model Model/Norm.lean are about exactly these
# classes/fields; a different set is reported as "tie broken" (the old file stays in place)
EXPECTED = {
    "LinearStretch": ["slope", "intercept"],
    "PowerLawStretch": ["power"],
    "LogarithmicStretch": ["a"],
    "InverseLogarithmicStretch": ["a"],
    "InverseHyperbolicSineStretch": ["a"],
    "HyperbolicSineStretch": ["a"],
}

MAX_PATHS = 64
MAX_DEPTH = 24
MAX_STEPS = 5000        # traced operations + questions on one path (a loop on a traced condition never terminates otherwise)
TIME_LIMIT_S = 30       # wall clock for the whole trace (a loop that involves no traced value)


class TranslationError(Exception):
    pass


class TraceUnsupported(TranslationError):
    """a construct the tracer cannot follow"""


def source_path() -> str:
    root = os.environ.get("QVERIF_REPO", "/repo")
    return os.path.join(root, "src", REL_SOURCE)


# ---------------------------------------------------------------------------------------
# expression trees (plain tuples)
#   ("x",)  ("p", field)  ("v", name)  ("c", Fraction)            (`v`: a named scalar argument, e.g. an interval limit)
#   ("add", a, b) ("mul", a, b) ("min", a, b) ("max", a, b)      operands sorted
#   ("sub", a, b) ("div", a, b) ("pow", a, b) ("neg", a) ("fn", name, a) ("clip", a, lo, hi)
# atoms of conditions: ("feq", a, b) sorted, ("le", a, b), ("lt", a, b)

COMMUTATIVE = ("add", "mul", "min", "max")
FN_LEAN = {"log": "Num.log", "exp": "Num.exp", "sinh": "Num.sinh", "asinh": "Num.asinh", "sqrt": "Num.sqrt", "abs": "Num.abs"}
BIN_LEAN = {"add": "+", "sub": "-", "mul": "*", "div": "/"}


def _const(v):
    if isinstance(v, (bool, _np.bool_)):
        raise TraceUnsupported("a bool used as a number")
    if isinstance(v, (int, _np.integer)):
        return ("c", Fraction(int(v)))
    if isinstance(v, (float, _np.floating)):
        v = float(v)
        if v != v or v in (math.inf, -math.inf):
            raise TraceUnsupported("non-finite constant")
        q = Fraction(repr(v))                      # decimal reading: 0.1 -> 1/10 (Num.ofRat at Float rounds to the same double)
        if q.numerator.bit_length() > 53 or q.denominator.bit_length() > 53:
            q = Fraction(v)                        # exact binary value
            if q.denominator.bit_length() > 1000:
                raise TraceUnsupported(f"constant {v!r} not exactly convertible")
        return ("c", q)
    raise TraceUnsupported(f"unsupported operand of type {type(v).__name__}")


def _depends_x(e) -> bool:
    return e[0] == "x" or any(isinstance(s, tuple) and _depends_x(s) for s in e[1:])


def _has_param(e) -> bool:
    return e[0] in ("p", "v") or any(isinstance(s, tuple) and _has_param(s) for s in e[1:])


def _key(e):
    """deterministic order of commutative operands: element-dependent, then parameters, then constants"""
    rank = 0 if _depends_x(e) else (1 if _has_param(e) else 2)
    return (rank, _show(e))


def _show(e) -> str:
    k = e[0]
    if k == "x":
        return "values"
    if k == "p":
        return f"self.{e[1]}"
    if k == "v":
        return e[1]
    if k == "c":
        return _rat(e[1])
    if k in BIN_LEAN:
        return f"({_show(e[1])} {BIN_LEAN[k]} {_show(e[2])})"
    if k == "neg":
        return f"(-{_show(e[1])})"
    if k == "pow":
        return f"(Num.rpow {_show(e[1])} {_show(e[2])})"
    if k == "fn":
        return f"({FN_LEAN[e[1]]} {_show(e[2])})"
    if k == "clip":
        return f"(Num.clip {_show(e[1])} {_show(e[2])} {_show(e[3])})"
    if k in ("min", "max"):
        return f"(Num.{k} {_show(e[1])} {_show(e[2])})"
    if k == "feq":
        return f"(feq {_show(e[1])} {_show(e[2])})"
    if k == "le":
        return f"(Num.leb {_show(e[1])} {_show(e[2])})"
    if k == "lt":
        return f"(Num.ltb {_show(e[1])} {_show(e[2])})"
    raise TranslationError(f"internal: unknown node {k}")


def _rat(q: Fraction) -> str:
    if q.denominator == 1:
        return f"(Num.ofRat {q.numerator})" if q >= 0 else f"(Num.ofRat ({q.numerator}))"
    return f"(Num.ofRat ({q.numerator} / {q.denominator}))" if q >= 0 else f"(Num.ofRat (({q.numerator}) / {q.denominator}))"


_CUR: list = []


def _mk(op, *args):
    if _CUR:
        _CUR[-1].tick()
    if op in COMMUTATIVE:
        args = tuple(sorted(args, key=_key))
    return (op,) + tuple(args)


def _subst(e, env):
    """replace ("p", f) by env[f]"""
    if e[0] == "p":
        return env[e[1]]
    if e[0] in ("x", "c", "v"):
        return e
    parts = [(_subst(s, env) if isinstance(s, tuple) else s) for s in e[1:]]
    if e[0] in COMMUTATIVE or e[0] == "feq":
        parts = sorted(parts, key=_key)
    return (e[0],) + tuple(parts)


# ---------------------------------------------------------------------------------------
# path exploration

class _Ctx:
    def __init__(self, prefix):
        self.prefix = prefix
        self.path = []
        self.known = {}
        self.steps = 0

    def tick(self):
        self.steps += 1
        if self.steps > MAX_STEPS:
            raise TraceUnsupported(f"more than {MAX_STEPS} traced operations on one path (loop on a traced condition?)")

    def decide(self, atom) -> bool:
        self.tick()
        if atom in self.known:
            return self.known[atom]
        i = len(self.path)
        if i < len(self.prefix):
            if self.prefix[i][0] != atom:
                raise TraceUnsupported("the code does not ask the same questions when it is run again (non-deterministic trace)")
            out = self.prefix[i][1]
        else:
            out = True
        if i >= MAX_DEPTH:
            raise TraceUnsupported(f"more than {MAX_DEPTH} parameter decisions on one path (loop on a traced condition?)")
        self.path.append((atom, out))
        self.known[atom] = out
        return out


def _decide(atom) -> bool:
    if not _CUR:
        raise TraceUnsupported("truth value of a traced comparison requested outside a trace")
    return _CUR[-1].decide(atom)


def explore(run):
    """run `run()` under every outcome of the parameter comparisons it makes; returns a decision tree
    ("leaf", value) | ("if", atom, tree_true, tree_false).  An exception of the traced code becomes
    the leaf ("raise", type name)."""
    results = []
    stack = [[]]
    while stack:
        prefix = stack.pop()
        ctx = _Ctx(prefix)
        _CUR.append(ctx)
        try:
            try:
                leaf = ("value", run())
            except TranslationError:
                raise
            except RecursionError:
                raise TraceUnsupported("recursion limit reached while tracing")
            except Exception as e:  # the traced code raised: a behaviour of this path
                leaf = ("raise", type(e).__name__, str(e)[:120])
        finally:
            _CUR.pop()
        path = list(ctx.path)
        if len(path) < len(prefix):
            raise TraceUnsupported("the code does not ask the same questions when it is run again (non-deterministic trace)")
        results.append((path, leaf))
        if len(results) > MAX_PATHS:
            raise TraceUnsupported(f"more than {MAX_PATHS} paths")
        for i in range(len(prefix), len(path)):
            stack.append(path[:i] + [(path[i][0], False)])
    return _build(results, 0)


def _build(results, depth):
    if len(results) == 1 and len(results[0][0]) == depth:
        return ("leaf", results[0][1])
    atoms = {r[0][depth][0] if len(r[0]) > depth else None for r in results}
    if len(atoms) != 1 or None in atoms:
        raise TraceUnsupported("non-deterministic trace (paths disagree on the next question)")
    atom = atoms.pop()
    t = _build([r for r in results if r[0][depth][1]], depth + 1)
    f = _build([r for r in results if not r[0][depth][1]], depth + 1)
    if t == f:
        return t
    return ("if", atom, t, f)


def _map_leaves(tree, fn):
    if tree[0] == "leaf":
        return ("leaf", fn(tree[1]))
    t, f = _map_leaves(tree[2], fn), _map_leaves(tree[3], fn)
    if t == f:
        return t
    return ("if", tree[1], t, f)


def _leaves(tree):
    if tree[0] == "leaf":
        return [tree[1]]
    return _leaves(tree[2]) + _leaves(tree[3])


# ---------------------------------------------------------------------------------------
# traced values

def _expr_of(v):
    return v.e if isinstance(v, TNum) else _const(v)


def _is_numberlike(v) -> bool:
    return isinstance(v, (TNum, int, float, _np.integer, _np.floating)) and not isinstance(v, (bool, _np.bool_))


def _result(e, *operands):
    return TArr(e) if any(isinstance(o, TArr) for o in operands) else TNum(e)


def _binary(op, a, b):
    if op == "id":
        raise TranslationError("internal")
    return _result(_mk(op, _expr_of(a), _expr_of(b)), a, b)


def _unary(name, a):
    if name == "neg":
        return _result(("neg", _expr_of(a)), a)
    if name == "pos":
        return _result(_expr_of(a), a)
    if name == "square":
        return _result(_mk("mul", _expr_of(a), _expr_of(a)), a)
    if name == "reciprocal":
        return _result(("div", _const(1), _expr_of(a)), a)
    return _result(("fn", name, _expr_of(a)), a)


def _clip(a, lo, hi):
    if lo is None and hi is None:
        raise TraceUnsupported("clip without bounds")
    e = _expr_of(a)
    if lo is None:
        return _result(_mk("min", e, _expr_of(hi)), a, hi)
    if hi is None:
        return _result(_mk("max", e, _expr_of(lo)), a, lo)
    return _result(("clip", e, _expr_of(lo), _expr_of(hi)), a, lo, hi)


def _store(out, res):
    """the `out=` protocol: write the result into a traced array and return it"""
    if isinstance(out, tuple):
        if len(out) != 1:
            raise TraceUnsupported("several out= arrays")
        out = out[0]
    if out is None:
        return res
    if not isinstance(out, TArr):
        raise TraceUnsupported(f"out= is not a traced array ({type(out).__name__})")
    out.e = res.e
    return out


class TBool:
    """a comparison of traced parameters; asking for its truth value is a decision point"""
    __slots__ = ("atom", "neg")

    def __init__(self, atom, neg=False):
        self.atom, self.neg = atom, neg

    def __bool__(self):
        return _decide(self.atom) != self.neg

    def __invert__(self):
        return TBool(self.atom, not self.neg)

    def __and__(self, other):
        return bool(self) and bool(other)

    __rand__ = __and__

    def __or__(self, other):
        return bool(self) or bool(other)

    __ror__ = __or__

    def __repr__(self):
        return ("not " if self.neg else "") + _show(self.atom)


def _compare(kind, a, b):
    """Python comparison `a <kind> b` on floats (NaN compares False except !=)"""
    if not (_is_numberlike(a) and _is_numberlike(b)):
        return NotImplemented
    ea, eb = _expr_of(a), _expr_of(b)
    if _depends_x(ea) or _depends_x(eb):
        raise TraceUnsupported("comparison that depends on the traced element (data-dependent branch / mask)")
    if kind == "eq":
        return TBool(_mk_feq(ea, eb))
    if kind == "ne":
        return TBool(_mk_feq(ea, eb), True)
    if kind == "lt":
        return TBool(("lt", ea, eb))
    if kind == "le":
        return TBool(("le", ea, eb))
    if kind == "gt":
        return TBool(("lt", eb, ea))
    return TBool(("le", eb, ea))


def _mk_feq(a, b):
    a, b = sorted((a, b), key=_key)
    return ("feq", a, b)


class TNum:
    """an immutable traced number (a dataclass field or something computed from fields)"""
    __slots__ = ("e",)
    __array_priority__ = 1.0e6
    __hash__ = None  # type: ignore[assignment]

    def __init__(self, e):
        self.e = e

    # -- arithmetic
    def __add__(self, o):
        return _binary("add", self, o) if _is_numberlike(o) else NotImplemented

    def __radd__(self, o):
        return _binary("add", o, self) if _is_numberlike(o) else NotImplemented

    def __sub__(self, o):
        return _binary("sub", self, o) if _is_numberlike(o) else NotImplemented

    def __rsub__(self, o):
        return _binary("sub", o, self) if _is_numberlike(o) else NotImplemented

    def __mul__(self, o):
        return _binary("mul", self, o) if _is_numberlike(o) else NotImplemented

    def __rmul__(self, o):
        return _binary("mul", o, self) if _is_numberlike(o) else NotImplemented

    def __truediv__(self, o):
        return _binary("div", self, o) if _is_numberlike(o) else NotImplemented

    def __rtruediv__(self, o):
        return _binary("div", o, self) if _is_numberlike(o) else NotImplemented

    def __pow__(self, o, mod=None):
        if mod is not None or not _is_numberlike(o):
            return NotImplemented
        return _binary("pow", self, o)

    def __rpow__(self, o):
        return _binary("pow", o, self) if _is_numberlike(o) else NotImplemented

    def __neg__(self):
        return _unary("neg", self)

    def __pos__(self):
        return _unary("pos", self)

    def __abs__(self):
        return _unary("abs", self)

    # -- comparisons
    def __eq__(self, o):
        return _compare("eq", self, o)

    def __ne__(self, o):
        return _compare("ne", self, o)

    def __lt__(self, o):
        return _compare("lt", self, o)

    def __le__(self, o):
        return _compare("le", self, o)

    def __gt__(self, o):
        return _compare("gt", self, o)

    def __ge__(self, o):
        return _compare("ge", self, o)

    def __bool__(self):
        # truthiness of a Python float: x != 0
        if _depends_x(self.e):
            raise TraceUnsupported("truth value of the traced element (data-dependent branch)")
        return not _decide(_mk_feq(self.e, _const(0)))

    # -- what cannot be followed
    def __float__(self):
        raise TraceUnsupported("conversion of a traced value to a Python float (float() / math.*)")

    def __int__(self):
        raise TraceUnsupported("conversion of a traced value to a Python int")

    __index__ = __int__

    def __array__(self, *a, **k):
        raise TraceUnsupported("conversion of a traced value to a real ndarray")

    def __iter__(self):
        raise TraceUnsupported("iteration over a traced value")

    def __len__(self):
        raise TraceUnsupported("len() of a traced value")

    def __getitem__(self, i):
        raise TraceUnsupported("indexing a traced value")

    def __setitem__(self, i, v):
        raise TraceUnsupported("item assignment into a traced value")

    def __repr__(self):
        return f"<traced {_show(self.e)}>"

    def __format__(self, spec):
        return repr(self)

    # -- NumPy protocols: real ufuncs / functions called on traced values come here
    def __array_ufunc__(self, ufunc, method, *inputs, out=None, **kwargs):
        if method != "__call__":
            raise TraceUnsupported(f"ufunc method {ufunc.__name__}.{method}")
        where = kwargs.pop("where", True)
        if where is not True:
            raise TraceUnsupported("ufunc where=")
        for k in ("casting", "order", "subok"):
            kwargs.pop(k, None)
        if kwargs.pop("dtype", None) not in (None, float, _np.float64):
            raise TraceUnsupported("ufunc dtype=")
        if kwargs:
            raise TraceUnsupported(f"ufunc keyword {sorted(kwargs)}")
        spec = UFUNCS.get(ufunc)
        if spec is None:
            raise TraceUnsupported(f"ufunc np.{ufunc.__name__}")
        for v in inputs:
            if not _is_numberlike(v):
                raise TraceUnsupported(f"ufunc operand of type {type(v).__name__}")
        kind, name = spec
        if kind == 1 and len(inputs) == 1:
            res = _unary(name, inputs[0])
        elif kind == 2 and len(inputs) == 2:
            res = _binary(name, inputs[0], inputs[1])
        else:
            raise TraceUnsupported(f"ufunc np.{ufunc.__name__} with {len(inputs)} operands")
        return _store(out, res)

    def __array_function__(self, func, types, args, kwargs):
        h = FUNCTIONS.get(func)
        if h is None:
            raise TraceUnsupported(f"NumPy function np.{getattr(func, '__name__', func)}")
        return h(*args, **kwargs)


class TArr(TNum):
    """a mutable traced array (one element of it): `out=` and the in-place operators write into it"""
    __slots__ = ()

    def _inplace(self, op, o):
        if not _is_numberlike(o):
            return NotImplemented
        self.e = _mk(op, self.e, _expr_of(o))
        return self

    def __iadd__(self, o):
        return self._inplace("add", o)

    def __isub__(self, o):
        return self._inplace("sub", o)

    def __imul__(self, o):
        return self._inplace("mul", o)

    def __itruediv__(self, o):
        return self._inplace("div", o)

    def __ipow__(self, o):
        return self._inplace("pow", o)

    # ndarray-style methods
    def clip(self, min=None, max=None, out=None, **kwargs):  # noqa: A002
        if kwargs:
            raise TraceUnsupported(f"clip keyword {sorted(kwargs)}")
        return _store(out, _clip(self, min, max))

    def copy(self, order="C"):
        return TArr(self.e)

    def __copy__(self):
        return TArr(self.e)

    def __deepcopy__(self, memo):
        return TArr(self.e)

    def astype(self, dtype, *a, copy=True, **k):
        if _np.dtype(dtype) != _np.dtype("float64"):
            raise TraceUnsupported(f"astype({dtype})")
        return TArr(self.e) if copy else self

    @property
    def dtype(self):
        return _np.dtype("float64")

    def __getattr__(self, name):
        if name.startswith("__") and name.endswith("__"):
            raise AttributeError(name)
        raise TraceUnsupported(f"ndarray attribute .{name} on the traced array")


def _fn_clip(a, a_min=None, a_max=None, out=None, *, min=None, max=None, **kwargs):  # noqa: A002
    if kwargs:
        raise TraceUnsupported(f"np.clip keyword {sorted(kwargs)}")
    lo = a_min if a_min is not None else min
    hi = a_max if a_max is not None else max
    return _store(out, _clip(a, lo, hi))


def _fn_copy(a, *args, **kwargs):
    return TArr(_expr_of(a))


UFUNCS = {
    _np.add: (2, "add"), _np.subtract: (2, "sub"), _np.multiply: (2, "mul"), _np.true_divide: (2, "div"),
    _np.power: (2, "pow"), _np.float_power: (2, "pow"), _np.minimum: (2, "min"), _np.maximum: (2, "max"),
    _np.log: (1, "log"), _np.exp: (1, "exp"), _np.sinh: (1, "sinh"), _np.arcsinh: (1, "asinh"), _np.sqrt: (1, "sqrt"),
    _np.absolute: (1, "abs"), _np.fabs: (1, "abs"), _np.negative: (1, "neg"), _np.positive: (1, "pos"),
    _np.square: (1, "square"), _np.reciprocal: (1, "reciprocal"),
}
FUNCTIONS = {_np.clip: _fn_clip, _np.copy: _fn_copy}


def _as_array(obj, same_object: bool):
    if isinstance(obj, TArr) and same_object:
        return obj
    return TArr(obj.e)


def _check_dtype(kwargs):
    dt = kwargs.pop("dtype", None)
    if dt is not None and _np.dtype(dt) != _np.dtype("float64"):
        raise TraceUnsupported(f"array creation with dtype={dt}")
    for k in ("order", "subok", "ndmin", "like"):
        kwargs.pop(k, None)


class NpProxy:
    """the module's `np` while it is traced: array-creation functions accept traced values, everything
    else is real NumPy (ufuncs and dispatched functions reach the traced values through the protocols)"""

    def __init__(self, real):
        object.__setattr__(self, "_real", real)

    def __getattr__(self, name):
        real = getattr(object.__getattribute__(self, "_real"), name)
        if name == "array":
            def array(obj, *args, **kwargs):
                if not isinstance(obj, TNum):
                    return real(obj, *args, **kwargs)
                if args:
                    kwargs["dtype"] = args[0]
                    if len(args) > 1:
                        raise TraceUnsupported("np.array positional arguments")
                copy = kwargs.pop("copy", True)
                if isinstance(copy, (TNum, TBool)):
                    raise TraceUnsupported("np.array(copy=<traced>)")
                _check_dtype(kwargs)
                if kwargs:
                    raise TraceUnsupported(f"np.array keyword {sorted(kwargs)}")
                return _as_array(obj, same_object=(copy is None or copy is False))
            return array
        if name in ("asarray", "asanyarray", "ascontiguousarray"):
            def asarray(obj, *args, **kwargs):
                if not isinstance(obj, TNum):
                    return real(obj, *args, **kwargs)
                if args:
                    kwargs["dtype"] = args[0]
                if kwargs.pop("copy", None) is True:
                    _check_dtype(kwargs)
                    return _as_array(obj, same_object=False)
                _check_dtype(kwargs)
                if kwargs:
                    raise TraceUnsupported(f"np.{name} keyword {sorted(kwargs)}")
                return _as_array(obj, same_object=True)
            return asarray
        return real


numbers.Real.register(TNum)


# ---------------------------------------------------------------------------------------
# loading and tracing the classes

def load_module(path: str):
    """a private module object made from the source file (relative imports resolve inside quantem)"""
    name = "quantem.core.visualization._qverif_traced_custom_normalizations"
    try:
        spec = importlib.util.spec_from_file_location(name, path)
        mod = importlib.util.module_from_spec(spec)
        sys.modules[name] = mod
        try:
            spec.loader.exec_module(mod)
        finally:
            sys.modules.pop(name, None)
    except TranslationError:
        raise
    except BaseException as e:  # SyntaxError, ImportError, anything the module body raises
        raise TranslationError(f"cannot load {path}: {type(e).__name__}: {e}")
    # every module global bound to NumPy itself becomes the proxy (functions look `np` up at call time)
    for k, v in list(vars(mod).items()):
        if v is _np:
            setattr(mod, k, NpProxy(_np))
        elif v is math:
            setattr(mod, k, _MathProxy())
    return mod


class _MathProxy:
    """`math.*` on traced values (real `math` on numbers)"""
    _UN = {"log": "log", "exp": "exp", "sinh": "sinh", "asinh": "asinh", "sqrt": "sqrt", "fabs": "abs"}

    def __getattr__(self, name):
        real = getattr(math, name)
        if name in self._UN:
            def f(x, *rest):
                if isinstance(x, TNum) and not rest:
                    return _unary(self._UN[name], x)
                return real(x, *rest)
            return f
        if name == "pow":
            def p(a, b):
                if isinstance(a, TNum) or isinstance(b, TNum):
                    return _binary("pow", a, b)
                return real(a, b)
            return p
        return real


def stretch_classes(mod):
    out = {}
    for k, v in vars(mod).items():
        if isinstance(v, type) and k.endswith("Stretch") and v.__module__ == mod.__name__:
            if not dataclasses.is_dataclass(v):
                raise TranslationError(f"{k}: expected a dataclass")
            out[k] = v
    return out


def _fields(cls):
    return [f.name for f in dataclasses.fields(cls)]


def _symbolic_args(cls):
    return [TNum(("p", f)) for f in _fields(cls)]


def trace_valid(cls):
    """decision tree with leaves True (construction succeeds) / False (ValueError)"""
    def run():
        cls(*_symbolic_args(cls))
        return True
    tree = explore(run)

    def leaf(v):
        if v[0] == "value":
            return True
        if v[1] == "ValueError":
            return False
        raise TranslationError(f"{cls.__name__}: construction raises {v[1]} ({v[2]}) on some parameters — only ValueError is modelled")
    return _map_leaves(tree, leaf)


def _symbolic_instance(cls):
    """an instance whose fields are symbols, built without running the validation"""
    obj = object.__new__(cls)
    for f in _fields(cls):
        object.__setattr__(obj, f, TNum(("p", f)))
    return obj


def trace_call(cls):
    """decision tree whose leaves are the expression `__call__` returns for the element `values`"""
    def run():
        obj = _symbolic_instance(cls)
        r = obj(TArr(("x",)))
        if not isinstance(r, TNum):
            raise TranslationError(f"{cls.__name__}.__call__ returned a {type(r).__name__}, not the traced array")
        return r.e
    tree = explore(run)

    def leaf(v):
        if v[0] != "value":
            raise TranslationError(f"{cls.__name__}.__call__ raises {v[1]} ({v[2]}) on some path — the model of `call` is a total function")
        return v[1]
    return _map_leaves(tree, leaf)


def trace_inverse(cls, classes, valid_trees):
    """(target class name, [decision tree per target field]) of the object the `inverse` attribute returns.
    Building the inverse may raise ValueError exactly where the target's own validation rejects the fields."""
    by_type = {v: k for k, v in classes.items()}

    def run():
        inv = _symbolic_instance(cls).inverse
        tname = by_type.get(type(inv))
        if tname is None:
            raise TranslationError(f"{cls.__name__}.inverse is a {type(inv).__name__}, not an instance of a stretch class")
        vals = []
        for f in _fields(type(inv)):
            v = getattr(inv, f)
            e = _expr_of(v)
            if _depends_x(e):
                raise TranslationError("internal: inverse field depends on the element")
            vals.append(e)
        return (tname, tuple(vals))
    tree = explore(run)
    ok = [v for v in _leaves(tree) if v[0] == "value"]
    bad = [v for v in _leaves(tree) if v[0] != "value" and v[1] != "ValueError"]
    if bad:
        raise TranslationError(f"{cls.__name__}.inverse raises {bad[0][1]} ({bad[0][2]}) on some path — only ValueError is modelled")
    if not ok:
        raise TranslationError(f"{cls.__name__}.inverse raises on every path")
    targets = {v[1][0] for v in ok}
    if len(targets) != 1:
        raise TranslationError(f"{cls.__name__}.inverse returns different classes on different paths: {sorted(targets)}")
    target = targets.pop()
    nfields = len(_fields(classes[target]))

    # the field map: the tree with the raising leaves removed (a raising branch takes its sibling's value)
    def strip(t):
        if t[0] == "leaf":
            return t if t[1][0] == "value" else None
        a, b = strip(t[2]), strip(t[3])
        if a is None:
            return b
        if b is None:
            return a
        return a if a == b else ("if", t[1], a, b)
    fmap = strip(tree)
    field_trees = [_map_leaves(fmap, lambda v, i=i: v[1][1][i]) for i in range(nfields)]

    # where building the inverse raises must be where the target's validation rejects these fields
    raises_tree = _map_leaves(tree, lambda v: v[0] == "value")

    def expected(ft):
        # substitute the field expressions into the target's validation tree (only for a branch-free field map)
        if any(t[0] != "leaf" for t in ft):
            return None
        env = {f: t[1] for f, t in zip(_fields(classes[target]), ft)}

        def sub(t):
            if t[0] == "leaf":
                return t
            atom = _subst(t[1], env)
            if atom[1][0] == "c" and atom[2][0] == "c":      # a comparison of two constants is decided by Python itself
                p, q = atom[1][1], atom[2][1]
                return sub(t[2] if {"feq": p == q, "le": p <= q, "lt": p < q}[atom[0]] else t[3])
            a, b = sub(t[2]), sub(t[3])
            return a if a == b else ("if", atom, a, b)
        return sub(valid_trees[target])
    exp = expected(field_trees)
    if exp is not None and exp != raises_tree:
        raise TranslationError(f"{cls.__name__}.inverse raises ValueError under other conditions than {target}'s own validation of the fields it is given")
    if exp is None and any(v[0] != "value" for v in _leaves(tree)):
        raise TranslationError(f"{cls.__name__}.inverse: branching field map together with raising paths is outside the tracer")
    return target, field_trees


def trace_interval(mod):
    """`BaseInterval.__call__` and `BaseInterval.inverse` on one element, for symbolic limits: a subclass whose
    `get_limits` returns the symbols (vmin, vmax) is called on the traced array"""
    base = getattr(mod, "BaseInterval", None)
    if not isinstance(base, type):
        raise TranslationError("BaseInterval not found")
    lo, hi = TNum(("v", "vmin")), TNum(("v", "vmax"))

    def make():
        try:
            return type("_TracedInterval", (base,), {"get_limits": lambda self, values: (lo, hi)})()
        except Exception as e:  # noqa
            raise TranslationError(f"cannot subclass BaseInterval with symbolic limits: {type(e).__name__}: {e}")

    def run(method):
        def go():
            obj = make()
            r = (obj if method == "__call__" else getattr(obj, method))(TArr(("x",)))
            if not isinstance(r, TNum):
                raise TranslationError(f"BaseInterval.{method} returned a {type(r).__name__}, not the traced array")
            return r.e
        return go

    def leaf(method):
        def f(v):
            if v[0] != "value":
                raise TranslationError(f"BaseInterval.{method} raises {v[1]} ({v[2]}) on some path — the model is a total function")
            return v[1]
        return f
    return _map_leaves(explore(run("__call__")), leaf("__call__")), _map_leaves(explore(run("inverse")), leaf("inverse"))


def trace_defaults(cls):
    try:
        inst = cls()
    except Exception as e:  # noqa
        raise TranslationError(f"{cls.__name__}() cannot be built with its defaults: {type(e).__name__}: {e}")
    out = []
    for f in _fields(cls):
        v = getattr(inst, f)
        if isinstance(v, TNum):
            raise TranslationError("internal: traced default")
        out.append(_const(v))
    return out


# ---------------------------------------------------------------------------------------
# Lean text

def _bool_tree(t) -> str:
    if t[0] == "leaf":
        return "true" if t[1] else "false"
    c = _show(t[1])
    a, b = t[2], t[3]
    if a == ("leaf", False) and b == ("leaf", True):
        return f"(!{c})"
    if a == ("leaf", True) and b == ("leaf", False):
        return c
    if a == ("leaf", False):
        return f"((!{c}) && {_bool_tree(b)})"
    if b == ("leaf", False):
        return f"({c} && {_bool_tree(a)})"
    if a == ("leaf", True):
        return f"({c} || {_bool_tree(b)})"
    if b == ("leaf", True):
        return f"((!{c}) || {_bool_tree(a)})"
    return f"(if {c} then {_bool_tree(a)} else {_bool_tree(b)})"


def _expr_tree(t, indent="  ") -> list[str]:
    if t[0] == "leaf":
        return [indent + _show(t[1])]
    return [f"{indent}if {_show(t[1])} then"] + _expr_tree(t[2], indent + "  ") + [f"{indent}else"] + _expr_tree(t[3], indent + "  ")


def _expr_tree_inline(t) -> str:
    if t[0] == "leaf":
        return _show(t[1])
    return f"(if {_show(t[1])} then {_expr_tree_inline(t[2])} else {_expr_tree_inline(t[3])})"


PRELUDE = """/-
GENERATED by harness/translator/stretch2lean.py from
  src/quantem/core/visualization/custom_normalizations.py  (classes *Stretch)
on every `./check C20` run — DO NOT EDIT.  The classes are EXECUTED on symbolic values (one array
element `values`, the dataclass fields `self.<field>`); what they compute is written here over
`[Num R]`, one `if` per comparison of parameters, commutative operands in a fixed order.
`copy=` (aliasing of the caller's buffer) is outside this model.
-/
import QuantemModel.Core.Num
set_option linter.unusedVariables false
namespace QuantemModel.Generated.Stretch
open QuantemModel

/-- Python `a == b` on floats (`-0.0 == 0.0`, `nan == x` is False) -/
def feq {R : Type} [Num R] (a b : R) : Bool := Num.leb a b && Num.leb b a
/-- Python `a != b` on floats -/
def fne {R : Type} [Num R] (a b : R) : Bool := !(feq a b)
"""


def translate_module(mod) -> str:
    classes = stretch_classes(mod)
    order = list(classes)
    got = {n: _fields(classes[n]) for n in order}
    if got != EXPECTED or order != list(EXPECTED):
        raise TranslationError(f"stretch classes/fields changed: expected {EXPECTED}, found {got}")
    valid = {n: trace_valid(classes[n]) for n in order}
    call = {n: trace_call(classes[n]) for n in order}
    inverse = {n: trace_inverse(classes[n], classes, valid) for n in order}
    defaults = {n: trace_defaults(classes[n]) for n in order}
    icall, iinv = trace_interval(mod)

    out = [PRELUDE]
    for n in order:
        out.append(f"structure {n} (R : Type) where")
        for f in got[n]:
            out.append(f"  {f} : R")
        out.append("")
    for n in order:
        out.append(f"namespace {n}")
        out.append("variable {R : Type} [Num R]")
        dflt = ", ".join(f"{f} := {_show(v)}" for f, v in zip(got[n], defaults[n]))
        out.append("/-- dataclass defaults -/")
        out.append(f"def default : {n} R := {{ {dflt} }}")
        out.append("/-- construction does not raise -/")
        out.append(f"def valid (self : {n} R) : Bool := {_bool_tree(valid[n])}")
        out.append("/-- `__call__` on one element -/")
        out.append(f"def call (self : {n} R) (values : R) : R :=")
        out.extend(_expr_tree(call[n]))
        target, ftrees = inverse[n]
        out.append("/-- the `inverse` property -/")
        out.append(f"def inverse (self : {n} R) : {target} R := {{ "
                   + ", ".join(f"{f} := {_expr_tree_inline(t)}" for f, t in zip(got[target], ftrees)) + " }")
        out.append(f"end {n}")
        out.append("")

    out.append("section Interval")
    out.append("variable {R : Type} [Num R]")
    out.append("/-- `BaseInterval.__call__` on one element; `(vmin, vmax)` is what `get_limits(values)` returned -/")
    out.append("def baseIntervalCall (vmin vmax values : R) : R :=")
    out.extend(_expr_tree(icall))
    out.append("/-- `BaseInterval.inverse` on one element -/")
    out.append("def baseIntervalInverse (vmin vmax values : R) : R :=")
    out.extend(_expr_tree(iinv))
    out.append("end Interval")
    out.append("")

    # name-indexed dispatch for the driver (parameters in field order)
    out.append("section Dispatch")
    out.append("variable {R : Type} [Num R]")
    out.append("def classNames : List String := [" + ", ".join(f'"{n}"' for n in order) + "]")
    out.append("def fieldNames : String → List String")
    for n in order:
        out.append(f'  | "{n}" => [' + ", ".join(f'"{f}"' for f in got[n]) + "]")
    out.append("  | _ => []")

    def pat(n):
        return "[" + ", ".join(got[n]) + "]"

    def mk(n):
        return "{ " + ", ".join(f"{f} := {f}" for f in got[n]) + f" : {n} R }}"

    def lst(n, var):
        return "[" + ", ".join(f"{var}.{f}" for f in got[n]) + "]"

    out.append("def defaultsByName : String → Option (List R)")
    for n in order:
        out.append(f'  | "{n}" => some (let d : {n} R := {n}.default; {lst(n, "d")})')
    out.append("  | _ => none")
    out.append("def validByName : String → List R → Option Bool")
    for n in order:
        out.append(f'  | "{n}", {pat(n)} => some ({mk(n)}).valid')
    out.append("  | _, _ => none")
    out.append("def callByName : String → List R → R → Option R")
    for n in order:
        out.append(f'  | "{n}", {pat(n)}, x => some (({mk(n)}).call x)')
    out.append("  | _, _, _ => none")
    out.append("def inverseByName : String → List R → Option (String × List R)")
    for n in order:
        target = inverse[n][0]
        out.append(f'  | "{n}", {pat(n)} => some (let i := ({mk(n)}).inverse; ("{target}", {lst(target, "i")}))')
    out.append("  | _, _ => none")
    out.append("end Dispatch")
    out.append("")
    out.append("end QuantemModel.Generated.Stretch")
    return "\n".join(out) + "\n"


def translate_file(path: str) -> str:
    if not os.path.exists(path):
        raise TranslationError(f"cannot read {path}")
    import signal
    import threading

    class _Timeout(BaseException):
        pass

    def on_alarm(signum, frame):
        raise _Timeout()
    use_alarm = threading.current_thread() is threading.main_thread() and hasattr(signal, "setitimer")
    old_handler = None
    if use_alarm:
        try:
            old_handler = signal.signal(signal.SIGALRM, on_alarm)
            signal.setitimer(signal.ITIMER_REAL, TIME_LIMIT_S)
        except (ValueError, OSError):
            use_alarm = False
    try:
        mod = load_module(path)
        return translate_module(mod)
    except TranslationError:
        raise
    except _Timeout:
        raise TranslationError(f"tracing did not finish within {TIME_LIMIT_S} s (a loop the tracer cannot follow?)")
    except BaseException as e:  # the tracer itself must never crash the check
        if isinstance(e, (KeyboardInterrupt, SystemExit)):
            raise
        raise TranslationError(f"tracer failed: {type(e).__name__}: {e}")
    finally:
        if use_alarm:
            signal.setitimer(signal.ITIMER_REAL, 0)
            signal.signal(signal.SIGALRM, old_handler)
        del _CUR[:]


def regenerate(out_path: str = OUT_PATH) -> bool:
    """trace the current source; rewrite the Lean file only if its text changes.
    Returns True if the file changed.  Raises TranslationError (file left untouched)."""
    text = translate_file(source_path())
    old = None
    if os.path.exists(out_path):
        old = open(out_path, encoding="utf-8").read()
    if old == text:
        return False
    os.makedirs(os.path.dirname(out_path), exist_ok=True)
    tmp = out_path + ".tmp"
    with open(tmp, "w", encoding="utf-8") as f:
        f.write(text)
    os.replace(tmp, out_path)
    return True


if __name__ == "__main__":
    try:
        if len(sys.argv) > 1 and sys.argv[1] == "--print":
            sys.stdout.write(translate_file(source_path()))
        else:
            changed = regenerate()
            print(("rewrote " if changed else "unchanged ") + OUT_PATH)
    except TranslationError as e:
        print("TranslationError:", e)
        sys.exit(1)
