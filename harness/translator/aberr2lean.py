"""aberr2lean — Python `ast` → Lean 4 translator for the aberration formula code (C12).

It regenerates `lean/QuantemModel/Generated/Aberration.lean` from the *current* bodies of

    complex_probe.py : aberration_surface, aberration_surface_polar_gradients,
                       aberration_surface_cartesian_gradients, aberration_surface_cartesian_basis
                       (with parse_cartesian_aberration_label evaluated at translation time),
                       polar_to_cartesian_aberrations, cartesian_to_polar_aberrations,
                       merge_aberration_coefficients, POLAR_SYMBOLS, POLAR_ALIASES
    validators.py    : the local POLAR_SYMBOLS / POLAR_ALIASES copies of validate_aberration_coefficients
    direct_ptycho_utils.py : ABERRATION_PRESETS
    probe_models.py  : ProbeBase.DEFAULT_PROBE_PARAMS keys

The translator is a small *partial evaluator*: integers, strings, tuples, ranges, f-strings,
label parsing … are evaluated at translation time (loops over literal tables are unrolled);
tensor arithmetic becomes a Lean expression generic over `[Num R]` (Core/Num.lean).

Grammar (anything else raises `Untranslatable` = "tie broken", never silently skipped):
  * arithmetic + - * / unary -, `**` with a literal natural exponent, `.square()`
  * torch.cos/sin/sqrt/atan2, torch.zeros_like (→ 0), torch.tensor(c) (→ c), math.pi, math.cos/sin
  * numeric literals: ints stay ints, `a / b` of literals and decimal float literals are kept as
    exact rationals (`Num.ofRat (p/q)`): the ℝ theorems are about the written formula, the Float
    driver computes the same IEEE quotient as Python
  * dict parameters are environments `String → R` (absent key = 0): `d.get(k, 0.0)`,
    `defaultdict(lambda: torch.tensor(0.0, …), d)[k]`
  * local helper `def get(name, default=0.0): val = coefs.get(name, default); return val`
  * `if any(k in coefs for k in (<keys>)):` guards whose body is only `x = x ± E` statements and
    whose E reads only keys listed in the guard: the unguarded sum is emitted, each E becomes a
    separate definition `<fn>_<x>_term<i>` (so that `guard_sound` can be stated in Props/C12.lean:
    E = 0 when all guard keys are 0) and the guard key lists are emitted as `<fn>_guards`
  * `for` over `range(...)`/literal tables (unrolled), `continue`, static `if/elif/else`,
    dict/list building with static keys, `torch.stack(list, dim=-1)` (→ list),
    `for k, v in D.items(): if k in T: T[k] = T[k] + v else: T[k] = v` (pointwise merge with an
    environment), calls to other translated functions.
  * guards are ALSO emitted faithfully: every function with guards (and every function calling one) gets a
    second definition `<fn>_guarded` with a presence predicate `present : String → Bool`
    (`if any(k in coefs …)` → `if List.any [keys] present`); that guarded = unguarded whenever absent keys
    read 0 is a Lean obligation (`guards_transparent` in Props/C12.lean), not a check of the translator
  * a loop over a *dynamic* label list that only appends to one list (`for label in cartesian_basis: …
    out.append(e)`): the body is partially evaluated for every label of the literal label table with the
    list kept symbolic; emitted as `<fn>_step … (out : List R) (label : String) : Option (List R)` and
    `<fn>_list … (labels : List String) := List.foldlM step [] labels` (labels outside the table → none)
  * 2×2 matrix code of `_torch_polar`: `torch.linalg.svd(m)` (an abstract parameter `svd`), `A @ B`, `.T`,
    `.conj()` (real: identity), `S.diag()`, `.to(dtype=…)` (identity), `M * S` (column scaling = M·diag S)
  * the extraction part of `fit_aberrations_from_shifts` (everything after `… = _torch_polar(M)`), with the two
    polar factors as matrix parameters: `M[i, j]`, `-M`, torch.abs, torch.remainder (→ `rem1`, proved exact on
    the reachable range), a branch on a tensor comparison (`if 2 * torch.abs(…) > math.pi:` → Lean `if`, the
    assigned variables merged), `.item()`, a dict literal with literal keys.  The plumbing before it (k-grid,
    mask, `basis = kvec * wavelength`, `torch.linalg.lstsq(basis, shifts)[0]`) must match a fixed template, else
    the translator raises; it is modelled by hand (`lstsq2`) and tied by the correspondence.
Output is deterministic (no timestamps).
"""
import ast
import json
import os
from fractions import Fraction

HERE = os.path.dirname(os.path.abspath(__file__))
OUT = os.path.normpath(os.path.join(HERE, "..", "..", "lean", "QuantemModel", "Generated", "Aberration.lean"))

CP = "quantem/diffractive_imaging/complex_probe.py"
VAL = "quantem/core/utils/validators.py"
DPU = "quantem/diffractive_imaging/direct_ptycho_utils.py"
PM = "quantem/diffractive_imaging/probe_models.py"


class Untranslatable(Exception):
    pass


def bad(node, why):
    line = getattr(node, "lineno", "?")
    raise Untranslatable(f"line {line}: {why}: {ast.unparse(node)[:120] if isinstance(node, ast.AST) else node}")


# ----------------------------------------------------------------------------------------
# values of the partial evaluator

class Dyn:
    """a Lean expression of type R (always parenthesised / atomic)"""
    def __init__(self, code):
        self.code = code


class Env:
    """a dict parameter seen as an environment `String → R` (absent = 0)"""
    def __init__(self, code):
        self.code = code


class OpenDict:
    """a dict under construction: statically known keys → Dyn, optional rest environment"""
    def __init__(self, known=None, rest=None):
        self.known = dict(known or {})
        self.rest = rest
        self.origin = None   # Lean code of the call that produced it, while unmodified


class DynM:
    """a Lean expression of type M2 R"""
    def __init__(self, code):
        self.code = code


class DynV:
    """a Lean expression of type R × R (the two singular values)"""
    def __init__(self, code):
        self.code = code


class DynBool:
    """a Lean expression of type Bool"""
    def __init__(self, code):
        self.code = code


class DynList:
    """a list of R kept symbolic (mutable: .append rewrites .code)"""
    def __init__(self, code, opt=False):
        self.code = code
        self.opt = opt      # True: the expression has type Option (List R)


class DynLabels:
    """a dynamic list of label strings drawn from a literal universe"""
    def __init__(self, code, universe):
        self.code, self.universe = code, list(universe)


class Presence:
    def __init__(self, env, key):
        self.env, self.key = env, key


class Guard:
    def __init__(self, keys):
        self.keys = keys


class PyFunc:
    def __init__(self, node, closure):
        self.node, self.closure = node, closure


class Translated:
    """an already translated top-level function (call emitted, not inlined)"""
    def __init__(self, name, params, ret):
        self.name, self.params, self.ret = name, params, ret   # ret: "R" | ("tuple", n) | ("dict", keys) | ("list", n)


class _Continue(Exception):
    pass


class _Return(Exception):
    def __init__(self, v):
        self.v = v


def rat_lit(q):
    q = Fraction(q)
    if q.denominator == 1:
        return f"(Num.ofRat ({q.numerator}))" if q.numerator < 0 else f"(Num.ofRat {q.numerator})"
    return f"(Num.ofRat ({q.numerator}/{q.denominator}))"


def is_num(v):
    return isinstance(v, (int, Fraction)) and not isinstance(v, bool)


def to_dyn(v, node=None):
    if isinstance(v, Dyn):
        return v
    if is_num(v):
        return Dyn(rat_lit(v))
    bad(node, f"expected a numeric/tensor value, got {type(v).__name__}")


def lean_str(s):
    assert all(32 <= ord(c) < 127 and c not in '"\\' for c in s), s
    return f'"{s}"'


class Module:
    def __init__(self, rel):
        self.rel = rel
        self.path = os.path.join(os.environ.get("QVERIF_REPO", "/repo"), "src", rel)
        self.tree = ast.parse(open(self.path).read())
        self.funcs = {n.name: n for n in self.tree.body if isinstance(n, ast.FunctionDef)}
        self.consts = {}
        for n in self.tree.body:
            if isinstance(n, ast.Assign) and len(n.targets) == 1 and isinstance(n.targets[0], ast.Name):
                try:
                    self.consts[n.targets[0].id] = ast.literal_eval(n.value)
                except Exception:
                    pass


class Interp:
    def __init__(self, mod: Module):
        self.mod = mod
        self.translated = {}     # name -> Translated
        self.defs = []           # emitted Lean text blocks
        self.cur = None          # (fname, params list[(name, kind)])
        self.reads = None        # set of (env code, key) read while inside a guard body
        self.term_count = {}
        self.guards = []
        self.guarded = False     # second pass: emit `<fn>_guarded` with faithful guards
        self.has_guarded = {}    # function name -> True if a `_guarded` variant exists
        self.used_guarded = False

    # -- expressions ---------------------------------------------------------------------
    def ev(self, node, sc):
        m = getattr(self, "ev_" + type(node).__name__, None)
        if m is None:
            bad(node, f"expression form {type(node).__name__} outside the grammar")
        return m(node, sc)

    def ev_Constant(self, node, sc):
        v = node.value
        if isinstance(v, float):
            return Fraction(repr(v))
        if isinstance(v, (int, str, bool)) or v is None:
            return v
        bad(node, "constant kind")

    def ev_Name(self, node, sc):
        if node.id in sc:
            return sc[node.id]
        if node.id in self.translated:
            return self.translated[node.id]
        if node.id in self.mod.funcs:
            return PyFunc(self.mod.funcs[node.id], {})
        if node.id in self.mod.consts:
            return self.mod.consts[node.id]
        if node.id in ("torch", "math", "defaultdict", "range", "int", "any", "len", "float"):
            return ("builtin", node.id)
        bad(node, "unknown name")

    def ev_Tuple(self, node, sc):
        return tuple(self.ev(e, sc) for e in node.elts)

    def ev_List(self, node, sc):
        return [self.ev(e, sc) for e in node.elts]

    def ev_Dict(self, node, sc):
        d = OpenDict()
        for k, v in zip(node.keys, node.values):
            if k is None:
                bad(node, "dict unpacking")
            key = self.ev(k, sc)
            if not isinstance(key, str):
                bad(node, "dict literal with a non-literal key")
            d.known[key] = to_dyn(self.ev(v, sc), node)
        return d

    def ev_JoinedStr(self, node, sc):
        out = ""
        for part in node.values:
            if isinstance(part, ast.Constant):
                out += part.value
            elif isinstance(part, ast.FormattedValue) and part.format_spec is None and part.conversion == -1:
                v = self.ev(part.value, sc)
                if not isinstance(v, (int, str)) or isinstance(v, bool):
                    bad(node, "f-string over a non-static value")
                out += str(v)
            else:
                bad(node, "f-string form")
        return out

    def ev_Attribute(self, node, sc):
        base = self.ev(node.value, sc)
        if base == ("builtin", "math") and node.attr == "pi":
            return Dyn("Num.pi")
        if isinstance(base, tuple) and base and base[0] == "builtin":
            return ("builtin", base[1] + "." + node.attr)
        if isinstance(base, DynM) and node.attr == "T":
            return DynM(f"(QuantemModel.Aberration.M2.transpose {base.code})")
        if isinstance(base, (DynM, DynV)) and node.attr == "dtype":
            return ("dtype",)
        return ("method", base, node.attr)

    def ev_UnaryOp(self, node, sc):
        v = self.ev(node.operand, sc)
        if isinstance(node.op, ast.USub):
            if isinstance(v, DynM):
                return DynM(f"(QuantemModel.Aberration.M2.neg {v.code})")
            if is_num(v):
                return -v
            return Dyn(f"(-{to_dyn(v, node).code})")
        if isinstance(node.op, ast.Not) and isinstance(v, (bool, list, tuple, str)):
            return not v
        bad(node, "unary operator")

    def ev_BinOp(self, node, sc):
        a, b = self.ev(node.left, sc), self.ev(node.right, sc)
        op = node.op
        if isinstance(a, str) and isinstance(b, str) and isinstance(op, ast.Add):
            return a + b
        if isinstance(a, tuple) and isinstance(b, tuple) and isinstance(op, ast.Add):
            return a + b
        if is_num(a) and is_num(b):
            if isinstance(op, ast.Add):
                return a + b
            if isinstance(op, ast.Sub):
                return a - b
            if isinstance(op, ast.Mult):
                return a * b
            if isinstance(op, ast.Div):
                return Fraction(a) / Fraction(b)
            if isinstance(op, ast.FloorDiv) and isinstance(a, int) and isinstance(b, int):
                return a // b
            if isinstance(op, ast.Pow) and isinstance(b, int) and b >= 0:
                return a ** b
            bad(node, "static arithmetic operator")
        if isinstance(op, ast.Pow):
            if isinstance(b, int) and not isinstance(b, bool) and b >= 0:
                return Dyn(f"(npow {to_dyn(a, node).code} {b})")
            bad(node, "`**` with a non-literal or negative exponent")
        if isinstance(a, DynM) or isinstance(b, DynM) or isinstance(a, DynV) or isinstance(b, DynV):
            if isinstance(op, ast.MatMult) and isinstance(a, DynM) and isinstance(b, DynM):
                return DynM(f"(QuantemModel.Aberration.M2.mul {a.code} {b.code})")
            if isinstance(op, ast.Mult) and isinstance(a, DynM) and isinstance(b, DynV):
                return DynM(f"(QuantemModel.Aberration.M2.mul {a.code} (QuantemModel.Aberration.M2.diag {b.code}))")   # (2,2)*(2,) scales the columns
            bad(node, "matrix operator")
        sym = {ast.Add: "+", ast.Sub: "-", ast.Mult: "*", ast.Div: "/"}.get(type(op))
        if sym is None:
            bad(node, "binary operator")
        return Dyn(f"({to_dyn(a, node).code} {sym} {to_dyn(b, node).code})")

    def ev_Compare(self, node, sc):
        if len(node.ops) != 1:
            bad(node, "chained comparison")
        a, b = self.ev(node.left, sc), self.ev(node.comparators[0], sc)
        op = node.ops[0]
        if isinstance(op, ast.In) and isinstance(b, Env):
            if not isinstance(a, str):
                bad(node, "`in` on an environment with a non-static key")
            return Presence(b, a)
        if (isinstance(a, Dyn) or isinstance(b, Dyn)) and (isinstance(a, Dyn) or is_num(a)) and (isinstance(b, Dyn) or is_num(b)):
            x, y = to_dyn(a, node).code, to_dyn(b, node).code
            if isinstance(op, ast.Gt):
                return DynBool(f"(Num.ltb {y} {x})")
            if isinstance(op, ast.Lt):
                return DynBool(f"(Num.ltb {x} {y})")
            if isinstance(op, ast.GtE):
                return DynBool(f"(Num.leb {y} {x})")
            if isinstance(op, ast.LtE):
                return DynBool(f"(Num.leb {x} {y})")
            bad(node, "comparison operator on tensor values")
        for v in (a, b):
            if isinstance(v, (Dyn, Env, OpenDict)):
                bad(node, "comparison on a tensor value")
        if isinstance(op, ast.Lt):
            return a < b
        if isinstance(op, ast.LtE):
            return a <= b
        if isinstance(op, ast.Gt):
            return a > b
        if isinstance(op, ast.GtE):
            return a >= b
        if isinstance(op, ast.Eq):
            return a == b
        if isinstance(op, ast.NotEq):
            return a != b
        if isinstance(op, ast.Is):
            return a is b
        if isinstance(op, ast.IsNot):
            return a is not b
        if isinstance(op, ast.In):
            return a in b
        bad(node, "comparison operator")

    def ev_IfExp(self, node, sc):
        t = self.ev(node.test, sc)
        if isinstance(t, (Dyn, Env, OpenDict, Presence, Guard)):
            bad(node, "conditional expression on a tensor value")
        return self.ev(node.body if t else node.orelse, sc)

    def ev_Subscript(self, node, sc):
        base = self.ev(node.value, sc)
        idx = self.ev(node.slice, sc)
        if isinstance(base, DynM):
            fld = {(0, 0): "a", (0, 1): "b", (1, 0): "c", (1, 1): "d"}.get(idx if isinstance(idx, tuple) else None)
            if fld is None:
                bad(node, "matrix subscript other than M[i, j] with literal i, j in {0, 1}")
            return Dyn(f"{base.code}.{fld}")
        if isinstance(base, Env):
            if not isinstance(idx, str):
                bad(node, "environment subscript with a non-static key")
            self.note_read(base, idx)
            return Dyn(f"({base.code} {lean_str(idx)})")
        if isinstance(base, OpenDict):
            if not isinstance(idx, str):
                bad(node, "dict subscript with a non-static key")
            if idx in base.known:
                return base.known[idx]
            if base.rest is not None:
                self.note_read(base.rest, idx)
                return Dyn(f"({base.rest.code} {lean_str(idx)})")
            if getattr(base, "default_zero", False):
                return Dyn("Num.zero")
            bad(node, f"key {idx!r} absent from a dict without default")
        if isinstance(base, (str, tuple, list)) and isinstance(idx, int):
            try:
                return base[idx]
            except IndexError:
                bad(node, "static index out of range")
        bad(node, "subscript form")

    def ev_GeneratorExp(self, node, sc):
        if len(node.generators) != 1 or node.generators[0].ifs or not isinstance(node.generators[0].target, ast.Name):
            bad(node, "generator form")
        g = node.generators[0]
        it = self.ev(g.iter, sc)
        if not isinstance(it, (tuple, list)):
            bad(node, "generator over a non-static iterable")
        out = []
        for x in it:
            s2 = dict(sc)
            s2[g.target.id] = x
            out.append(self.ev(node.elt, s2))
        return out

    def ev_Lambda(self, node, sc):
        return ("lambda", node, sc)

    def note_read(self, env, key):
        if self.reads is not None:
            self.reads.add((env.code, key))

    def ev_Call(self, node, sc):
        f = self.ev(node.func, sc)
        args = [self.ev(a, sc) for a in node.args]
        kwargs = {k.arg: self.ev(k.value, sc) for k in node.keywords}
        if isinstance(f, tuple) and f[0] == "builtin":
            return self.call_builtin(node, f[1], args, kwargs, sc)
        if isinstance(f, tuple) and f[0] == "method":
            return self.call_method(node, f[1], f[2], args, kwargs)
        if isinstance(f, Translated):
            return self.call_translated(node, f, args, kwargs)
        if isinstance(f, PyFunc):
            return self.call_pyfunc(node, f, args, kwargs)
        bad(node, "call form")

    def call_builtin(self, node, name, args, kwargs, sc):
        un = {"torch.cos": "Num.cos", "torch.sin": "Num.sin", "torch.sqrt": "Num.sqrt",
              "math.cos": "Num.cos", "math.sin": "Num.sin", "math.sqrt": "Num.sqrt"}
        if name in un and len(args) == 1 and not kwargs:
            return Dyn(f"({un[name]} {to_dyn(args[0], node).code})")
        if name in ("torch.atan2", "torch.arctan2", "math.atan2") and len(args) == 2 and not kwargs:
            return Dyn(f"(Num.atan2 {to_dyn(args[0], node).code} {to_dyn(args[1], node).code})")
        if name == "torch.linalg.svd" and len(args) == 1 and isinstance(args[0], DynM) and not kwargs:
            if "svd" not in sc or not isinstance(sc["svd"], tuple) or sc["svd"][0] != "svdparam":
                bad(node, "svd outside a function translated with an abstract svd")
            c = f"(svd {args[0].code})"
            return (DynM(f"{c}.1"), DynV(f"{c}.2.1"), DynM(f"{c}.2.2"))
        if name == "torch.stack" and len(args) == 1 and kwargs.get("dim") == -1 and isinstance(args[0], DynList):
            return args[0]
        if name == "torch.abs" and len(args) == 1 and not kwargs:
            return Dyn(f"(Num.abs {to_dyn(args[0], node).code})")
        if name == "torch.remainder" and len(args) == 2 and not kwargs:
            return Dyn(f"(QuantemModel.Aberration.rem1 {to_dyn(args[0], node).code} {to_dyn(args[1], node).code})")
        if name == "torch.zeros_like" and len(args) == 1:
            return Dyn("Num.zero")
        if name == "torch.tensor" and len(args) == 1 and set(kwargs) <= {"device", "dtype"}:
            return args[0]
        if name == "torch.stack" and len(args) == 1 and kwargs.get("dim") == -1 and isinstance(args[0], list):
            return list(args[0])
        if name == "range" and all(isinstance(a, int) for a in args) and not kwargs:
            return tuple(range(*args))
        if name == "int" and len(args) == 1 and isinstance(args[0], (str, int)):
            try:
                return int(args[0])
            except ValueError:
                bad(node, "int() of a non-numeric static string")
        if name == "len" and len(args) == 1 and isinstance(args[0], (str, tuple, list)):
            return len(args[0])
        if name == "any" and len(args) == 1 and isinstance(args[0], list):
            xs = args[0]
            if xs and all(isinstance(x, Presence) for x in xs) and len({x.env.code for x in xs}) == 1:
                return Guard([x.key for x in xs])
            if all(isinstance(x, bool) for x in xs):
                return any(xs)
            bad(node, "any() form")
        if name == "defaultdict" and len(args) == 2 and isinstance(args[0], tuple) and args[0][0] == "lambda":
            _, lam, lsc = args[0]
            if lam.args.args:
                bad(node, "defaultdict factory with arguments")
            dflt = self.ev(lam.body, lsc)
            if not (is_num(dflt) and dflt == 0):
                bad(node, "defaultdict default other than 0")
            if isinstance(args[1], Env):
                return args[1]
            if isinstance(args[1], OpenDict):
                d = OpenDict(args[1].known, args[1].rest)
                d.default_zero = True
                return d
            bad(node, "defaultdict over a non-dict")
        bad(node, f"call to {name} outside the grammar")

    def call_method(self, node, base, attr, args, kwargs):
        if isinstance(base, Dyn) and attr == "square" and not args and not kwargs:
            return Dyn(f"({base.code} * {base.code})")
        if isinstance(base, Dyn) and attr == "item" and not args and not kwargs:
            return base
        if isinstance(base, (DynM, DynV)) and attr == "conj" and not args and not kwargs:
            return base                      # real matrices
        if isinstance(base, (DynM, DynV)) and attr == "to" and not args and set(kwargs) <= {"dtype"}:
            return base
        if isinstance(base, DynV) and attr == "diag" and not args and not kwargs:
            return DynM(f"(QuantemModel.Aberration.M2.diag {base.code})")
        if isinstance(base, DynList) and attr == "append" and len(args) == 1 and not base.opt:
            base.code = f"({base.code} ++ [{to_dyn(args[0], node).code}])"
            return None
        if isinstance(base, Env) and attr == "get" and len(args) in (1, 2) and not kwargs:
            if not isinstance(args[0], str):
                bad(node, ".get with a non-static key")
            d = args[1] if len(args) == 2 else None
            if not (is_num(d) and d == 0):
                bad(node, ".get default other than 0.0")
            self.note_read(base, args[0])
            return Dyn(f"({base.code} {lean_str(args[0])})")
        if isinstance(base, str) and attr == "split" and len(args) == 1 and isinstance(args[0], str):
            return base.split(args[0])
        if isinstance(base, str) and attr == "startswith" and len(args) == 1:
            return base.startswith(args[0])
        if isinstance(base, list) and attr == "append" and len(args) == 1:
            base.append(args[0])
            return None
        if isinstance(base, (Env,)) and attr == "items":
            return ("items", base)
        bad(node, f"method .{attr} outside the grammar")

    def call_pyfunc(self, node, f, args, kwargs):
        """inline interpretation of a Python function (local helpers, static helpers)"""
        sc = dict(f.closure)
        self.bind_params(node, f.node, args, kwargs, sc)
        try:
            self.exec_block(f.node.body, sc)
        except _Return as r:
            return r.v
        return None

    def bind_params(self, node, fn, args, kwargs, sc):
        a = fn.args
        if a.vararg or a.kwarg or a.kwonlyargs or a.posonlyargs:
            bad(fn, "parameter form")
        names = [x.arg for x in a.args]
        defaults = {n: d for n, d in zip(names[len(names) - len(a.defaults):], a.defaults)}
        for i, n in enumerate(names):
            if i < len(args):
                sc[n] = args[i]
            elif n in kwargs:
                sc[n] = kwargs[n]
            elif n in defaults:
                sc[n] = self.ev(defaults[n], {})
            else:
                bad(node, f"missing argument {n}")

    def call_translated(self, node, f, args, kwargs):
        if kwargs and not all(k in [p for p, _ in f.params] for k in kwargs):
            bad(node, "unknown keyword")
        vals = list(args) + [None] * (len(f.params) - len(args))
        for i, (p, _) in enumerate(f.params):
            if p in kwargs:
                vals[i] = kwargs[p]
        parts = []
        for (p, kind), v in zip(f.params, vals):
            if kind == "R":
                parts.append(to_dyn(v, node).code)
            else:
                parts.append(self.env_code(v, node))
        fname = f.name
        if self.guarded and self.has_guarded.get(f.name):
            fname = f.name + "_guarded"
            parts.append("present")
            self.used_guarded = True
        call = f"({fname} {' '.join(parts)})" if parts else fname
        if f.ret == "R":
            return Dyn(call)
        if f.ret[0] == "tuple":
            n = f.ret[1]
            assert n == 2
            return (Dyn(f"{call}.1"), Dyn(f"{call}.2"))
        if f.ret[0] == "dict":
            d = OpenDict({k: Dyn(f"(lookupD {call} {lean_str(k)})") for k in f.ret[1]})
            d.origin = call
            return d
        bad(node, "return shape of the callee")

    def env_code(self, v, node):
        if isinstance(v, Env):
            return v.code
        if isinstance(v, OpenDict):
            items = ", ".join(f"({lean_str(k)}, {e.code})" for k, e in v.known.items())
            rest = v.rest.code if v.rest is not None else "(fun _ => Num.zero)"
            return f"(envOf [{items}] {rest})"
        bad(node, "expected a coefficient dict")

    # -- statements ----------------------------------------------------------------------
    def exec_block(self, stmts, sc):
        for s in stmts:
            m = getattr(self, "ex_" + type(s).__name__, None)
            if m is None:
                bad(s, f"statement form {type(s).__name__} outside the grammar")
            m(s, sc)

    def ex_Expr(self, s, sc):
        if isinstance(s.value, ast.Constant) and isinstance(s.value.value, str):
            return  # docstring
        if isinstance(s.value, ast.Call):
            self.ev(s.value, sc)   # e.g. out.append(...)
            return
        bad(s, "expression statement")

    def ex_Pass(self, s, sc):
        pass

    def ex_FunctionDef(self, s, sc):
        sc[s.name] = PyFunc(s, sc)

    def ex_Return(self, s, sc):
        raise _Return(self.ev(s.value, sc) if s.value is not None else None)

    def ex_Continue(self, s, sc):
        raise _Continue()

    def ex_Raise(self, s, sc):
        bad(s, "a `raise` is reached while unrolling over the literal tables")

    def ex_Assign(self, s, sc):
        if len(s.targets) != 1:
            bad(s, "multiple assignment targets")
        self.assign(s.targets[0], self.ev(s.value, sc), sc, s)

    def assign(self, t, v, sc, s):
        if isinstance(t, ast.Name):
            sc[t.id] = v
        elif isinstance(t, ast.Subscript):
            base = self.ev(t.value, sc)
            k = self.ev(t.slice, sc)
            if not isinstance(base, OpenDict) or not isinstance(k, str):
                bad(s, "subscript store outside the grammar")
            base.known[k] = to_dyn(v, s)
            base.origin = None
        elif isinstance(t, ast.Tuple):
            if not isinstance(v, (tuple, list)):
                bad(s, "unpacking a non-sequence")
            v = list(v)
            star = [i for i, e in enumerate(t.elts) if isinstance(e, ast.Starred)]
            if not star:
                if len(v) != len(t.elts):
                    bad(s, "unpacking length")
                for e, x in zip(t.elts, v):
                    self.assign(e, x, sc, s)
            elif len(star) == 1:
                i = star[0]
                after = len(t.elts) - i - 1
                if len(v) < len(t.elts) - 1:
                    bad(s, "unpacking length")
                for e, x in zip(t.elts[:i], v[:i]):
                    self.assign(e, x, sc, s)
                self.assign(t.elts[i].value, v[i:len(v) - after], sc, s)
                for e, x in zip(t.elts[i + 1:], v[len(v) - after:]):
                    self.assign(e, x, sc, s)
            else:
                bad(s, "two starred targets")
        else:
            bad(s, "assignment target")

    def ex_For(self, s, sc):
        if s.orelse:
            bad(s, "for/else")
        it = self.ev(s.iter, sc)
        if isinstance(it, tuple) and it and it[0] == "items" and isinstance(it[1], Env):
            return self.merge_loop(s, it[1], sc)
        if isinstance(it, DynLabels):
            return self.label_loop(s, it, sc)
        if not isinstance(it, (tuple, list)):
            bad(s, "loop over a non-static iterable")
        for x in list(it):
            self.assign(s.target, x, sc, s)
            try:
                self.exec_block(s.body, sc)
            except _Continue:
                continue

    def label_loop(self, s, labels, sc):
        """`for label in <dynamic label list>:` whose only effect is appending to ONE list.
        The body is evaluated for every label of the literal universe with the list symbolic."""
        if not isinstance(s.target, ast.Name):
            bad(s, "label loop target")
        fname, params = self.cur
        lists = [n for n, v in sc.items() if isinstance(v, list) and all(isinstance(x, Dyn) for x in v) or isinstance(v, DynList)]
        if len(lists) != 1:
            bad(s, f"a loop over a dynamic label list must build exactly one list (found {lists})")
        var = lists[0]
        init = sc[var]
        if isinstance(init, list):
            init = DynList("([] : List R)" if not init else "[" + ", ".join(x.code for x in init) + "]")
        if init.opt:
            bad(s, "second dynamic loop over the same list")

        def snapshot(scope):
            out = {}
            for n, v in scope.items():
                if n == var:
                    continue
                out[n] = v.code if hasattr(v, "code") else (id(v) if isinstance(v, (PyFunc, OpenDict)) else repr(v))
            return out
        before = snapshot(sc)
        arms = []
        for lab in labels.universe:
            sc2 = dict(sc)
            cur = DynList(var)
            sc2[var] = cur
            sc2[s.target.id] = lab
            try:
                self.exec_block(s.body, sc2)
            except _Continue:
                pass
            if sc2[var] is not cur:
                bad(s, "the list is rebound inside the loop")
            after = snapshot({n: v for n, v in sc2.items() if n in sc})
            if after != before:
                ch = sorted(n for n in before if after.get(n) != before[n])
                bad(s, f"loop-carried variables {ch} in a loop over a dynamic label list")
            arms.append((lab, cur.code))
        step = f"{fname}_step"
        base_params = [(p, k) for p, k in params if k != "labels"]
        ps = " ".join(p for p, _ in base_params)
        body = "\n  ".join(f"{'if' if i == 0 else 'else if'} {s.target.id} = {lean_str(lab)} then some {code}" for i, (lab, code) in enumerate(arms))
        body += "\n  else none"
        sig = self.render_def(step, base_params, "Option (List R)", "@@").replace(f" : Option (List R) :=\n  @@\n", "")
        self.defs.append(f"{sig} ({var} : List R) ({s.target.id} : String) : Option (List R) :=\n  {body}\n")
        sc[var] = DynList(f"(List.foldlM (fun {var} {s.target.id} => {step} {ps} {var} {s.target.id}) {init.code} {labels.code})", opt=True)

    def merge_loop(self, s, env, sc):
        """for k, v in D.items(): if k in T: T[k] = T[k] + v else: T[k] = v"""
        if not (isinstance(s.target, ast.Tuple) and len(s.target.elts) == 2 and all(isinstance(e, ast.Name) for e in s.target.elts)):
            bad(s, "items() loop target")
        k, v = (e.id for e in s.target.elts)
        if len(s.body) != 1 or not isinstance(s.body[0], ast.If):
            bad(s, "items() loop body outside the merge pattern")
        i = s.body[0]
        test = ast.dump(i.test)
        if not (isinstance(i.test, ast.Compare) and len(i.test.ops) == 1 and isinstance(i.test.ops[0], ast.In)
                and isinstance(i.test.left, ast.Name) and i.test.left.id == k and isinstance(i.test.comparators[0], ast.Name)):
            bad(s, f"items() loop body outside the merge pattern ({test[:40]})")
        T = i.test.comparators[0].id
        want_then = ast.dump(ast.parse(f"{T}[{k}] = {T}[{k}] + {v}").body[0])
        want_else = ast.dump(ast.parse(f"{T}[{k}] = {v}").body[0])
        if not (len(i.body) == 1 and len(i.orelse) == 1 and ast.dump(i.body[0]) == want_then and ast.dump(i.orelse[0]) == want_else):
            bad(s, "items() loop body outside the merge pattern")
        d = sc.get(T)
        if not isinstance(d, OpenDict) or d.rest is not None:
            bad(s, "merge target is not a locally built dict")
        for key in list(d.known):
            d.known[key] = Dyn(f"({d.known[key].code} + ({env.code} {lean_str(key)}))")
        d.rest = env
        d.origin = None

    def ex_If(self, s, sc):
        t = self.ev(s.test, sc)
        if isinstance(t, Guard):
            return self.guard_block(s, t, sc)
        if isinstance(t, DynBool):
            return self.dyn_if(s, t, sc)
        if isinstance(t, (Dyn, Env, OpenDict, Presence)):
            bad(s, "branch on a tensor value")
        self.exec_block(s.body if t else s.orelse, sc)

    def dyn_if(self, s, cond, sc):
        """a branch on a tensor comparison: both arms are evaluated, re-assigned variables are merged"""
        arms = []
        for body in (s.body, s.orelse):
            sc2 = dict(sc)
            self.exec_block(body, sc2)
            arms.append(sc2)
        for n in sc:
            a, b = arms[0][n], arms[1][n]
            if a is sc[n] and b is sc[n]:
                continue
            if isinstance(a, Dyn) and isinstance(b, Dyn):
                sc[n] = Dyn(f"(if {cond.code} then {a.code} else {b.code})")
            elif isinstance(a, DynM) and isinstance(b, DynM):
                sc[n] = DynM(f"(if {cond.code} then {a.code} else {b.code})")
            else:
                bad(s, f"variable {n} re-assigned in a tensor branch to a value that cannot be merged")

    def guard_block(self, s, g, sc):
        if s.orelse:
            bad(s, "guard with else branch")
        fname, params = self.cur
        idx = len(self.guards) + 1
        self.guards.append(list(g.keys))
        base_params = [(p, k) for p, k in params if k != "pres"]
        for st in s.body:
            ok = (isinstance(st, ast.Assign) and len(st.targets) == 1 and isinstance(st.targets[0], ast.Name)
                  and isinstance(st.value, ast.BinOp) and isinstance(st.value.op, (ast.Add, ast.Sub))
                  and isinstance(st.value.left, ast.Name) and st.value.left.id == st.targets[0].id)
            if not ok:
                bad(st, "guarded statement is not an accumulation `x = x ± E`")
            x = st.targets[0].id
            old = to_dyn(sc[x], st)
            tname = f"{fname}_{x}_term{idx}"
            call = f"({tname} {' '.join(p for p, _ in base_params)})"
            sym = "+" if isinstance(st.value.op, ast.Add) else "-"
            if not self.guarded:
                e = to_dyn(self.ev(st.value.right, sc), st)
                self.defs.append(self.render_def(tname, params, "R", e.code))
                sc[x] = Dyn(f"({old.code} {sym} {call})")
            else:
                # faithful guard: the block is skipped unless one of the guard keys is present.  That skipping
                # loses nothing is NOT assumed here: it is the obligation `guards_transparent` in Props/C12.lean.
                keys = "[" + ", ".join(lean_str(k) for k in g.keys) + "]"
                self.used_guarded = True
                op = "guardAdd" if sym == "+" else "guardSub"
                sc[x] = Dyn(f"({op} (List.any {keys} present) {old.code} {call})")

    # -- top level -----------------------------------------------------------------------
    def render_def(self, name, params, ret, body):
        ty = {"R": "R", "env": "String → R", "pres": "String → Bool", "labels": "List String",
              "M": "QuantemModel.Aberration.M2 R",
              "svd": "QuantemModel.Aberration.M2 R → QuantemModel.Aberration.M2 R × (R × R) × QuantemModel.Aberration.M2 R"}
        ps = " ".join(f"({p} : {ty[k]})" for p, k in params)
        return f"def {name} {ps} : {ret} :=\n  {body}\n"

    def translate(self, name, kinds, bind=None, lean_name=None, universe=None):
        """kinds: param name -> "R" | "env" | "labels" | "M"; bind: param name -> static value (not a Lean parameter);
        in the guarded pass a presence predicate `present` is appended to the parameters"""
        fn = self.mod.funcs.get(name)
        if fn is None:
            raise Untranslatable(f"function {name} not found in {self.mod.rel}")
        lean_name = lean_name or name.lstrip("_")
        bind = bind or {}
        sc = {}
        params = []
        a = fn.args
        names = [x.arg for x in a.args]
        defaults = {n: d for n, d in zip(names[len(names) - len(a.defaults):], a.defaults)}
        uses_svd = any(isinstance(n, ast.Attribute) and n.attr == "svd" for n in ast.walk(fn))
        if uses_svd:
            params.append(("svd", "svd"))
            sc["svd"] = ("svdparam",)
        for n in names:
            if n in bind:
                sc[n] = bind[n]
            elif n in kinds:
                params.append((n, kinds[n]))
                sc[n] = {"R": Dyn, "env": Env, "M": DynM}.get(kinds[n], None)
                sc[n] = sc[n](n) if sc[n] else DynLabels(n, universe)
            elif n in defaults:
                sc[n] = self.ev(defaults[n], {})
            else:
                raise Untranslatable(f"{name}: parameter {n} has no role")
        if self.guarded:
            if sum(1 for _, k in params if k == "env") != 1:
                raise Untranslatable(f"{name}: guarded translation needs exactly one coefficient dict")
            params.append(("present", "pres"))
            lean_name = lean_name + "_guarded"
        self.cur = (lean_name if not self.guarded else lean_name[:-len("_guarded")], params)
        self.guards = []
        self.used_guarded = False
        try:
            self.exec_block(fn.body, sc)
            raise Untranslatable(f"{name}: no return reached")
        except _Return as r:
            v = r.v
        if self.guarded and not self.used_guarded:
            return None            # nothing guarded in or below this function: no second definition
        if self.guards and not self.guarded:
            gl = ", ".join("[" + ", ".join(lean_str(k) for k in g) + "]" for g in self.guards)
            self.defs.append(f"def {lean_name}_guards : List (List String) :=\n  [{gl}]\n")
        if isinstance(v, Dyn):
            ret, lean_ret, body = "R", "R", v.code
        elif isinstance(v, tuple) and len(v) == 2 and all(isinstance(x, Dyn) for x in v):
            ret, lean_ret, body = ("tuple", 2), "R × R", f"({v[0].code}, {v[1].code})"
        elif isinstance(v, tuple) and len(v) == 2 and all(isinstance(x, DynM) for x in v):
            ret, lean_ret = ("mtuple", 2), "QuantemModel.Aberration.M2 R × QuantemModel.Aberration.M2 R"
            body = f"({v[0].code}, {v[1].code})"
        elif isinstance(v, OpenDict) and v.rest is None:
            ret, lean_ret = ("dict", list(v.known)), "List (String × R)"
            body = "[" + ",\n   ".join(f"({lean_str(k)}, {e.code})" for k, e in v.known.items()) + "]"
            if v.origin is not None:
                body = v.origin
        elif isinstance(v, list) and all(isinstance(x, Dyn) for x in v):
            ret, lean_ret = ("list", len(v)), "List R"
            body = "[" + ",\n   ".join(e.code for e in v) + "]"
        elif isinstance(v, DynList) and v.opt:
            ret, lean_ret, body = ("optlist",), "Option (List R)", v.code
        else:
            raise Untranslatable(f"{name}: return value shape outside the grammar")
        self.defs.append(self.render_def(lean_name, params, lean_ret, body))
        if self.guarded:
            self.has_guarded[name] = True
        elif lean_name == name.lstrip("_"):
            self.translated[name] = Translated(lean_name, params, ret)
        return ret


FIT_PREFIX = [
    "device = shifts_ang.device",
    "kxa, kya = spatial_frequencies(gpts, sampling, device=device)",
    "kvec = torch.dstack((kxa[bf_mask], kya[bf_mask])).view((-1, 2))",
    "basis = kvec * wavelength",
    "M = torch.linalg.lstsq(basis.cpu(), shifts_ang.cpu(), rcond=None)[0]",
    "M_rotation, M_aberration = _torch_polar(M)",
]


def translate_fit_tail(it, name="fit_aberrations_from_shifts", lean_name="fit_aberrations_from_shifts_extract"):
    """everything after `M_rotation, M_aberration = _torch_polar(M)`; the plumbing before it must match FIT_PREFIX"""
    fn = it.mod.funcs.get(name)
    if fn is None:
        raise Untranslatable(f"function {name} not found in {it.mod.rel}")
    body = [st for st in fn.body if not (isinstance(st, ast.Expr) and isinstance(st.value, ast.Constant))]
    n = len(FIT_PREFIX)
    want = [ast.dump(ast.parse(line).body[0]) for line in FIT_PREFIX]
    got = [ast.dump(st) for st in body[:n]]
    if got != want:
        k = next((i for i, (a, b) in enumerate(zip(got, want)) if a != b), min(len(got), len(want)))
        raise Untranslatable(f"{name}: the plumbing before the extraction no longer matches the template at statement {k + 1}: "
                             f"{ast.unparse(body[k]) if k < len(body) else '<missing>'!r} (expected {FIT_PREFIX[k]!r})")
    params = [("M_rotation", "M"), ("M_aberration", "M")]
    sc = {"M_rotation": DynM("M_rotation"), "M_aberration": DynM("M_aberration")}
    it.cur = (lean_name, params)
    it.guards = []
    try:
        it.exec_block(body[n:], sc)
        raise Untranslatable(f"{name}: no return reached")
    except _Return as r:
        v = r.v
    if not (isinstance(v, OpenDict) and v.rest is None and v.known):
        raise Untranslatable(f"{name}: does not return a dict literal")
    text = "[" + ",\n   ".join(f"({lean_str(k)}, {e.code})" for k, e in v.known.items()) + "]"
    it.defs.append(it.render_def(lean_name, params, "List (String × R)", text))
    return list(v.known)


# ----------------------------------------------------------------------------------------
# alias loop bodies: `for key, val in <dict>.items(): <body>` evaluated for every key of the finite key universe
# (all symbols and aliases) plus one sentinel standing for any other key, and for val = None / val = a number

class KeyStr(str):
    """the loop key: may only be compared (==, in) with literal tables, looked up in them, or used as a dict key"""


class SymOut:
    def __init__(self, code):
        self.code = code


class TypedDyn:
    """the loop value as a number in the caller's type (Lean `TVal R`): only `float(v)`, `-v` and `v is None`
    are in the grammar, so the ORDER of conversion and negation is translated (`-float(v)` vs `float(-v)`)"""
    def __init__(self, code):
        self.code = code


class _PyRaise(Exception):
    def __init__(self, name):
        self.name = name


SENTINEL = "\x00other-key"
ERRS = {"KeyError": "keyError", "ValueError": "valueError", "TypeError": "typeError"}


class AliasInterp(Interp):
    def __init__(self, mod, consts):
        super().__init__(mod)
        self.consts = consts

    def ev_Name(self, node, sc):
        if node.id in sc:
            return sc[node.id]
        if node.id in self.consts:
            return self.consts[node.id]
        if node.id in ("float", "isinstance", "dict"):
            return ("builtin", node.id)
        bad(node, "unknown name in an alias loop body")

    def ev_Compare(self, node, sc):
        if len(node.ops) == 1 and isinstance(node.ops[0], (ast.Is, ast.IsNot)):
            a, b = self.ev(node.left, sc), self.ev(node.comparators[0], sc)
            if isinstance(a, (Dyn, TypedDyn)) and b is None:
                return isinstance(node.ops[0], ast.IsNot)
        return super().ev_Compare(node, sc)

    def ev_UnaryOp(self, node, sc):
        if isinstance(node.op, ast.USub):
            v = self.ev(node.operand, sc)
            if isinstance(v, TypedDyn):
                return TypedDyn(f"(QuantemModel.Aberration.TVal.neg {v.code})")
            if is_num(v):
                return -v
            return Dyn(f"(-{to_dyn(v, node).code})")
        return super().ev_UnaryOp(node, sc)

    def ev_BinOp(self, node, sc):
        a, b = self.ev(node.left, sc), self.ev(node.right, sc)
        if isinstance(a, TypedDyn) or isinstance(b, TypedDyn):
            bad(node, "arithmetic on the loop value before float() (only `-value` is in the grammar)")
        return super().ev_BinOp(node, sc)

    def call_builtin(self, node, name, args, kwargs, sc):
        if name == "float" and len(args) == 1 and not kwargs:
            if args[0] is None:
                raise _PyRaise("TypeError")
            if isinstance(args[0], TypedDyn):
                return Dyn(f"(QuantemModel.Aberration.TVal.toFloat {args[0].code})")
            return to_dyn(args[0], node)
        if name == "isinstance" and len(args) == 2 and args[1] == ("builtin", "dict"):
            return False        # the loop value is None or a number here; dict values are handled by the caller's recursion
        return super().call_builtin(node, name, args, kwargs, sc)

    def call_method(self, node, base, attr, args, kwargs):
        if isinstance(base, KeyStr):
            bad(node, "string operation on the loop key (only ==, `in`, table lookups are in the grammar)")
        if isinstance(base, dict) and attr == "get" and 1 <= len(args) <= 2 and not kwargs:
            return base.get(*args)
        return super().call_method(node, base, attr, args, kwargs)

    def ev_Subscript(self, node, sc):
        base = self.ev(node.value, sc)
        if isinstance(base, dict):
            idx = self.ev(node.slice, sc)
            if idx not in base:
                raise _PyRaise("KeyError")
            return base[idx]
        if isinstance(base, KeyStr):
            bad(node, "indexing the loop key")
        return super().ev_Subscript(node, sc)

    def ex_Raise(self, s, sc):
        exc = s.exc.func if isinstance(s.exc, ast.Call) else s.exc
        if not isinstance(exc, ast.Name) or exc.id not in ERRS:
            bad(s, "raise of an exception class outside KeyError/ValueError/TypeError")
        raise _PyRaise(exc.id)

    def assign(self, t, v, sc, s):
        if isinstance(t, ast.Subscript):
            base = self.ev(t.value, sc)
            if isinstance(base, SymOut):
                k = self.ev(t.slice, sc)
                if not isinstance(k, str):
                    bad(s, "store under a non-string key")
                kcode = "key" if k == SENTINEL else lean_str(k)
                base.code = f"(QuantemModel.Aberration.dset {base.code} {kcode} {to_dyn(v, s).code})"
                return
        return super().assign(t, v, sc, s)


def find_items_loop(root):
    for n in ast.walk(root):
        if (isinstance(n, ast.For) and isinstance(n.iter, ast.Call) and isinstance(n.iter.func, ast.Attribute)
                and n.iter.func.attr == "items" and isinstance(n.target, ast.Tuple) and len(n.target.elts) == 2
                and all(isinstance(e, ast.Name) for e in n.target.elts)):
            return n
    return None


def translate_alias_step(mod, root, consts, universe, lean_name, what):
    loop = find_items_loop(root)
    if loop is None:
        raise Untranslatable(f"{what}: no `for key, value in <dict>.items()` loop found")
    kname, vname = (e.id for e in loop.target.elts)
    stores = sorted({n.value.id for n in ast.walk(loop) if isinstance(n, ast.Subscript) and isinstance(n.ctx, ast.Store)
                     and isinstance(n.value, ast.Name)})
    if len(stores) != 1:
        raise Untranslatable(f"{what}: the loop body must write exactly one dict (found {stores})")
    outname = stores[0]
    appended = sorted({n.func.value.id for n in ast.walk(loop) if isinstance(n, ast.Call) and isinstance(n.func, ast.Attribute)
                       and n.func.attr == "append" and isinstance(n.func.value, ast.Name)})

    def arm(key, val):
        it = AliasInterp(mod, consts)
        out = SymOut("out")
        sc = {kname: KeyStr(key), vname: val, outname: out}
        for a in appended:
            sc[a] = []
        it.cur = (lean_name, [])
        try:
            it.exec_block(loop.body, sc)
        except _Continue:
            pass
        except _PyRaise as e:
            return f"(.error QuantemModel.Aberration.Err.{ERRS[e.name]})"
        return f"(.ok {out.code})"

    lines = []
    for i, key in enumerate(list(universe) + [SENTINEL]):
        a_none, a_some = arm(key, None), arm(key, TypedDyn("v"))
        body = f"(match val with | none => {a_none} | some v => {a_some})"
        if key == SENTINEL:
            lines.append(f"else {body}")
        else:
            lines.append(f"{'if' if i == 0 else 'else if'} key = {lean_str(key)} then {body}")
    return (f"/-- {what}: one iteration of the `for {kname}, {vname} in ….items()` loop (value `none` = Python `None`, otherwise a number in the caller's type) -/\n"
            f"def {lean_name} (out : List (String × R)) (key : String) (val : Option (QuantemModel.Aberration.TVal R)) : "
            f"Except QuantemModel.Aberration.Err (List (String × R)) :=\n  " + "\n  ".join(lines) + "\n")


def local_literals(fn, names):
    out = {}
    for n in ast.walk(fn):
        if isinstance(n, ast.Assign) and len(n.targets) == 1 and isinstance(n.targets[0], ast.Name) and n.targets[0].id in names:
            out[n.targets[0].id] = ast.literal_eval(n.value)
    return out


def str_list(xs):
    return "[" + ", ".join(lean_str(x) for x in xs) + "]"


def pair_list(d):
    return "[" + ", ".join(f"({lean_str(k)}, {lean_str(v)})" for k, v in d.items()) + "]"


PRELUDE = '''import QuantemModel.Core.Num
import QuantemModel.Model.AberrationBase
/-!
GENERATED by harness/translator/aberr2lean.py from the function bodies in
  src/quantem/diffractive_imaging/complex_probe.py, src/quantem/core/utils/validators.py,
  src/quantem/diffractive_imaging/direct_ptycho_utils.py, src/quantem/diffractive_imaging/probe_models.py
— regenerated on every `./check C12`; do not edit by hand.
Coefficient dicts are environments `String → R` (absent key = 0).  `if any(k in coefs …)` guards
are emitted unguarded (each guarded increment is its own definition `…_term<i>`, the guard key lists
are `…_guards`) AND faithfully as `…_guarded` with a presence predicate; `guards_transparent` in
Props/C12.lean proves the two agree whenever absent keys read 0.  2×2 matrices: Model/AberrationBase.lean.
-/
set_option linter.unusedVariables false
namespace QuantemModel.Generated.Aberration
open QuantemModel

variable {R : Type} [Num R]

/-- `x ** n` for a literal natural exponent -/
def npow (x : R) : Nat → R
  | 0 => Num.one
  | n + 1 => npow x n * x

/-- value stored under key `k` in an insertion-ordered dict (0 if absent) -/
def lookupD : List (String × R) → String → R
  | [], _ => Num.zero
  | (a, v) :: rest, k => if k = a then v else lookupD rest k

/-- `if g: x = x + t` -/
def guardAdd (g : Bool) (x t : R) : R := if g then x + t else x

/-- `if g: x = x - t` -/
def guardSub (g : Bool) (x t : R) : R := if g then x - t else x

/-- a locally built dict on top of a rest environment, read with default 0 -/
def envOf : List (String × R) → (String → R) → String → R
  | [], d, k => d k
  | (a, v) :: rest, d, k => if k = a then v else envOf rest d k

'''


BASELINE_PATH = os.path.join(HERE, "aberr_baseline.json")
NOTES = []          # filled by generate(): units whose text is NOT a translation of the current source
INFO = []           # informational: units where the tracer gave up and the syntactic translator took over
RECORD = {}         # unit -> what was emitted (written to BASELINE_PATH by `--write-baseline` on the clean tree)


def _tup(r):
    return tuple(r) if isinstance(r, list) else r


def load_baseline():
    try:
        with open(BASELINE_PATH) as f:
            return json.load(f)
    except Exception:  # noqa
        return {}


def unit(it, key, fn, baseline):
    """run one translation unit; if the source left the grammar (or the interpreter trips) fall back, FOR THIS UNIT
    ONLY, to the text last generated from the reference tree and say so in NOTES.  The fallback text is still executed
    by the driver and compared with the real code by the correspondence streams; what is lost is only that the
    theorems are re-checked against the CURRENT text of that unit (the note lands in the evidence)."""
    n0, t0, g0 = len(it.defs), dict(it.translated), dict(it.has_guarded)
    try:
        r = fn()
        RECORD[key] = {"defs": list(it.defs[n0:]), "ret": r,
                       "translated": {k: [v.name, [list(p) for p in v.params], v.ret] for k, v in it.translated.items() if k not in t0},
                       "has_guarded": [k for k in it.has_guarded if k not in g0]}
        return r
    except Exception as e:  # noqa
        del it.defs[n0:]
        it.translated, it.has_guarded = t0, g0
        b = baseline.get(key)
        if b is None:
            raise
        it.defs.extend(b["defs"])
        for k, (nm, params, ret) in b["translated"].items():
            it.translated[k] = Translated(nm, [tuple(p) for p in params], _tup(ret))
        for k in b["has_guarded"]:
            it.has_guarded[k] = True
        NOTES.append({"unit": key, "kept": "text of the reference tree", "why": f"{type(e).__name__}: {e}"[:300]})
        RECORD[key] = b
        return _tup(b["ret"])


def text_unit(key, fn, baseline):
    """same for a unit that is one piece of text"""
    try:
        t = fn()
        RECORD[key] = {"text": t}
        return t
    except Exception as e:  # noqa
        b = baseline.get(key)
        if b is None:
            raise
        NOTES.append({"unit": key, "kept": "text of the reference tree", "why": f"{type(e).__name__}: {e}"[:300]})
        RECORD[key] = b
        return b["text"]


def generate():
    """returns the Lean source text (raises Untranslatable only if a unit left the grammar AND has no reference text)"""
    del NOTES[:]
    del INFO[:]
    RECORD.clear()
    baseline = load_baseline()
    cp = Module(CP)
    val = Module(VAL)
    dpu = Module(DPU)
    pm = Module(PM)
    out = [PRELUDE]
    # ---- literal tables
    for need in ("POLAR_SYMBOLS", "POLAR_ALIASES"):
        if need not in cp.consts:
            raise Untranslatable(f"{need} is not a literal in {CP}")
    if "validate_aberration_coefficients" not in val.funcs:
        raise Untranslatable("validate_aberration_coefficients not found")
    vl = local_literals(val.funcs["validate_aberration_coefficients"], ("POLAR_SYMBOLS", "POLAR_ALIASES"))
    if set(vl) != {"POLAR_SYMBOLS", "POLAR_ALIASES"}:
        raise Untranslatable("validators.py: local POLAR_SYMBOLS / POLAR_ALIASES literals not found")
    presets = dpu.consts.get("ABERRATION_PRESETS")
    if not isinstance(presets, dict) or "all" not in presets:
        raise Untranslatable("ABERRATION_PRESETS['all'] is not a literal")
    dflt = None
    for n in pm.tree.body:
        if isinstance(n, ast.ClassDef) and n.name == "ProbeBase":
            dflt = local_literals(n, ("DEFAULT_PROBE_PARAMS",)).get("DEFAULT_PROBE_PARAMS")
    if not isinstance(dflt, dict):
        raise Untranslatable("ProbeBase.DEFAULT_PROBE_PARAMS is not a literal")
    out.append("/-- complex_probe.POLAR_SYMBOLS -/\n" f"def POLAR_SYMBOLS : List String :=\n  {str_list(cp.consts['POLAR_SYMBOLS'])}\n")
    out.append("/-- complex_probe.POLAR_ALIASES -/\n" f"def POLAR_ALIASES : List (String × String) :=\n  {pair_list(cp.consts['POLAR_ALIASES'])}\n")
    out.append("/-- validators.validate_aberration_coefficients: local copy -/\n" f"def VALIDATORS_POLAR_SYMBOLS : List String :=\n  {str_list(vl['POLAR_SYMBOLS'])}\n")
    out.append("/-- validators.validate_aberration_coefficients: local copy -/\n" f"def VALIDATORS_POLAR_ALIASES : List (String × String) :=\n  {pair_list(vl['POLAR_ALIASES'])}\n")
    out.append("/-- direct_ptycho_utils.ABERRATION_PRESETS -/\n" "def ABERRATION_PRESETS : List (String × List String) :=\n  ["
               + ",\n   ".join(f"({lean_str(k)}, {str_list(v)})" for k, v in presets.items()) + "]\n")
    out.append("/-- probe_models.ProbeBase.DEFAULT_PROBE_PARAMS keys -/\n" f"def DEFAULT_PROBE_PARAM_KEYS : List String :=\n  {str_list(list(dflt))}\n")
    labels = list(presets["all"])
    out.append("/-- the label table the Cartesian-basis loop is unrolled over (ABERRATION_PRESETS[\"all\"]) -/\n"
               f"def CARTESIAN_LABELS : List String :=\n  {str_list(labels)}\n")
    # ---- formula code
    it = Interp(cp)
    K3 = {"alpha": "R", "phi": "R", "wavelength": "R", "aberration_coefs": "env"}
    K2 = {"alpha": "R", "phi": "R", "aberration_coefs": "env"}
    # the two guarded series are TRACED (the real functions executed on symbols, harness/translator/aberr_trace.py);
    # the syntactic translation is the fallback, the reference text the fallback of the fallback
    traced = {}

    def traced_unit(name, argn, kinds, outputs):
        try:
            from . import aberr_trace as at
        except ImportError:      # run as a script
            import aberr_trace as at
        tymap = {"R": "R", "env": "String → R"}
        params = [(n, tymap[k]) for n, k in kinds.items()]
        try:
            mod = at.load_module(CP)
            groups, terms = at.trace_guarded_sum(mod, name, argn, list(cp.consts["POLAR_SYMBOLS"]), len(outputs))
            defs, gdef = at.emit_guarded_sum(name, params, outputs, groups, terms)
        except at.TraceError as e:
            INFO.append({"unit": name, "tracer": f"{e}"[:300], "using": "syntactic translator"})
            return it.translate(name, kinds)
        it.defs.extend(defs)
        traced[name] = gdef
        ret = "R" if len(outputs) == 1 else ("tuple", len(outputs))
        it.translated[name] = Translated(name, [(n, k) for n, k in kinds.items()], ret)
        return ret
    unit(it, "aberration_surface",
         lambda: traced_unit("aberration_surface", ["alpha", "phi", "wavelength", "coefs"], K3, ["chi"]), baseline)
    unit(it, "aberration_surface_polar_gradients",
         lambda: traced_unit("aberration_surface_polar_gradients", ["alpha", "phi", "coefs"], K2, ["dchi_dk", "dchi_dphi"]), baseline)
    unit(it, "aberration_surface_cartesian_gradients", lambda: it.translate("aberration_surface_cartesian_gradients", K2), baseline)

    def basis_static():
        r = it.translate("aberration_surface_cartesian_basis", {"alpha": "R", "phi": "R", "wavelength": "R"},
                         bind={"cartesian_basis": labels})
        if r != ("list", len(labels)):
            raise Untranslatable("aberration_surface_cartesian_basis does not return one column per label")
        return r

    def basis_dynamic():
        r = it.translate("aberration_surface_cartesian_basis", {"alpha": "R", "phi": "R", "wavelength": "R", "cartesian_basis": "labels"},
                         lean_name="aberration_surface_cartesian_basis_list", universe=labels)
        if r != ("optlist",):
            raise Untranslatable("aberration_surface_cartesian_basis over a dynamic label list does not return the built list")
        return r
    unit(it, "aberration_surface_cartesian_basis", basis_static, baseline)
    unit(it, "aberration_surface_cartesian_basis_list", basis_dynamic, baseline)
    # second pass: the same functions with their guards kept
    for fn_name, kinds in (("aberration_surface", K3), ("aberration_surface_polar_gradients", K2),
                           ("aberration_surface_cartesian_gradients", K2)):
        def guarded(fn_name=fn_name, kinds=kinds):
            if fn_name in traced:
                it.defs.append(traced[fn_name])
                it.has_guarded[fn_name] = True
                return "traced"
            it.guarded = True
            try:
                return it.translate(fn_name, kinds)
            finally:
                it.guarded = False
        unit(it, fn_name + ":guarded", guarded, baseline)

    def pair(name, kinds):
        if it.translate(name, kinds) != ("tuple", 2):
            raise Untranslatable(f"{name} does not return a pair")
        return ("tuple", 2)
    unit(it, "_passively_rotate_grid", lambda: pair("_passively_rotate_grid", {"kxa": "R", "kya": "R", "rotation_angle": "R"}), baseline)
    unit(it, "polar_coordinates", lambda: pair("polar_coordinates", {"kx": "R", "ky": "R"}), baseline)
    r1 = unit(it, "polar_to_cartesian_aberrations", lambda: it.translate("polar_to_cartesian_aberrations", {"polar": "env"}), baseline)
    r2 = unit(it, "cartesian_to_polar_aberrations", lambda: it.translate("cartesian_to_polar_aberrations", {"cart": "env"}), baseline)
    unit(it, "merge_aberration_coefficients",
         lambda: it.translate("merge_aberration_coefficients", {"init_coefs_polar": "env", "delta_coefs_cartesian": "env"}), baseline)
    out.extend(it.defs)
    # ---- direct_ptycho_utils._torch_polar (2×2, abstract svd)
    it2 = Interp(dpu)

    def tpolar():
        if it2.translate("_torch_polar", {"m": "M"}) != ("mtuple", 2):
            raise Untranslatable("_torch_polar does not return a pair of matrices")
        return ("mtuple", 2)
    unit(it2, "_torch_polar", tpolar, baseline)
    fit_keys = unit(it2, "fit_aberrations_from_shifts_extract", lambda: translate_fit_tail(it2), baseline)
    out.extend(it2.defs)
    out.append(f"/-- keys of the dict returned by fit_aberrations_from_shifts, in order -/\ndef FIT_RESULT_KEYS : List String :=\n  {str_list(fit_keys)}\n")
    # ---- alias loop bodies (three implementations)
    universe = list(dict.fromkeys(list(cp.consts["POLAR_SYMBOLS"]) + list(cp.consts["POLAR_ALIASES"])
                                  + list(vl["POLAR_SYMBOLS"]) + list(vl["POLAR_ALIASES"])))
    out.append("/-- the finite key universe the alias loop bodies were evaluated on (any other key takes the last arm) -/\n"
               f"def ALIAS_KEY_UNIVERSE : List String :=\n  {str_list(universe)}\n")
    cpc = {"POLAR_SYMBOLS": cp.consts["POLAR_SYMBOLS"], "POLAR_ALIASES": cp.consts["POLAR_ALIASES"]}
    def std_step():
        if "standardize_aberration_coefs" not in cp.funcs:
            raise Untranslatable("standardize_aberration_coefs not found")
        return translate_alias_step(cp, cp.funcs["standardize_aberration_coefs"], cpc, universe,
                                    "standardize_aberration_coefs_step", "complex_probe.standardize_aberration_coefs")
    out.append(text_unit("standardize_aberration_coefs_step", std_step, baseline))
    out.append(text_unit("validate_aberration_coefficients_step",
                         lambda: translate_alias_step(val, val.funcs["validate_aberration_coefficients"], vl, universe,
                                                      "validate_aberration_coefficients_step", "validators.validate_aberration_coefficients"),
                         baseline))
    setter = None
    for n in pm.tree.body:
        if isinstance(n, ast.ClassDef) and n.name == "ProbeBase":
            for f in n.body:
                if isinstance(f, ast.FunctionDef) and f.name == "probe_params" and any(
                        isinstance(d, ast.Attribute) and d.attr == "setter" for d in f.decorator_list):
                    setter = f
    def setter_step():
        if setter is None:
            raise Untranslatable("ProbeBase.probe_params setter not found")
        imported = set()
        for n in ast.walk(pm.tree):
            if isinstance(n, ast.ImportFrom) and n.module and n.module.endswith("complex_probe"):
                imported |= {a.name for a in n.names}
        if not {"POLAR_SYMBOLS", "POLAR_ALIASES"} <= imported:
            raise Untranslatable("probe_models.py no longer imports POLAR_SYMBOLS / POLAR_ALIASES from complex_probe")
        return translate_alias_step(pm, setter, cpc, universe, "probe_params_setter_step", "ProbeBase.probe_params setter")
    out.append(text_unit("probe_params_setter_step", setter_step, baseline))
    out.append(f"/-- keys written by polar_to_cartesian_aberrations, in order -/\ndef POLAR_TO_CARTESIAN_KEYS : List String :=\n  {str_list(r1[1])}\n")
    out.append(f"/-- keys written by cartesian_to_polar_aberrations, in order -/\ndef CARTESIAN_TO_POLAR_KEYS : List String :=\n  {str_list(r2[1])}\n")
    names = [d.split()[1] for d in it.defs if d.startswith("def ") and not d.split()[1].endswith("_guards")
             and not d.split()[1].endswith("_guarded") and not d.split()[1].endswith("_step") and not d.split()[1].endswith("_list")]
    out.append("/-- unfolds every generated formula definition (used by the proofs so that they do not depend on\nhow many guarded blocks the source has) -/\n"
               "macro \"aberr_unfold\" : tactic =>\n  `(tactic| simp only [" + ", ".join(names) + "])\n")
    out.append("end QuantemModel.Generated.Aberration\n")
    return "\n".join(out)


def regenerate(path=OUT):
    """write Generated/Aberration.lean if its content changed; returns (changed, text)"""
    text = generate()
    old = open(path).read() if os.path.exists(path) else None
    if old != text:
        os.makedirs(os.path.dirname(path), exist_ok=True)
        with open(path + ".tmp", "w") as f:
            f.write(text)
        os.replace(path + ".tmp", path)
    return old != text, text


if __name__ == "__main__":
    import sys
    if len(sys.argv) > 1 and sys.argv[1] == "--print":
        print(generate())
    elif len(sys.argv) > 1 and sys.argv[1] == "--write-baseline":
        # run on the reference tree only: every unit must translate
        if os.path.exists(BASELINE_PATH):
            os.rename(BASELINE_PATH, BASELINE_PATH + ".old")
        generate()
        assert not NOTES, NOTES
        with open(BASELINE_PATH, "w") as f:
            json.dump(RECORD, f, indent=0, sort_keys=True)
        print("baseline written:", sorted(RECORD))
    else:
        ch, _ = regenerate()
        print("regenerated" if ch else "unchanged", OUT)
