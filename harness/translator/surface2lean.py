"""surface2lean — regenerate lean/QuantemModel/Generated/OriginSurface.lean from the surface families
`_plane`, `_parabola`, `_bezier_two` that `fit_origin` hands to `curve_fit`
(quantem/diffractive_imaging/ptycho_utils.py, property C18).

Python `ast` -> Lean, each function written once over `[Num R]` (Core/Num.lean):

    def _f(xy, p1, …, pk):            def f {R} [Num R] (xy : R × R) (p1 … pk : R) : R :=
        t = <expr>                      let t := <expr>
        …                               …
        return <expr>                   <expr>

Grammar of a body: any number of assignments `name = <expr>` / `a, b = <expr>, <expr>` / `x, y = xy`
(temporaries; a name may be re-assigned), an optional docstring, and one final `return <expr>`.  Expressions: parameter / temporary
names, `xy[0]`, `xy[1]` (constant subscripts of the FIRST parameter), int / float literals, unary `-`/`+`,
binary `+ - * /`, `<expr> ** n` with an integer literal 0 <= n <= 8 (written out as a product),
`np.square(<expr>)`, parentheses.  Local names are kept as they are (renaming them changes nothing in the
tie theorems, which quantify over the arguments positionally); the ORDER and NUMBER of parameters is part of
the interface `curve_fit` uses and is checked against EXPECTED.  Anything else raises `TranslationError`,
which the runner records as a broken tie (the previous file stays in place).

The source is read from `$QVERIF_REPO/src` (default /repo/src).  Output is deterministic.
"""
from __future__ import annotations

import ast
import os
from fractions import Fraction

REL_SOURCE = "quantem/diffractive_imaging/ptycho_utils.py"
HERE = os.path.dirname(os.path.abspath(__file__))
OUT_PATH = os.path.normpath(os.path.join(HERE, "..", "..", "lean", "QuantemModel", "Generated", "OriginSurface.lean"))

# function -> (Lean name, number of surface parameters after `xy`)
EXPECTED = {"_plane": ("plane", 3), "_parabola": ("parabola", 6), "_bezier_two": ("bezierTwo", 9)}
LEAN_KEYWORDS = {"fun", "let", "in", "if", "then", "else", "do", "at", "from", "have", "show", "by", "match", "with", "end", "open", "def", "theorem", "where", "R"}


class TranslationError(Exception):
    pass


def source_path() -> str:
    return os.path.join(os.environ.get("QVERIF_REPO", "/repo"), "src", REL_SOURCE)


def _lit(value) -> str:
    if isinstance(value, bool) or not isinstance(value, (int, float)):
        raise TranslationError(f"unsupported literal {value!r}")
    if isinstance(value, float) and (value != value or value in (float("inf"), float("-inf"))):
        raise TranslationError("non-finite literal")
    q = Fraction(repr(value)) if isinstance(value, float) else Fraction(value)
    if abs(q.numerator) >= 2 ** 53 or q.denominator >= 2 ** 53:
        raise TranslationError(f"literal {value!r} not exactly convertible")
    if q.denominator == 1:
        return f"(Num.ofRat {q.numerator})" if q >= 0 else f"(Num.ofRat ({q.numerator}))"
    return f"(Num.ofRat ({q.numerator} / {q.denominator}))" if q >= 0 else f"(Num.ofRat (({q.numerator}) / {q.denominator}))"


def _ident(name: str) -> str:
    if not name.isidentifier() or not name.isascii():
        raise TranslationError(f"unsupported identifier {name!r}")
    return name + "'" if name in LEAN_KEYWORDS else name


class _Fn:
    def __init__(self, node: ast.FunctionDef):
        self.node = node
        a = node.args
        if a.vararg or a.kwarg or a.kwonlyargs or a.posonlyargs or a.defaults or a.kw_defaults:
            raise TranslationError(f"{node.name}: only plain positional parameters are supported")
        self.params = [x.arg for x in a.args]
        if len(self.params) < 2:
            raise TranslationError(f"{node.name}: expected (xy, parameters…)")
        self.xy = self.params[0]
        self.known = set(self.params[1:])

    def expr(self, e) -> str:
        if isinstance(e, ast.Constant):
            return _lit(e.value)
        if isinstance(e, ast.Name):
            if e.id == self.xy:
                raise TranslationError(f"{self.node.name} line {e.lineno}: `{self.xy}` used without a constant subscript")
            if e.id not in self.known:
                raise TranslationError(f"{self.node.name} line {e.lineno}: unknown name {e.id!r}")
            return _ident(e.id)
        if isinstance(e, ast.Subscript):
            if isinstance(e.value, ast.Name) and e.value.id == self.xy and isinstance(e.slice, ast.Constant) and e.slice.value in (0, 1) \
                    and not isinstance(e.slice.value, bool):
                return f"{_ident(self.xy)}.{e.slice.value + 1}"
            raise TranslationError(f"{self.node.name} line {e.lineno}: only {self.xy}[0] / {self.xy}[1] may be subscripted")
        if isinstance(e, ast.UnaryOp):
            if isinstance(e.op, ast.USub):
                return f"(-{self.expr(e.operand)})"
            if isinstance(e.op, ast.UAdd):
                return self.expr(e.operand)
            raise TranslationError(f"{self.node.name} line {e.lineno}: unsupported unary operator")
        if isinstance(e, ast.BinOp):
            if isinstance(e.op, ast.Pow):
                if not (isinstance(e.right, ast.Constant) and isinstance(e.right.value, int) and not isinstance(e.right.value, bool) and 0 <= e.right.value <= 8):
                    raise TranslationError(f"{self.node.name} line {e.lineno}: only `** n` with an integer literal 0..8 is supported")
                n = e.right.value
                if n == 0:
                    return "(Num.ofRat 1)"
                base = self.expr(e.left)
                return "(" + " * ".join([base] * n) + ")"
            ops = {ast.Add: "+", ast.Sub: "-", ast.Mult: "*", ast.Div: "/"}
            for k, v in ops.items():
                if isinstance(e.op, k):
                    return f"({self.expr(e.left)} {v} {self.expr(e.right)})"
            raise TranslationError(f"{self.node.name} line {e.lineno}: unsupported binary operator {type(e.op).__name__}")
        if isinstance(e, ast.Call):
            f = e.func
            if isinstance(f, ast.Attribute) and isinstance(f.value, ast.Name) and f.value.id in ("np", "numpy") and f.attr == "square" \
                    and len(e.args) == 1 and not e.keywords:
                b = self.expr(e.args[0])
                return f"({b} * {b})"
            raise TranslationError(f"{self.node.name} line {e.lineno}: unsupported call")
        raise TranslationError(f"{self.node.name} line {getattr(e, 'lineno', '?')}: unsupported expression {type(e).__name__}")

    def body(self) -> list[str]:
        lines = []
        stmts = list(self.node.body)
        if stmts and isinstance(stmts[0], ast.Expr) and isinstance(stmts[0].value, ast.Constant) and isinstance(stmts[0].value.value, str):
            stmts = stmts[1:]
        if not stmts or not isinstance(stmts[-1], ast.Return) or stmts[-1].value is None:
            raise TranslationError(f"{self.node.name}: the body must end with `return <expr>`")
        for st in stmts[:-1]:
            if isinstance(st, ast.Assign) and len(st.targets) == 1 and isinstance(st.targets[0], ast.Name):
                tgt = st.targets[0].id
                if tgt == self.xy:
                    raise TranslationError(f"{self.node.name} line {st.lineno}: `{self.xy}` is re-assigned")
                rhs = self.expr(st.value)
                self.known.add(tgt)
                lines.append(f"  let {_ident(tgt)} : R := {rhs}")
            elif isinstance(st, ast.Assign) and len(st.targets) == 1 and isinstance(st.targets[0], ast.Tuple) \
                    and all(isinstance(t, ast.Name) for t in st.targets[0].elts):
                # `a, b = e1, e2` (simultaneous) or `x, y = xy`
                tgts = [t.id for t in st.targets[0].elts]
                if self.xy in tgts or len(set(tgts)) != len(tgts):
                    raise TranslationError(f"{self.node.name} line {st.lineno}: unsupported tuple assignment")
                if isinstance(st.value, ast.Name) and st.value.id == self.xy and len(tgts) == 2:
                    rhs = [f"{_ident(self.xy)}.1", f"{_ident(self.xy)}.2"]
                elif isinstance(st.value, ast.Tuple) and len(st.value.elts) == len(tgts):
                    used = {n.id for v in st.value.elts for n in ast.walk(v) if isinstance(n, ast.Name)}
                    if used & set(tgts):
                        raise TranslationError(f"{self.node.name} line {st.lineno}: a simultaneous assignment that reads its own targets is not supported")
                    rhs = [self.expr(v) for v in st.value.elts]
                else:
                    raise TranslationError(f"{self.node.name} line {st.lineno}: unsupported tuple assignment")
                for t, r in zip(tgts, rhs):
                    self.known.add(t)
                    lines.append(f"  let {_ident(t)} : R := {r}")
            elif isinstance(st, ast.AnnAssign) and isinstance(st.target, ast.Name) and st.value is not None:
                rhs = self.expr(st.value)
                self.known.add(st.target.id)
                lines.append(f"  let {_ident(st.target.id)} : R := {rhs}")
            else:
                raise TranslationError(f"{self.node.name} line {st.lineno}: unsupported statement {type(st).__name__}")
        lines.append(f"  {self.expr(stmts[-1].value)}")
        return lines


def translate(src: str) -> str:
    try:
        tree = ast.parse(src)
    except SyntaxError as e:
        raise TranslationError(f"syntax error: {e}")
    fns = {n.name: n for n in tree.body if isinstance(n, ast.FunctionDef) and n.name in EXPECTED}
    missing = [k for k in EXPECTED if k not in fns]
    if missing:
        raise TranslationError(f"function(s) not found at module level: {missing}")
    out = ["/-", "GENERATED by harness/translator/surface2lean.py from", f"  src/{REL_SOURCE}  (_plane, _parabola, _bezier_two)",
           "on every run of ./check C18.  Do not edit.  Core Lean only.", "-/", "import QuantemModel.Core.Num", "",
           "namespace QuantemModel.Generated.OriginSurface", "open QuantemModel", ""]
    for py, (lean, npar) in EXPECTED.items():
        fn = _Fn(fns[py])
        if len(fn.params) - 1 != npar:
            raise TranslationError(f"{py}: {len(fn.params) - 1} surface parameters, the model has {npar}")
        ps = " ".join(_ident(p) for p in fn.params[1:])
        out.append(f"/-- `{py}({', '.join(fn.params)})` -/")
        out.append(f"def {lean} {{R : Type}} [Num R] ({_ident(fn.xy)} : R × R) ({ps} : R) : R :=")
        out.extend(fn.body())
        out.append("")
    out.append("end QuantemModel.Generated.OriginSurface")
    return "\n".join(out) + "\n"


def regenerate(out_path: str = OUT_PATH) -> bool:
    p = source_path()
    try:
        src = open(p, encoding="utf-8").read()
    except OSError as e:
        raise TranslationError(f"cannot read {p}: {e}")
    text = translate(src)
    old = open(out_path, encoding="utf-8").read() if os.path.exists(out_path) else None
    if old == text:
        return False
    os.makedirs(os.path.dirname(out_path), exist_ok=True)
    tmp = out_path + ".tmp"
    with open(tmp, "w", encoding="utf-8") as f:
        f.write(text)
    os.replace(tmp, out_path)
    return True


if __name__ == "__main__":
    import sys
    try:
        print(("rewrote " if regenerate() else "unchanged ") + OUT_PATH)
    except TranslationError as e:
        print("TranslationError:", e)
        sys.exit(1)
