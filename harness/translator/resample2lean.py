"""resample2lean — regenerate lean/QuantemModel/Generated/ResampleTrace.lean from the CURRENT
`Dataset.bin / pad / crop / fourier_resample` of $QVERIF_REPO/src/quantem/core/datastructures/dataset.py
(property C06).

The tie is SEMANTIC (no source text is matched): the four public methods are EXECUTED on TAGGED
arrays whose values say where they came from, and what the index arithmetic did is read off the
result and written down as literal tables:

* bin               pixel i carries the tag 2^i; a binned value is therefore the bit set of exactly the
                    pixels its block summed (1-D: every n <= 9, f <= n + 1; 2-D through axes=(1, 0) with
                    a different factor per axis)
* pad               pixel i carries i + 1, padding is 0: pad(output_shape=(out,)) for n <= 6, out <= n + 5
* crop              pixel i carries i + 1: crop(((b, e),)) for every len <= 5, 0 <= b <= len + 1, -len-1 <= e <= len + 1
* fourier_resample  one complex exponential per input bin; the populated output bin is read off the
                    FFT of the result (n, m <= 8)
* calibration       origin / sampling after bin (f <= 6) and fourier_resample (n, m <= 6) on exact
                    probe calibrations (negative sampling included); the rationals are recovered from the
                    floats (denominators <= 4096)

`Props/C06Tie.lean` proves `generated table = model definition` (`generated_eq_spec_*`) for every
entry, so the theorems of Props/C06*.lean about binNd / padNd / sliceIndices / freqMap / binMeta /
resampleMeta are re-checked against what the source computes NOW.  Renamed locals, re-ordered
statements, vectorised or looped forms, other library calls — anything with the same public
behaviour — give a byte-identical file.  Anything the tracer cannot follow (an exception, a result
that is not a tag pattern) raises TranslationError: the runner records a note, the old file stays.
"""
from __future__ import annotations

import importlib.util
import os
import sys
import warnings
from fractions import Fraction

import numpy as np

REL_SOURCE = "quantem/core/datastructures/dataset.py"
HERE = os.path.dirname(os.path.abspath(__file__))
OUT_PATH = os.path.normpath(os.path.join(HERE, "..", "..", "lean", "QuantemModel", "Generated", "ResampleTrace.lean"))


class TranslationError(Exception):
    pass


def source_path() -> str:
    return os.path.join(os.environ.get("QVERIF_REPO", "/repo"), "src", REL_SOURCE)


def load_dataset_class(path: str):
    """the Dataset class of the file at `path`, loaded as a private module (the harness's own `quantem` is not touched)"""
    try:
        spec = importlib.util.spec_from_file_location("_c06_traced_dataset", path)
        mod = importlib.util.module_from_spec(spec)
        spec.loader.exec_module(mod)
        return mod.Dataset
    except Exception as e:  # noqa
        raise TranslationError(f"cannot load {path}: {type(e).__name__}: {e}")


def _ints(a, what):
    a = np.asarray(a)
    if a.dtype.kind not in "iub":
        r = np.rint(np.real(a))
        if np.max(np.abs(a - r), initial=0) > 0:
            raise TranslationError(f"{what}: result is not a tag pattern")
        a = r
    return [int(v) for v in np.asarray(a).ravel()]


def trace(Dataset):
    out = {}
    # ---- bin, 1-D
    rows = []
    for n in range(1, 10):
        for f in range(1, n + 2):
            tags = np.array([1 << i for i in range(n)], dtype=np.int64)
            r = Dataset.from_array(tags).bin(f).array
            rows.append((n, f, _ints(r, "bin")))
    out["bin1"] = rows
    # ---- bin, 2-D, axes given in descending order with a different factor per axis
    rows = []
    for (n0, n1) in [(2, 3), (3, 2), (3, 4), (4, 3), (5, 2), (2, 5), (1, 4), (4, 4)]:
        for f0 in range(1, n0 + 1):
            for f1 in range(1, n1 + 1):
                tags = np.array([1 << i for i in range(n0 * n1)], dtype=np.int64).reshape(n0, n1)
                r = Dataset.from_array(tags).bin((f1, f0), axes=(1, 0)).array
                if list(r.shape) != [n0 // f0, n1 // f1]:
                    raise TranslationError("bin: 2-D result shape is not n // f per axis")
                rows.append(([n0, n1], [f0, f1], _ints(r, "bin")))
    out["bin2"] = rows
    # ---- pad to an output shape
    rows = []
    for n in range(1, 7):
        for o in range(0, n + 6):
            r = Dataset.from_array(np.arange(1, n + 1, dtype=np.int64)).pad(output_shape=(o,)).array
            rows.append((n, o, _ints(r, "pad")))
    out["pad"] = rows
    # ---- crop
    rows = []
    for n in range(1, 6):
        for b in range(0, n + 2):
            for e in range(-n - 1, n + 2):
                r = Dataset.from_array(np.arange(1, n + 1, dtype=np.int64)).crop(((b, e),)).array
                rows.append((n, b, e, _ints(r, "crop")))
    out["crop"] = rows
    # ---- fourier_resample: the frequency index map
    rows = []
    for n in range(1, 9):
        j = np.arange(n)
        for m in range(1, 9):
            row = [None] * m
            for k in range(n):
                y = Dataset.from_array(np.exp(2j * np.pi * k * j / n)).fourier_resample(out_shape=(m,)).array
                Y = np.fft.fft(y) / m
                pop = [int(q) for q in np.nonzero(np.abs(Y) > 1e-6)[0]]
                if len(pop) > 1 or (len(pop) == 1 and abs(Y[pop[0]] - 1.0) > 1e-9):
                    raise TranslationError(f"fourier_resample {n}->{m}: exponential {k} does not land in one unit bin")
                if pop:
                    if row[pop[0]] is not None:
                        raise TranslationError(f"fourier_resample {n}->{m}: two input bins land in one output bin")
                    row[pop[0]] = k
            rows.append((n, m, row))
    out["freq"] = rows
    # ---- calibration
    probes = [(Fraction(0), Fraction(1)), (Fraction(1), Fraction(1)), (Fraction(-3), Fraction(-1, 2)), (Fraction(5, 4), Fraction(3))]

    def rat(v):
        q = Fraction(float(v)).limit_denominator(4096)
        if abs(float(q) - float(v)) > 1e-12 * max(1.0, abs(float(v))):
            raise TranslationError("calibration: not a small rational")
        return q
    rows = []
    for f in range(1, 7):
        for o, s in probes:
            r = Dataset.from_array(np.zeros(12), origin=[float(o)], sampling=[float(s)]).bin(f)
            rows.append((f, o, s, rat(r.origin[0]), rat(r.sampling[0])))
    out["binmeta"] = rows
    rows = []
    for n in range(1, 7):
        for m in range(1, 7):
            for o, s in probes[1:3]:
                r = Dataset.from_array(np.zeros(n), origin=[float(o)], sampling=[float(s)]).fourier_resample(out_shape=(m,))
                rows.append((n, m, o, s, rat(r.origin[0]), rat(r.sampling[0])))
    out["rsmeta"] = rows
    return out


def _q(v: Fraction) -> str:
    v = Fraction(v)
    num = f"({v.numerator})" if v.numerator < 0 else str(v.numerator)
    return f"({num} / {v.denominator} : Rat)" if v.denominator != 1 else f"({num} : Rat)"


def _i(v: int) -> str:
    return f"({v})" if v < 0 else str(v)


def _nl(xs) -> str:
    return "[" + ", ".join(str(int(x)) for x in xs) + "]"


def render(t) -> str:
    L = []
    L.append("/-\nGENERATED by harness/translator/resample2lean.py from the CURRENT behaviour of\n  src/quantem/core/datastructures/dataset.py  (Dataset.bin / pad / crop / fourier_resample)\n"
             "on every `./check C06` run — DO NOT EDIT.  The methods are EXECUTED on tagged arrays (pixel i carries 2^i or i+1,\none complex exponential per frequency bin, exact probe calibrations); the tables say what the index\n"
             "arithmetic did.  Props/C06Tie.lean proves every entry equal to the model definitions.\n-/")
    L.append("namespace QuantemModel.Generated.ResampleTrace\n")
    L.append("/-- (n, f, binned values of the tags 2^i) -/\ndef bin1 : List (Nat × Nat × List Nat) := [")
    L.append(",\n".join(f"  ({n}, {f}, {_nl(r)})" for n, f, r in t["bin1"]) + "]\n")
    L.append("/-- (shape, factor per axis, binned values of the tags 2^(row-major position)) — traced through axes=(1, 0) -/\ndef bin2 : List (List Nat × List Nat × List Nat) := [")
    L.append(",\n".join(f"  ({_nl(s)}, {_nl(f)}, {_nl(r)})" for s, f, r in t["bin2"]) + "]\n")
    L.append("/-- (n, requested output length, padded tags i+1; 0 = padding) -/\ndef pad : List (Nat × Int × List Nat) := [")
    L.append(",\n".join(f"  ({n}, {_i(o)}, {_nl(r)})" for n, o, r in t["pad"]) + "]\n")
    L.append("/-- (n, before, after, cropped tags i+1) for crop(((before, after),)) -/\ndef crop : List (Nat × Int × Int × List Nat) := [")
    L.append(",\n".join(f"  ({n}, {_i(b)}, {_i(e)}, {_nl(r)})" for n, b, e, r in t["crop"]) + "]\n")
    L.append("/-- (n, m, for every output bin the input bin it receives) -/\ndef freq : List (Nat × Nat × List (Option Nat)) := [")
    L.append(",\n".join("  (%d, %d, [%s])" % (n, m, ", ".join("none" if k is None else f"some {k}" for k in r)) for n, m, r in t["freq"]) + "]\n")
    L.append("/-- (f, origin, sampling, origin after bin, sampling after bin) -/\ndef binMetaTab : List (Nat × Rat × Rat × Rat × Rat) := [")
    L.append(",\n".join(f"  ({f}, {_q(o)}, {_q(s)}, {_q(o2)}, {_q(s2)})" for f, o, s, o2, s2 in t["binmeta"]) + "]\n")
    L.append("/-- (n, m, origin, sampling, origin after fourier_resample, sampling after) -/\ndef rsMetaTab : List (Nat × Nat × Rat × Rat × Rat × Rat) := [")
    L.append(",\n".join(f"  ({n}, {m}, {_q(o)}, {_q(s)}, {_q(o2)}, {_q(s2)})" for n, m, o, s, o2, s2 in t["rsmeta"]) + "]\n")
    L.append("end QuantemModel.Generated.ResampleTrace\n")
    return "\n".join(L)


def regenerate(out_path: str = OUT_PATH) -> bool:
    """trace the current source; rewrite the Lean file only if its text changes.  Raises TranslationError (file untouched)."""
    with warnings.catch_warnings():
        warnings.simplefilter("ignore")
        Dataset = load_dataset_class(source_path())
        try:
            text = render(trace(Dataset))
        except TranslationError:
            raise
        except Exception as e:  # noqa — a valid probe call raised, an attribute is gone, …: the tracer cannot follow
            raise TranslationError(f"{type(e).__name__}: {e}")
    old = open(out_path, encoding="utf-8").read() if os.path.exists(out_path) else None
    if old == text:
        return False
    os.makedirs(os.path.dirname(out_path), exist_ok=True)
    tmp = out_path + ".tmp"
    with open(tmp, "w", encoding="utf-8") as f:
        f.write(text)
    os.replace(tmp, out_path)
    return True


if __name__ == "__main__":
    try:
        print(("rewrote " if regenerate() else "unchanged ") + OUT_PATH)
    except TranslationError as e:
        print("TranslationError:", e)
        sys.exit(1)
