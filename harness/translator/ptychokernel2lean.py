"""C16: mechanical translation of `ptycho_utils.fourier_translation_operator` by TRACING.

The real function (NumPy branch) is called on an object array holding two symbolic positions `r`, `c`.
Every pixel of the returned ramp comes back as an expression tree over {const, var, +, *, neg, exp}.  The tree is
normalised to a unit phasor `exp(a*r + b*c)`; `a`, `b` must be purely imaginary and `-a/(2*pi)`, `-b/(2*pi)` must be
(to float32 accuracy: the code evaluates `-2j*pi*fftfreq` in complex64) rationals `k_r/nr`, `k_c/nc`.  The integer
numerators `(k_r, k_c)` of every pixel are written to lean/QuantemModel/Generated/PtychoKernels.lean, one table per
traced shape; Props/C16Ext.lean proves `generated table = fftfreq table of the model` (by `decide`) and from it
`ramp of the generated table = translationOperator` for all positions.

The tracer follows any arrangement of +, *, unary minus, exp, indexing, broadcasting, temporaries and renamed locals
(e.g. `exp(-2j*pi*(kr*r + kc*c))`); a construct it cannot follow (another ufunc, a torch-only rewrite, a dtype cast of the
symbolic array, ...) raises TranslationError, which `pregenerate` turns into a NOTE (the last good file stays).
No timestamps are written: the file only changes when the traced formulas change."""
import math
import os

SHAPES = [(3, 4), (4, 3), (2, 5), (1, 2)]      # odd/even, both orientations, axes of length 1 and 2
EXTRA_SHAPES = [((2, 3, 4), True), ((2, 3, 4), False), ((5, 2, 4, 3), True)]      # expand_dim bookkeeping
OUT = os.path.join(os.path.dirname(os.path.dirname(os.path.dirname(os.path.abspath(__file__)))), "lean", "QuantemModel", "Generated", "PtychoKernels.lean")
TOL = 2e-6


class TranslationError(Exception):
    pass


class Sym:
    """expression node; numpy calls the reflected operators elementwise on object arrays, np.exp calls .exp()"""
    __array_priority__ = 1000

    def __init__(self, op, *a):
        self.op, self.a = op, a

    def __mul__(self, o):
        return Sym("mul", self, lift(o))

    def __rmul__(self, o):
        return Sym("mul", lift(o), self)

    def __add__(self, o):
        return Sym("add", self, lift(o))

    def __radd__(self, o):
        return Sym("add", lift(o), self)

    def __sub__(self, o):
        return Sym("add", self, Sym("neg", lift(o)))

    def __rsub__(self, o):
        return Sym("add", lift(o), Sym("neg", self))

    def __truediv__(self, o):
        if isinstance(o, Sym):
            raise TranslationError("division by a symbolic value")
        return Sym("mul", self, lift(1.0 / complex(o)))

    def __neg__(self):
        return Sym("neg", self)

    def exp(self):
        return Sym("exp", self)

    def conjugate(self):
        raise TranslationError("conjugate of a symbolic value")

    def __getattr__(self, name):      # any other ufunc method (sin, cos, sqrt, real, ...) is outside the grammar
        if name.startswith("__"):      # protocol probes of numpy (__array__, __len__, ...) must see AttributeError
            raise AttributeError(name)
        raise TranslationError(f"operation `{name}` on a symbolic value is outside the tracer's grammar")


def lift(o):
    if isinstance(o, Sym):
        return o
    try:
        return Sym("const", complex(o))
    except Exception as e:   # noqa: BLE001
        raise TranslationError(f"cannot lift {type(o).__name__}: {e}")


def norm(e):
    """-> ("lin", {var: coef, 1: const}) or ("phasor", lin, scale) meaning scale*exp(lin)"""
    if e.op == "const":
        return ("lin", {1: e.a[0]})
    if e.op == "var":
        return ("lin", {e.a[0]: 1.0 + 0j})
    if e.op == "neg":
        k, *r = norm(e.a[0])
        if k == "lin":
            return ("lin", {v: -c for v, c in r[0].items()})
        return ("phasor", r[0], -r[1])
    if e.op == "add":
        x, y = norm(e.a[0]), norm(e.a[1])
        if x[0] == "lin" and y[0] == "lin":
            d = dict(x[1])
            for v, c in y[1].items():
                d[v] = d.get(v, 0) + c
            return ("lin", d)
        raise TranslationError("sum of phasors is outside the tracer's grammar")
    if e.op == "mul":
        x, y = norm(e.a[0]), norm(e.a[1])
        if x[0] == "lin" and y[0] == "lin":
            cx = set(x[1]) <= {1}
            cy = set(y[1]) <= {1}
            if not (cx or cy):
                raise TranslationError("product of two position-dependent terms")
            k, lin = (x[1].get(1, 0), y[1]) if cx else (y[1].get(1, 0), x[1])
            return ("lin", {v: k * c for v, c in lin.items()})
        if x[0] == "phasor" and y[0] == "phasor":
            d = dict(x[1])
            for v, c in y[1].items():
                d[v] = d.get(v, 0) + c
            return ("phasor", d, x[2] * y[2])
        ph, li = (x, y) if x[0] == "phasor" else (y, x)
        if set(li[1]) <= {1}:
            return ("phasor", ph[1], ph[2] * li[1].get(1, 0))
        raise TranslationError("phasor times a position-dependent term")
    if e.op == "exp":
        x = norm(e.a[0])
        if x[0] != "lin":
            raise TranslationError("exp of a phasor")
        return ("phasor", x[1], 1.0 + 0j)
    raise TranslationError(f"unknown node {e.op}")


def numerator(coef, n, what):
    """coef = -2*pi*i*k/n  ->  k (integer), else TranslationError"""
    if abs(coef.real) > TOL:
        raise TranslationError(f"{what}: phase coefficient {coef} is not purely imaginary")
    f = -coef.imag / (2 * math.pi)
    k = round(f * n)
    if abs(f - k / n) > TOL:
        raise TranslationError(f"{what}: frequency {f} is not a multiple of 1/{n}")
    return int(k)


def trace(fn, shape, expand_dim=None):
    import numpy as np
    pos = np.empty((1, 2), dtype=object)
    pos[0, 0], pos[0, 1] = Sym("var", "r"), Sym("var", "c")
    try:
        out = fn(pos, shape) if expand_dim is None else fn(pos, shape, expand_dim)
    except TranslationError:
        raise
    except Exception as e:   # noqa: BLE001
        raise TranslationError(f"the function cannot be called on symbolic positions: {type(e).__name__}: {str(e)[:120]}")
    if not isinstance(out, np.ndarray) or out.dtype != object:
        raise TranslationError(f"result is {type(out).__name__} of dtype {getattr(out, 'dtype', None)}, not an array of traced values")
    return out


def table(fn, nr, nc):
    out = trace(fn, (nr, nc))
    if out.shape != (1, nr, nc):
        raise TranslationError(f"ramp of shape {out.shape} for shape=({nr},{nc})")
    rows = []
    for i in range(nr):
        row = []
        for j in range(nc):
            v = out[0, i, j]
            n_ = norm(v if isinstance(v, Sym) else lift(v))
            if n_[0] != "phasor":
                raise TranslationError(f"pixel ({i},{j}) is not a phasor")
            lin, scale = n_[1], n_[2]
            if abs(scale - 1) > TOL or abs(lin.get(1, 0)) > TOL or set(lin) - {"r", "c", 1}:
                raise TranslationError(f"pixel ({i},{j}): not exp(a*r + b*c) (scale {scale}, terms {sorted(map(str, lin))})")
            row.append((numerator(complex(lin.get("r", 0)), nr, f"pixel ({i},{j}) row term"), numerator(complex(lin.get("c", 0)), nc, f"pixel ({i},{j}) column term")))
        rows.append(row)
    return rows


def lean_int(k):
    return str(k) if k >= 0 else f"({k})"


def render(fn):
    lines = ["/-!", "GENERATED by harness/translator/ptychokernel2lean.py from the CURRENT source of",
             "`quantem.diffractive_imaging.ptycho_utils.fourier_translation_operator` (traced on symbolic positions) — do not edit.",
             "`rampTable_<nr>_<nc>[i][j] = (k_r, k_c)`: the traced pixel is `exp(-2πi·(k_r/nr)·r) · exp(-2πi·(k_c/nc)·c)`.",
             "`extraAxes_*`: number of unit axes the traced call inserted after the batch axis.", "-/",
             "namespace QuantemModel.Generated.PtychoKernels", ""]
    for nr, nc in SHAPES:
        t = table(fn, nr, nc)
        body = ",\n   ".join("[" + ", ".join(f"({lean_int(a)}, {lean_int(b)})" for a, b in row) + "]" for row in t)
        lines += [f"def rampTable_{nr}_{nc} : List (List (Int × Int)) :=", f"  [{body}]", ""]
    for shape, e in EXTRA_SHAPES:
        out = trace(fn, shape, e)
        if out.shape[0] != 1 or tuple(out.shape[-2:]) != tuple(shape[-2:]) or any(d != 1 for d in out.shape[1:-2]):
            raise TranslationError(f"expand_dim={e}, shape={shape}: result shape {out.shape}")
        lines += [f"def extraAxes_{len(shape)}_{'true' if e else 'false'} : Nat := {out.ndim - 3}", ""]
    lines += ["end QuantemModel.Generated.PtychoKernels", ""]
    return "\n".join(lines)


def load_source():
    """the source file of $QVERIF_REPO as a private module object (its imports are absolute, so they resolve as usual);
    the in-process `quantem.diffractive_imaging.ptycho_utils` is not touched"""
    import importlib.util
    import sys
    path = os.path.join(os.environ.get("QVERIF_REPO", "/repo"), "src", "quantem", "diffractive_imaging", "ptycho_utils.py")
    name = "quantem.diffractive_imaging._qverif_traced_ptycho_utils"
    try:
        spec = importlib.util.spec_from_file_location(name, path)
        mod = importlib.util.module_from_spec(spec)
        sys.modules[name] = mod
        try:
            spec.loader.exec_module(mod)
        finally:
            sys.modules.pop(name, None)
    except BaseException as e:   # noqa: BLE001  SyntaxError, ImportError, anything the module body raises
        raise TranslationError(f"cannot load {path}: {type(e).__name__}: {e}")
    return mod


def regenerate():
    """returns None (file up to date / rewritten) or a note string (translator could not follow the source)"""
    try:
        pu = load_source()
        fn = getattr(pu, "fourier_translation_operator", None)
        if fn is None:
            return "ptychokernel2lean: fourier_translation_operator not found; Generated/PtychoKernels.lean left as it is"
        text = render(fn)
    except TranslationError as e:
        return f"ptychokernel2lean: cannot follow the current source ({e}); Generated/PtychoKernels.lean left as it is"
    except Exception as e:   # noqa: BLE001  never crash the check
        return f"ptychokernel2lean: {type(e).__name__}: {str(e)[:160]}; Generated/PtychoKernels.lean left as it is"
    old = open(OUT).read() if os.path.exists(OUT) else None
    if old != text:
        os.makedirs(os.path.dirname(OUT), exist_ok=True)
        with open(OUT, "w") as f:
            f.write(text)
    return None


if __name__ == "__main__":
    print(regenerate() or "ok")
