"""C12 — semantic tie for the formula functions: the REAL functions of the tree under test are EXECUTED on symbolic
values (tracing) instead of pattern-matching their AST.

`trace_guarded_sum(fn_name, arg_names)` runs `complex_probe.<fn_name>` with
  * `alpha`, `phi`, `wavelength` = symbols (tensor-like: Python operators, in-place operators, `.square() .cos() .sin()
    .sqrt() .pow() .abs()`, and every `torch.*` function through `__torch_function__`),
  * the coefficient dict = a symbolic mapping with a CONCRETE set of present keys P: `k in coefs`, iteration, `len`,
    truthiness, `set(coefs)`, `.keys()` answer by P; `.get(k, 0.0)` / `.get(k)`-with-zero-default returns the symbol
    `coefs[k]` (absent keys read 0 — the environment semantics of Generated/Aberration.lean),
for P = ∅, every singleton, all keys and a fixed family of mixed subsets, and INFERS the guard structure from what is
observed: every top-level summand T of a result is enabled by a key set G_T (the singletons that switch it on); the
hypothesis `T is present  ⇔  P ∩ G_T ≠ ∅` is then checked on every traced P.  Loops over tables, enumerate / zip /
generators, private helpers, renamed locals, `math.tau`, `0.25` for `1/4`, `x*x` for `x**2`, commuted products do not
matter: they are simply executed, and the result is printed in a canonical form (sums and products flattened, constants
folded exactly, operands sorted; nothing is distributed except the outermost product over the outermost sum).

Anything that cannot be followed raises TraceError (the caller falls back to the syntactic translator / the reference
text and records a note) — never a crash of the check.
"""
import importlib.util
import math
import os
import sys
from fractions import Fraction


class TraceError(Exception):
    pass


# ----------------------------------------------------------------------------------------
# canonical expressions:  ("c", Fraction) | ("s", name) | ("pi",) | ("add", [terms]) | ("mul", Fraction, [factors])
#                         | ("inv", e) | ("f", name, [args])

def C(q):
    return ("c", Fraction(q))


ZERO, ONE = C(0), C(1)


def key(e):
    """deterministic sort key: plain symbols first (alpha, phi, …), then π, coefficient reads, functions, sums, inverses"""
    t = e[0]
    if t == "s":
        return (1 if e[1].startswith("coef:") else 0, e[1])
    if t == "pi":
        return (0, "\x7fpi")
    if t == "f":
        return (2, e[1], tuple(key(a) for a in e[2]))
    if t == "add":
        return (3, tuple(key(a) for a in e[1]))
    if t == "inv":
        return (4, key(e[1]))
    if t == "mul":
        return (5, str(e[1]), tuple(key(a) for a in e[2]))
    return (6, str(e[1]))


def mk_mul(parts):
    q = Fraction(1)
    fs = []
    stack = list(parts)
    while stack:
        p = stack.pop()
        if p[0] == "c":
            q *= p[1]
        elif p[0] == "mul":
            q *= p[1]
            stack.extend(p[2])
        else:
            fs.append(p)
    if q == 0:
        return ZERO
    fs.sort(key=key)
    if not fs:
        return C(q)
    if q == 1 and len(fs) == 1:
        return fs[0]
    return ("mul", q, fs)


def split_coeff(e):
    """e = q · rest"""
    if e[0] == "c":
        return e[1], ONE
    if e[0] == "mul":
        return e[1], mk_mul(e[2])
    return Fraction(1), e


def mk_add(parts):
    const = Fraction(0)
    ts = []
    stack = list(parts)
    while stack:
        p = stack.pop()
        if p[0] == "c":
            const += p[1]
        elif p[0] == "add":
            stack.extend(p[1])
        else:
            ts.append(p)
    # collect like terms (same rest): x + x → 2x
    acc = {}
    order = []
    for t in ts:
        q, r = split_coeff(t)
        k = key(r)
        if k not in acc:
            acc[k] = [Fraction(0), r]
            order.append(k)
        acc[k][0] += q
    out = [mk_mul([C(q), r]) for q, r in (acc[k] for k in order) if q != 0]
    if const != 0:
        out.append(C(const))
    out.sort(key=lambda t: (split_coeff(t)[0] < 0, key(split_coeff(t)[1])))
    if not out:
        return ZERO
    if len(out) == 1:
        return out[0]
    return ("add", out)


def mk_inv(e):
    if e[0] == "c":
        if e[1] == 0:
            raise TraceError("division by the constant 0")
        return C(1 / e[1])
    if e[0] == "mul":
        return mk_mul([C(1 / e[1])] + [mk_inv(f) for f in e[2]])
    if e[0] == "inv":
        return e[1]
    return ("inv", e)


def mk_pow(e, n):
    if not isinstance(n, int) or n < 0 or n > 12:
        raise TraceError(f"power with exponent {n!r}")
    return mk_mul([e] * n) if n else ONE


def mk_fun(name, args):
    if all(a[0] == "c" for a in args):
        v = [float(a[1]) for a in args]
        if name == "cos" and v == [0.0]:
            return ONE
        if name == "sin" and v == [0.0]:
            return ZERO
    return ("f", name, list(args))


def const_of(x):
    """a Python / NumPy / torch scalar as an exact constant: simple rationals (1/3, 0.25, …) and rational multiples of π
    (math.pi, math.tau, 2*math.pi) are recognised from their float value"""
    if isinstance(x, bool):
        raise TraceError("a bool used as a number")
    if isinstance(x, int):
        return C(x)
    if isinstance(x, Fraction):
        return C(x)
    try:
        import torch
        if isinstance(x, torch.Tensor):
            if x.numel() != 1:
                raise TraceError("a non-scalar constant tensor")
            x = x.item()
    except ImportError:
        pass
    x = float(x)
    if x != x or x in (float("inf"), float("-inf")):
        raise TraceError("non-finite constant")
    f = Fraction(x).limit_denominator(4096)
    if float(f) == x:
        return C(f)
    r = Fraction(x / math.pi).limit_denominator(64)
    if r != 0 and abs(float(r) * math.pi - x) <= 4e-16 * abs(x):
        return mk_mul([C(r), ("pi",)])
    return C(Fraction(x))


# ----------------------------------------------------------------------------------------
# the traced value

_BUDGET = [0]


class T:
    """a traced real number / tensor element"""
    __array_priority__ = 1000

    def __init__(self, e):
        self.e = e
        _BUDGET[0] += 1
        if _BUDGET[0] > 200000:
            raise TraceError("more than 200000 traced operations")

    # -- conversions that would need a VALUE
    def __bool__(self):
        raise TraceError("a branch on a traced VALUE (data-dependent control flow)")

    def __float__(self):
        raise TraceError("float() of a traced value")

    __int__ = __index__ = __float__

    def item(self):
        return self

    # -- tensor furniture
    @property
    def device(self):
        return "cpu"

    @property
    def dtype(self):
        import torch
        return torch.float64

    @property
    def shape(self):
        return ()

    def to(self, *a, **k):
        return self

    def cpu(self):
        return self

    def clone(self):
        return T(self.e)

    detach = contiguous = double = float_ = cpu

    def type(self, *a, **k):
        return self

    # -- arithmetic
    def __add__(self, o):
        return T(mk_add([self.e, lift(o)]))

    __radd__ = __iadd__ = __add__

    def __sub__(self, o):
        return T(mk_add([self.e, mk_mul([C(-1), lift(o)])]))

    __isub__ = __sub__

    def __rsub__(self, o):
        return T(mk_add([lift(o), mk_mul([C(-1), self.e])]))

    def __mul__(self, o):
        return T(mk_mul([self.e, lift(o)]))

    __rmul__ = __imul__ = __mul__

    def __truediv__(self, o):
        return T(mk_mul([self.e, mk_inv(lift(o))]))

    __itruediv__ = __truediv__

    def __rtruediv__(self, o):
        return T(mk_mul([lift(o), mk_inv(self.e)]))

    def __neg__(self):
        return T(mk_mul([C(-1), self.e]))

    def __pos__(self):
        return self

    def __pow__(self, n):
        if isinstance(n, T):
            raise TraceError("traced exponent")
        if isinstance(n, float) and n == int(n):
            n = int(n)
        if isinstance(n, float) and n == 0.5:
            return T(mk_fun("sqrt", [self.e]))
        return T(mk_pow(self.e, n))

    __ipow__ = __pow__

    def pow(self, n):
        return self.__pow__(n)

    def square(self):
        return T(mk_mul([self.e, self.e]))

    def sqrt(self):
        return T(mk_fun("sqrt", [self.e]))

    def cos(self):
        return T(mk_fun("cos", [self.e]))

    def sin(self):
        return T(mk_fun("sin", [self.e]))

    def abs(self):
        return T(mk_fun("abs", [self.e]))

    def neg(self):
        return -self

    def add(self, o):
        return self + o

    def sub(self, o):
        return self - o

    def mul(self, o):
        return self * o

    def div(self, o):
        return self / o

    @classmethod
    def __torch_function__(cls, func, types, args=(), kwargs=None):
        kwargs = kwargs or {}
        name = getattr(func, "__name__", str(func))
        a = list(args)
        if name in ("zeros_like",):
            return T(ZERO)
        if name in ("ones_like",):
            return T(ONE)
        if name in ("cos", "sin", "sqrt", "abs", "absolute"):
            return T(mk_fun({"absolute": "abs"}.get(name, name), [lift(a[0])]))
        if name in ("atan2", "arctan2"):
            return T(mk_fun("atan2", [lift(a[0]), lift(a[1])]))
        if name in ("square",):
            return T(mk_mul([lift(a[0]), lift(a[0])]))
        if name in ("pow", "float_power"):
            return lift_t(a[0]).__pow__(a[1])
        if name in ("add",):
            return lift_t(a[0]) + a[1]
        if name in ("sub", "subtract"):
            return lift_t(a[0]) - a[1]
        if name in ("mul", "multiply"):
            return lift_t(a[0]) * a[1]
        if name in ("div", "divide", "true_divide"):
            return lift_t(a[0]) / a[1]
        if name in ("neg", "negative"):
            return -lift_t(a[0])
        if name in ("as_tensor", "tensor", "clone", "asarray"):
            return lift_t(a[0])
        if name in ("stack",):
            return TList([lift_t(x) for x in a[0]])
        raise TraceError(f"torch function outside the traced vocabulary: torch.{name}")


class TList(list):
    """what torch.stack of traced values returns"""


def lift(o):
    if isinstance(o, T):
        return o.e
    return const_of(o)


def lift_t(o):
    return o if isinstance(o, T) else T(const_of(o))


class SymCoefs(dict):
    """a coefficient dict with a concrete set of present keys and symbolic values.  It IS a dict (so `defaultdict(f, d)`,
    `dict(d)`, `d.copy()`, `{**d}` work) holding exactly the present keys; `.get` with a zero default returns the symbol
    also for an absent key (absent keys read 0)."""

    def __init__(self, present, universe, prefix="coef:"):
        super().__init__((k, T(("s", prefix + k))) for k in universe if k in present)
        self._universe = list(universe)
        self._prefix = prefix

    def get(self, k, default=None):
        if k in self:
            return dict.__getitem__(self, k)
        if isinstance(k, str) and k in self._universe:
            if default is None:
                return None
            if isinstance(default, T):
                raise TraceError("a traced default in dict.get")
            try:
                d0 = const_of(default)
            except TraceError:
                raise
            if d0 == ZERO:
                return T(("s", self._prefix + k))      # absent = 0: the environment semantics
            raise TraceError(f"dict.get({k!r}, {default!r}): non-zero default")
        return default


# ----------------------------------------------------------------------------------------
def load_module(rel="quantem/diffractive_imaging/complex_probe.py"):
    """the source file of the tree under test as a private module object (the harness' own `quantem` import is untouched)"""
    path = os.path.join(os.environ.get("QVERIF_REPO", "/repo"), "src", rel)
    name = "_c12_traced_" + rel.replace("/", "_").replace(".py", "") + "_" + str(abs(hash(os.path.realpath(path))) % 10 ** 8)
    spec = importlib.util.spec_from_file_location(name, path)
    mod = importlib.util.module_from_spec(spec)
    try:
        spec.loader.exec_module(mod)
    except Exception as e:  # noqa
        raise TraceError(f"cannot import {rel}: {type(e).__name__}: {e}")
    return mod


def top_summands(e):
    """the summands of a result, the outermost product distributed over the outermost sum"""
    if e[0] == "add":
        return list(e[1])
    if e[0] == "mul":
        sums = [f for f in e[2] if f[0] == "add"]
        if len(sums) == 1:
            rest = [f for f in e[2] if f is not sums[0]]
            return [mk_mul([C(e[1])] + rest + [t]) for t in sums[0][1]]
    if e == ZERO:
        return []
    return [e]


FAMILY_SEED = 12345


def presence_family(universe):
    fam = [frozenset(), frozenset(universe)] + [frozenset([k]) for k in universe]
    x = FAMILY_SEED
    for i in range(14):
        s = set()
        for k in universe:
            x = (x * 6364136223846793005 + 1442695040888963407) % (1 << 64)
            if (x >> 33) % (3 if i % 2 else 5) == 0:
                s.add(k)
        fam.append(frozenset(s))
    return fam


def expand(e):
    """polynomial normal form over atoms (symbols, π, inverses, function applications): {sorted atom keys: coefficient};
    used only to COMPARE two traced results up to ring identities"""
    t = e[0]
    if t == "c":
        return {(): e[1]} if e[1] != 0 else {}
    if t == "add":
        out = {}
        for a in e[1]:
            for m, q in expand(a).items():
                out[m] = out.get(m, 0) + q
        return {m: q for m, q in out.items() if q != 0}
    if t == "mul":
        out = {(): e[1]}
        for f in e[2]:
            pf = expand(f)
            nxt = {}
            for m1, q1 in out.items():
                for m2, q2 in pf.items():
                    m = tuple(sorted(m1 + m2))
                    nxt[m] = nxt.get(m, 0) + q1 * q2
            out = nxt
            if len(out) > 20000:
                raise TraceError("expansion too large")
        return {m: q for m, q in out.items() if q != 0}
    return {(key(e),): Fraction(1)}


def trace_guarded_sum(mod, fn_name, arg_names, universe, n_out):
    """returns (groups, terms): groups = list of key lists (in `universe` order), terms[j][i] = canonical expression that
    output j gains when (only) group i is present"""
    fn = getattr(mod, fn_name, None)
    if fn is None:
        raise TraceError(f"function {fn_name} not found")
    results = {}
    for P in presence_family(universe):
        _BUDGET[0] = 0
        args = []
        for a in arg_names:
            if a == "coefs":
                args.append(SymCoefs(P, universe))
            else:
                args.append(T(("s", a)))
        try:
            r = fn(*args)
        except TraceError:
            raise
        except RecursionError:
            raise TraceError("recursion limit")
        except Exception as e:  # noqa
            raise TraceError(f"{fn_name} raised on symbolic input (present keys {sorted(P)}): {type(e).__name__}: {e}")
        outs = [r] if n_out == 1 else list(r) if isinstance(r, (tuple, list)) else None
        if outs is None or len(outs) != n_out or not all(isinstance(o, T) for o in outs):
            raise TraceError(f"{fn_name}: result is not {n_out} traced value(s)")
        results[P] = [o.e for o in outs]
    if any(expand(e) for e in results[frozenset()]):
        raise TraceError(f"{fn_name}: not 0 for an empty coefficient dict")
    # --- keys that switch on the same thing form one guard group
    sig = {}
    for k in universe:
        sig.setdefault(tuple(key(e) for e in results[frozenset([k])]), []).append(k)
    # (a key that switches nothing on belongs to no guard: it simply does not appear in the emitted guard lists)
    groups = sorted((g for sg, g in sig.items() if any(expand(e) for e in results[frozenset([g[0]])])),
                    key=lambda g: universe.index(g[0]))
    if not groups:
        raise TraceError(f"{fn_name}: no key switches anything on")
    terms = [[results[frozenset([g[0]])][j] for g in groups] for j in range(n_out)]
    # --- check the hypothesis  "result(P) = Σ over groups meeting P of the group's term"  on every traced P
    for P, outs in results.items():
        for j in range(n_out):
            want = expand(mk_add([terms[j][i] for i, g in enumerate(groups) if set(g) & P]))
            if want != expand(outs[j]):
                raise TraceError(f"{fn_name}: with keys {sorted(P)} present the result is not the sum of the terms of the "
                                 "groups that have a present key (not an `any(key present)`-guarded sum)")
    return groups, terms


# ----------------------------------------------------------------------------------------
# printing (Lean, over [Num R])

def rat(q):
    q = Fraction(q)
    if q < 0:
        return f"(-(Num.ofRat {rat_pos(-q)}))"
    return f"(Num.ofRat {rat_pos(q)})"


def rat_pos(q):
    return str(q.numerator) if q.denominator == 1 else f"({q.numerator}/{q.denominator})"


def pr(e, coef_env="aberration_coefs"):
    t = e[0]
    if t == "c":
        return "Num.zero" if e[1] == 0 else rat(e[1])
    if t == "s":
        if e[1].startswith("coef:"):
            return f'({coef_env} "{e[1][5:]}")'
        return e[1]
    if t == "pi":
        return "Num.pi"
    if t == "f":
        fn = {"cos": "Num.cos", "sin": "Num.sin", "sqrt": "Num.sqrt", "atan2": "Num.atan2", "abs": "Num.abs"}.get(e[1])
        if fn is None:
            raise TraceError(f"function {e[1]} has no carrier operation")
        return "(" + fn + " " + " ".join(pr(a, coef_env) for a in e[2]) + ")"
    if t == "inv":
        return f"(Num.one / {pr(e[1], coef_env)})"
    if t == "add":
        s = None
        for term in e[1]:
            q, r = split_coeff(term)
            if s is None:
                s = pr(term, coef_env)
            elif q < 0:
                s = f"({s} - {pr(mk_mul([C(-q), r]), coef_env)})"
            else:
                s = f"({s} + {pr(term, coef_env)})"
        return s
    if t == "mul":
        q, fs = e[1], e[2]
        num = [f for f in fs if f[0] != "inv"]
        den = [f[1] for f in fs if f[0] == "inv"]
        parts = ([] if q == 1 and num else [rat(q)]) + [pr(f, coef_env) for f in num]
        s = parts[0]
        for p in parts[1:]:
            s = f"({s} * {p})"
        for d in den:
            s = f"({s} / {pr(d, coef_env)})"
        return s
    raise TraceError(f"cannot print {e!r}")


def divide_out(term, outer):
    """term / outer when every factor of `outer` is a factor of `term`, else None"""
    q, r = split_coeff(term)
    qo, ro = split_coeff(outer)
    fs = list(r[2]) if r[0] == "mul" else ([] if r == ONE else [r])
    for f in (ro[2] if ro[0] == "mul" else ([] if ro == ONE else [ro])):
        for i, g in enumerate(fs):
            if key(g) == key(f):
                del fs[i]
                break
        else:
            return None
    return mk_mul([C(q / qo)] + fs)


# ----------------------------------------------------------------------------------------
# emission in the interface of Generated/Aberration.lean

def _mentions_point(e):
    """does the expression depend on alpha / phi / a coefficient?"""
    t = e[0]
    if t == "s":
        return e[1] in ("alpha", "phi") or e[1].startswith("coef:")
    if t in ("c", "pi"):
        return False
    if t == "inv":
        return _mentions_point(e[1])
    if t == "add":
        return any(_mentions_point(a) for a in e[1])
    if t == "mul":
        return any(_mentions_point(a) for a in e[2])
    return any(_mentions_point(a) for a in e[2])


def common_outer(all_terms):
    """the factors free of alpha / phi / coefficients that EVERY non-zero term carries (e.g. π/λ), rational part 1"""
    common = None
    for t in all_terms:
        if t == ZERO:
            continue
        fs = t[2] if t[0] == "mul" else [t]
        free = [f for f in fs if not _mentions_point(f)]
        if common is None:
            common = list(free)
        else:
            rest = list(free)
            keep = []
            for f in common:
                for i, g in enumerate(rest):
                    if key(g) == key(f):
                        keep.append(f)
                        del rest[i]
                        break
            common = keep
    return mk_mul(common or [])


def emit_guarded_sum(lean_name, params, outputs, groups, terms):
    """params: [(name, leantype)], the coefficient dict being `aberration_coefs`; outputs: [(label or None)] naming the
    term definitions `<lean_name>_<label>_term<i>`; returns (defs, guarded_def)"""
    ps = " ".join(f"({n} : {ty})" for n, ty in params)
    call_args = " ".join(n for n, _ in params)
    outer = common_outer([t for row in terms for t in row])
    defs = []
    names = []
    signs = []
    for j, label in enumerate(outputs):
        row = []
        negs = [split_coeff(t)[0] < 0 for t in terms[j] if t != ZERO]
        sub = bool(negs) and all(negs)             # every term enters with a minus sign: print `acc - term`
        signs.append(sub)
        for i, t in enumerate(terms[j]):
            body = divide_out(t, outer) if t != ZERO else ZERO
            if body is None:
                raise TraceError("common factor does not divide a term")
            if sub:
                body = mk_mul([C(-1), body])
            nm = f"{lean_name}_{label}_term{i + 1}"
            defs.append(f"def {nm} {ps} : R :=\n  {pr(body)}\n")
            row.append(nm)
        names.append(row)
    # interleave per group like the syntactic translator did (readability only)
    gl = ", ".join("[" + ", ".join('"' + k + '"' for k in g) + "]" for g in groups)
    defs.append(f"def {lean_name}_guards : List (List String) :=\n  [{gl}]\n")

    def total(j, guarded):
        acc = "Num.zero"
        for i, g in enumerate(groups):
            call = f"({names[j][i]} {call_args})"
            if guarded:
                ks = "[" + ", ".join('"' + k + '"' for k in g) + "]"
                acc = f"({'guardSub' if signs[j] else 'guardAdd'} (List.any {ks} present) {acc} {call})"
            else:
                acc = f"({acc} {'-' if signs[j] else '+'} {call})"
        o = pr(outer)
        return acc if outer == ONE else f"({o} * {acc})"
    ret = "R" if len(outputs) == 1 else " × ".join("R" for _ in outputs)
    body = total(0, False) if len(outputs) == 1 else "(" + ", ".join(total(j, False) for j in range(len(outputs))) + ")"
    defs.append(f"def {lean_name} {ps} : {ret} :=\n  {body}\n")
    gbody = total(0, True) if len(outputs) == 1 else "(" + ", ".join(total(j, True) for j in range(len(outputs))) + ")"
    gdef = f"def {lean_name}_guarded {ps} (present : String → Bool) : {ret} :=\n  {gbody}\n"
    return defs, gdef
