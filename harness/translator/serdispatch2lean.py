"""Mechanical translation of the type-dispatch chain of `AutoSerialize._serialize_value`
(src/quantem/core/io/serialize.py) into Lean: `lean/QuantemModel/Generated/SerializeDispatch.lean`.

The function is read with `ast` on every `./check C01` run.  Its body is an ordered chain of
tests on the value (`if … elif … else`, or `if …: …; return` statements); each test is translated
into a Boolean formula over the facts of `QuantemModel.SerDispatch.Feat`
(`isinstance(value, T)` → one fact per type, `hasattr(value, "n")` → one fact per name, the two
string tests on `__module__` / `type(value)`, `_is_autoserialize_instance`), and each branch is
named by WHAT ITS BODY WRITES (the marker attribute / the primitive it calls), not by its position.
`Props/C01.lean` proves `dispatchGen = dispatch` (the hand model), so every theorem about the
chain is re-checked against what the source says now.

Tolerated: a renamed value parameter, Boolean temporaries assigned before or between the tests,
`and`/`or`/`not` in any arrangement, tuples of types in any order or split into several
`isinstance` calls, `value is None`, branch bodies moved into helper methods of the class (one
level).  Anything else raises `TranslationError` — reported by the runner as a broken tie.
"""
import ast
import os

OUT_PATH = os.path.join(os.path.dirname(os.path.dirname(os.path.dirname(os.path.abspath(__file__)))),
                        "lean", "QuantemModel", "Generated", "SerializeDispatch.lean")

TYPE_FACTS = {
    "torch.Tensor": "isTensor", "torch.optim.Optimizer": "isOptimizer", "torch.nn.Module": "isModule",
    "np.ndarray": "isNdarray", "numpy.ndarray": "isNdarray", "int": "isInt", "float": "isFloat", "str": "isStr", "bool": "isBool",
    "type(None)": "isNone", "NoneType": "isNone", "types.NoneType": "isNone",
    "np.complexfloating": "isNpComplex", "numpy.complexfloating": "isNpComplex",
    "list": "isList", "tuple": "isTuple", "dict": "isDict", "set": "isSet",
}
ATTR_FACTS = {
    "step": "hasStep", "get_last_lr": "hasGetLastLr", "add_scalar": "hasAddScalar", "add_image": "hasAddImage", "log": "hasLog",
    "info": "hasInfo", "__module__": "hasModuleAttr", "dtype": "hasDtype", "item": "hasItem", "__fspath__": "hasFspath",
    "bit_generator": "hasBitGenerator", "get_state": "hasGetState", "set_state": "hasSetState",
}
# branch markers, searched in this order in the text of a branch body (+ the helper methods it calls)
MARKERS = [
    ('"_torch_tensor"', "tensor"), ('"_torch_optimizer"', "optimizer"), ('"_torch_scheduler"', "scheduler"),
    ('"_torch_logger"', "torchLogger"), ('"_python_logger"', "pyLogger"), ('"_torch_whole_module"', "module"),
    ("._write_ndarray(", "ndarray"), (".is_path", "path"), (".item()", "npScalar"), ("._recursive_save(", "obj"),
    ('"_numpy_rng"', "npRng"), ('"_torch_rng_skipped"', "torchRng"), ("dill.dumps(", "fallback"),
]
PRIMITIVES = {"_write_bytes", "_write_ndarray", "_serialize_container", "_recursive_save", "_serialize_value",
              "_is_autoserialize_instance", "_is_numeric_scalar"}


class TranslationError(Exception):
    pass


def source_path():
    root = os.environ.get("QVERIF_REPO", "/repo")
    return os.path.join(root, "src", "quantem", "core", "io", "serialize.py")


def _norm(s):
    return s.replace("'", '"')


class _Tr:
    def __init__(self, cls_node, fn):
        self.methods = {n.name: n for n in cls_node.body if isinstance(n, (ast.FunctionDef,))}
        self.fn = fn
        args = [a.arg for a in fn.args.args]
        if len(args) < 2:
            raise TranslationError("_serialize_value has no value parameter")
        self.value = args[1]
        self.env = {}

    # -- tests ---------------------------------------------------------------------------------
    def is_value(self, n):
        return isinstance(n, ast.Name) and n.id == self.value

    def type_fact(self, t):
        key = ast.unparse(t)
        if key not in TYPE_FACTS:
            raise TranslationError(f"isinstance against a type outside the fact table: {key}")
        return "f." + TYPE_FACTS[key]

    def expr(self, n):
        if isinstance(n, ast.BoolOp):
            op = " && " if isinstance(n.op, ast.And) else " || "
            return "(" + op.join(self.expr(v) for v in n.values) + ")"
        if isinstance(n, ast.UnaryOp) and isinstance(n.op, ast.Not):
            return "(!" + self.expr(n.operand) + ")"
        if isinstance(n, ast.Name) and n.id in self.env:
            return self.env[n.id]
        if isinstance(n, ast.Constant) and isinstance(n.value, bool):
            return "true" if n.value else "false"
        if isinstance(n, ast.Compare) and len(n.ops) == 1 and self.is_value(n.left) and isinstance(n.comparators[0], ast.Constant) \
                and n.comparators[0].value is None:
            if isinstance(n.ops[0], ast.Is):
                return "f.isNone"
            if isinstance(n.ops[0], ast.IsNot):
                return "(!f.isNone)"
        if isinstance(n, ast.Compare) and len(n.ops) == 1 and isinstance(n.ops[0], ast.In):
            # "torch" in str(value.__module__)
            l, r = n.left, n.comparators[0]
            if isinstance(l, ast.Constant) and l.value == "torch" and _norm(ast.unparse(r)) in (
                    f"str({self.value}.__module__)", f"{self.value}.__module__", f'str(getattr({self.value}, "__module__"))'):
                return "f.moduleMentionsTorch"
        if isinstance(n, ast.Call):
            fn = ast.unparse(n.func)
            if fn == "isinstance" and len(n.args) == 2 and self.is_value(n.args[0]):
                t = n.args[1]
                if isinstance(t, ast.Tuple):
                    return "(" + " || ".join(self.type_fact(e) for e in t.elts) + ")"
                return self.type_fact(t)
            if fn == "hasattr" and len(n.args) == 2 and self.is_value(n.args[0]) and isinstance(n.args[1], ast.Constant):
                a = n.args[1].value
                if a not in ATTR_FACTS:
                    raise TranslationError(f"hasattr on a name outside the fact table: {a}")
                return "f." + ATTR_FACTS[a]
            if fn.endswith("._is_autoserialize_instance") and len(n.args) == 1 and self.is_value(n.args[0]):
                return "f.isAutoSerialize"
            if isinstance(n.func, ast.Attribute) and n.func.attr == "startswith" and ast.unparse(n.func.value) == f"str(type({self.value}))" \
                    and len(n.args) == 1 and isinstance(n.args[0], ast.Constant) and n.args[0].value == "<class 'pathlib.":
                return "f.typeStrPathlib"
        raise TranslationError(f"test outside the grammar: {ast.unparse(n)[:120]}")

    # -- branches ------------------------------------------------------------------------------
    def body_text(self, body):
        text = "\n".join(ast.unparse(s) for s in body)
        extra = []
        for s in body:
            for c in ast.walk(s):
                if isinstance(c, ast.Call) and isinstance(c.func, ast.Attribute) and c.func.attr in self.methods \
                        and c.func.attr not in PRIMITIVES:
                    extra.append(ast.unparse(self.methods[c.func.attr]))
        return _norm(text + "\n" + "\n".join(extra))

    def branch(self, body):
        text = self.body_text(body)
        for marker, name in MARKERS:
            if marker in text:
                return name
        if "._serialize_container(" in text:
            return "set" if '"set"' in text else "container"
        # `group.attrs[name] = value`: the value itself stored as a JSON attribute
        for s in body:
            for c in ast.walk(s):
                if isinstance(c, ast.Assign) and len(c.targets) == 1 and isinstance(c.targets[0], ast.Subscript) \
                        and ast.unparse(c.targets[0].value).endswith(".attrs") and self.is_value(c.value):
                    return "scalar"
        raise TranslationError(f"branch body not recognised: {text[:100]!r}")

    def chain(self, stmts):
        """-> list of (test, branch) and the final else branch"""
        out = []
        i = 0
        while i < len(stmts):
            s = stmts[i]
            if isinstance(s, ast.Expr) and isinstance(s.value, ast.Constant):
                i += 1
                continue                                  # docstring / comment string
            if isinstance(s, (ast.Import, ast.ImportFrom, ast.Pass)):
                i += 1
                continue
            if isinstance(s, (ast.Assign, ast.AnnAssign)) and isinstance(getattr(s, "targets", [getattr(s, "target", None)])[0], ast.Name) \
                    and s.value is not None:
                name = (s.targets[0] if isinstance(s, ast.Assign) else s.target).id
                try:
                    self.env[name] = self.expr(s.value)
                except TranslationError:
                    self.env.pop(name, None)            # not a Boolean fact: an error only if a test uses it
                i += 1
                continue
            if isinstance(s, ast.If):
                node = s
                while True:
                    out.append((self.expr(node.test), self.branch(node.body)))
                    returns = bool(node.body) and isinstance(node.body[-1], ast.Return)
                    if len(node.orelse) == 1 and isinstance(node.orelse[0], ast.If):
                        node = node.orelse[0]
                        continue
                    if node.orelse:
                        rest, final = self.chain(node.orelse) if any(isinstance(x, ast.If) for x in node.orelse) else ([], self.branch(node.orelse))
                        return out + rest, final
                    if returns:
                        rest, final = self.chain(stmts[i + 1:])
                        return out + rest, final
                    raise TranslationError("dispatch chain without a final else branch")
            # statements that are not tests: the tail of the function is the final (else) branch
            return out, self.branch(stmts[i:])
        raise TranslationError("dispatch chain without a final else branch")


def translate(src: str) -> str:
    try:
        tree = ast.parse(src)
    except SyntaxError as e:
        raise TranslationError(f"syntax error: {e}")
    cls = next((n for n in tree.body if isinstance(n, ast.ClassDef) and n.name == "AutoSerialize"), None)
    if cls is None:
        raise TranslationError("class AutoSerialize not found")
    fn = next((n for n in cls.body if isinstance(n, ast.FunctionDef) and n.name == "_serialize_value"), None)
    if fn is None:
        raise TranslationError("AutoSerialize._serialize_value not found")
    tr = _Tr(cls, fn)
    tests, final = tr.chain(fn.body)
    if not tests:
        raise TranslationError("no dispatch test found")
    lines = ["/-",
             "GENERATED by harness/translator/serdispatch2lean.py from",
             "  src/quantem/core/io/serialize.py  (AutoSerialize._serialize_value, the type-dispatch chain)",
             "on every `./check C01` run — DO NOT EDIT.",
             "-/",
             "import QuantemModel.Model.SerializeDispatch",
             "namespace QuantemModel.Generated.SerializeDispatch",
             "open QuantemModel.SerDispatch",
             "",
             "def dispatchGen (f : Feat) : Branch :="]
    for k, (t, b) in enumerate(tests):
        lines.append(f"  {'if' if k == 0 else 'else if'} {t} then Branch.{b}")
    lines.append(f"  else Branch.{final}")
    lines += ["", f"def nTests : Nat := {len(tests)}", "", "end QuantemModel.Generated.SerializeDispatch", ""]
    return "\n".join(lines)


def regenerate(out_path: str = OUT_PATH) -> bool:
    p = source_path()
    try:
        src = open(p, encoding="utf-8").read()
    except OSError as e:
        raise TranslationError(f"cannot read {p}: {e}")
    text = translate(src)
    old = open(out_path, encoding="utf-8").read() if os.path.exists(out_path) else None
    if old == text:
        return False
    os.makedirs(os.path.dirname(out_path), exist_ok=True)
    tmp = out_path + ".tmp"
    with open(tmp, "w", encoding="utf-8") as f:
        f.write(text)
    os.replace(tmp, out_path)
    return True


if __name__ == "__main__":
    import sys
    try:
        print(("rewrote " if regenerate() else "unchanged ") + OUT_PATH)
    except TranslationError as e:
        print("TranslationError:", e)
        sys.exit(1)
