"""dpkernel2lean — Python `ast` -> Lean 4 translator for the kernel formulas of direct ptychography (C04).

Regenerates `lean/QuantemModel/Generated/DirectKernel.lean` from the CURRENT bodies of

  complex_probe.py        : hard_aperture, soft_aperture, aperture, aberration_surface,
                            aberration_surface_polar_gradients, aberration_surface_cartesian_gradients,
                            evaluate_probe, polar_coordinates, _passively_rotate_grid, gamma_factor
  direct_ptychography.py  : DirectPtychography._return_kernel_contributions (specialised to each of the five
                            kernels: first-pass factor per grid point + per-pixel power term),
                            DirectPtychography.reconstruct (a SLICE: the Butterworth envelope, the parallax gradient and
                            contrast-transfer sign, the detector-plane probe, the aperture-weight term, the obf / mf
                            normalisation, `real / BF_weights`)

All code is element-wise tensor arithmetic; it is translated as a function of ONE grid point / ONE detector pixel,
generic over `[Num R]` (Core/Num.lean, complex numbers = Core/Cx.lean).  Indexing / broadcasting plumbing is read as what
it means for one element: `x.view(...)`, `x.unsqueeze(0)`, `.to(dtype)` are identities, `kxa[ind_i, ind_j]` is "the value
at the bright-field pixel", `x[bf_mask]` is "the value at a mask pixel", `t.sum(0)` over the batch axis / `.sum()` over
the mask become a per-pixel TERM (the sum itself is the streaming skeleton's business, Model/DirectPtycho.lean) and the
kind of reduction is recorded in the generated file, `x[0, 0] = c` on a scan-grid tensor is `if dc then c else x`,
`power.max()` is a parameter `power_max`.

Translation = partial evaluation with SSA `let`s: every Python assignment becomes a Lean `let <name>_<n> := …` (so renamed
locals, introduced temporaries and reordered independent statements give the same function); statically known values
(ints, floats as exact rationals, strings, None, bools, tuples) are folded; calls of other translated functions become
Lean calls; local `def get(...)` helpers are inlined; `if <tensor/flag/truthiness>:` becomes `if … then … else …` on every
variable the branch assigns; `if any(k in coefs for k in (...))` guards are kept faithfully (`hasAny coefs [...]`).

`reconstruct` is interpreted in LENIENT mode: a statement outside the grammar is skipped and poisons the variables it
assigns; `for` loops are skipped (variables they update are re-bound from a table: `power` = the accumulated power image
at this grid point).  The slice variables listed in SLICE must come out clean, else `Untranslatable`.

Anything outside the grammar in the strict functions raises `Untranslatable` ("tie broken", reported by `pregenerate`),
never a crash, and the previous generated file stays in place.  Output is deterministic.
"""
from __future__ import annotations

import ast
import os
from fractions import Fraction

HERE = os.path.dirname(os.path.abspath(__file__))
OUT = os.path.normpath(os.path.join(HERE, "..", "..", "lean", "QuantemModel", "Generated", "DirectKernel.lean"))
CP = "quantem/diffractive_imaging/complex_probe.py"
DP = "quantem/diffractive_imaging/direct_ptychography.py"

KEYWORDS = {"at", "from", "end", "in", "fun", "open", "then", "else", "if", "let", "have", "show", "do", "where", "with",
            "match", "by", "def", "theorem", "instance", "structure", "class", "namespace", "section", "variable", "import",
            "set_option", "deriving", "macro", "syntax", "notation", "prefix", "infix", "mutual", "private", "protected",
            "partial", "unsafe", "noncomputable", "return", "for", "try", "catch", "finally", "Type", "Prop", "Sort", "pow"}


class Untranslatable(Exception):
    pass


def bad(node, why):
    raise Untranslatable(f"{why} (line {getattr(node, 'lineno', '?')}: `{ast.unparse(node)[:90] if isinstance(node, ast.AST) else node}`)")


# ---------------------------------------------------------------------------------------------------------
# translation-time values

class S:
    """static Python value: int / Fraction / bool / None / str / complex-literal (as pair of Fractions) / tuple"""
    def __init__(self, v):
        self.v = v


class Rv:
    def __init__(self, code):
        self.code = code


class Cv:
    def __init__(self, code):
        self.code = code


class Bv:
    def __init__(self, code):
        self.code = code


class Tv:
    def __init__(self, items):
        self.items = list(items)


class EnvD:
    """coefficient dict (insertion-ordered `List (String × R)`)"""
    def __init__(self, code):
        self.code = code


class OptR:
    """a parameter that is None or a number (`Option R`): only its truthiness and its value are used"""
    def __init__(self, code):
        self.code = code


class NatV:
    """a natural-number parameter (only as an exponent)"""
    def __init__(self, code):
        self.code = code


class BSum:
    """per-element term of a reduction over the batch axis (`.sum(0)`) or over the mask pixels (`.sum()`)"""
    def __init__(self, code, how):
        self.code, self.how = code, how


class Marker:
    def __init__(self, kind):
        self.kind = kind


class PixArr:
    """a detector-grid tensor of which only the value at the current bright-field pixel is used"""
    def __init__(self, val):
        self.val = val


class GridArr:
    """a scan-grid tensor `x` that is later written at `[0, 0]`"""


class PyFn:
    def __init__(self, node, closure):
        self.node, self.closure = node, closure


class Poison:
    def __init__(self, why):
        self.why = why


class _Return(Exception):
    def __init__(self, v):
        self.v = v


class CplxLit:
    def __init__(self, re, im):
        self.re, self.im = re, im


def rat(q: Fraction) -> str:
    if q.denominator == 1:
        return f"(Num.ofRat {q.numerator})" if q >= 0 else f"(Num.ofRat ({q.numerator}))"
    return f"(Num.ofRat ({q.numerator} / {q.denominator}))" if q >= 0 else f"(Num.ofRat (({q.numerator}) / {q.denominator}))"


def frac_of(v, node=None) -> Fraction:
    if isinstance(v, bool):
        bad(node, "bool used as a number")
    if isinstance(v, int):
        return Fraction(v)
    if isinstance(v, Fraction):
        return v
    if isinstance(v, float):
        if v != v or v in (float("inf"), float("-inf")):
            bad(node, "non-finite literal")
        return Fraction(repr(v))
    bad(node, f"not a number: {v!r}")


def is_numS(x):
    return isinstance(x, S) and isinstance(x.v, (int, Fraction)) and not isinstance(x.v, bool)


def lean_str(s):
    return '"' + s.replace("\\", "\\\\").replace('"', '\\"') + '"'


def ident(name):
    name = "".join(ch if (ch.isalnum() or ch == "_") else "_" for ch in name)
    return name + "_" if name in KEYWORDS else name


class Module:
    def __init__(self, rel):
        root = os.environ.get("QVERIF_REPO", "/repo")
        self.rel = rel
        path = os.path.join(root, "src", rel)
        try:
            src = open(path, encoding="utf-8").read()
            self.tree = ast.parse(src)
        except (OSError, SyntaxError) as e:
            raise Untranslatable(f"cannot read/parse {path}: {e}")
        self.funcs = {n.name: n for n in self.tree.body if isinstance(n, ast.FunctionDef)}
        self.classes = {n.name: n for n in self.tree.body if isinstance(n, ast.ClassDef)}

    def const(self, name):
        """a module-level `NAME = <literal tuple / list / set / frozenset(...) of strings or numbers>`, evaluated"""
        for n in self.tree.body:
            if isinstance(n, ast.Assign) and len(n.targets) == 1 and isinstance(n.targets[0], ast.Name) and n.targets[0].id == name:
                v = n.value
                if isinstance(v, ast.Call) and isinstance(v.func, ast.Name) and v.func.id in ("frozenset", "set", "tuple") and len(v.args) == 1:
                    v = v.args[0]
                try:
                    lit = ast.literal_eval(v)
                except (ValueError, SyntaxError):
                    return None
                if isinstance(lit, (tuple, list, set, frozenset)) and all(isinstance(x, (str, int)) for x in lit):
                    return S(tuple(sorted(lit) if isinstance(lit, (set, frozenset)) else lit))
        return None

    def method(self, cls, name):
        c = self.classes.get(cls)
        if c is None:
            raise Untranslatable(f"class {cls} not found in {self.rel}")
        for n in c.body:
            if isinstance(n, ast.FunctionDef) and n.name == name:
                return n
        raise Untranslatable(f"{cls}.{name} not found in {self.rel}")


# ---------------------------------------------------------------------------------------------------------
# signatures of the translated functions: python parameter -> kind
#   "R" real, "C" complex, "B" Bool flag, "env" coefficient dict, "R2" pair of reals (two Lean parameters),
#   ("static", value) bound at translation time (not a Lean parameter)

SIGS = {
    "hard_aperture": [("alpha", "R"), ("semiangle_cutoff", "R")],
    "soft_aperture": [("alpha", "R"), ("phi", "R"), ("semiangle_cutoff", "R"), ("angular_sampling", "R2")],
    "aperture": [("alpha", "R"), ("phi", "R"), ("semiangle_cutoff", "R"), ("angular_sampling", "R2"), ("soft_edges", "B"),
                 ("vacuum_probe_intensity", ("static", None))],
    "aberration_surface": [("alpha", "R"), ("phi", "R"), ("wavelength", "R"), ("aberration_coefs", "env")],
    "aberration_surface_polar_gradients": [("alpha", "R"), ("phi", "R"), ("aberration_coefs", "env")],
    "aberration_surface_cartesian_gradients": [("alpha", "R"), ("phi", "R"), ("aberration_coefs", "env")],
    "evaluate_probe": [("alpha", "R"), ("phi", "R"), ("semiangle_cutoff", "R"), ("angular_sampling", "R2"), ("wavelength", "R"),
                       ("soft_edges", "B"), ("vacuum_probe_intensity", ("static", None)), ("aberration_coefs", "env")],
    "polar_coordinates": [("kx", "R"), ("ky", "R")],
    "_passively_rotate_grid": [("kxa", "R"), ("kya", "R"), ("rotation_angle", "R")],
    "gamma_factor": [("qmks", "R2"), ("qpks", "R2"), ("cmplx_probe_at_k", "C"), ("wavelength", "R"), ("semiangle_cutoff", "R"),
                     ("soft_edges", "B"), ("aberration_coefs", "env"), ("angular_sampling", "R2"), ("asymmetric_version", "B"),
                     ("normalize", "B")],
}
RET = {"hard_aperture": "R", "soft_aperture": "R", "aperture": "R", "aberration_surface": "R",
       "aberration_surface_polar_gradients": "R2", "aberration_surface_cartesian_gradients": "R2", "evaluate_probe": "C",
       "polar_coordinates": "R2", "_passively_rotate_grid": "R2", "gamma_factor": "C"}
LEAN_TY = {"R": "R", "C": "Cx R", "B": "Bool", "env": "List (String × R)", "opt": "Option R", "nat": "Nat"}

SELF_ATTRS = {"wavelength": "R", "semiangle_cutoff": "R", "soft_edges": "B", "angular_sampling": "R2"}
KERNELS = ["ssb", "obf", "mf", "prlx", "icom"]


def lean_params(sig):
    out = []
    for p, k in sig:
        if isinstance(k, tuple):
            continue
        if k == "R2":
            out += [(ident(p) + "_0", "R"), (ident(p) + "_1", "R")]
        else:
            out.append((ident(p), k))
    return out


class Emitter:
    def __init__(self):
        self.lines = []
        self.counter = {}

    def fresh(self, name):
        n = self.counter.get(name, 0) + 1
        self.counter[name] = n
        return f"{ident(name)}_{n}"

    def let(self, name, code):
        v = self.fresh(name)
        self.lines.append(f"let {v} := {code}")
        return v


class Interp:
    def __init__(self, mod: Module, tr: "Translator", lenient=False):
        self.mod, self.tr, self.lenient = mod, tr, lenient
        self.em = Emitter()
        self.notes = {}

    # ---- expressions -------------------------------------------------------------------------------
    def ev(self, node, sc):
        m = getattr(self, "ev_" + type(node).__name__, None)
        if m is None:
            bad(node, f"expression form {type(node).__name__} outside the grammar")
        return m(node, sc)

    def ev_Constant(self, node, sc):
        v = node.value
        if isinstance(v, bool) or v is None or isinstance(v, str):
            return S(v)
        if isinstance(v, int):
            return S(v)
        if isinstance(v, float):
            return S(frac_of(v, node))
        if isinstance(v, complex):
            return S(CplxLit(frac_of(v.real, node), frac_of(v.imag, node)))
        bad(node, "literal outside the grammar")

    def ev_Name(self, node, sc):
        if node.id in sc:
            v = sc[node.id]
            if isinstance(v, Poison):
                bad(node, f"uses `{node.id}`, which is not translatable: {v.why}")
            return v
        if node.id in self.mod.funcs or node.id in self.tr.cp.funcs:
            return ("modfunc", node.id)
        c = self.mod.const(node.id)
        if c is not None:
            return c
        if node.id in ("torch", "math", "np"):
            return ("pymod", node.id)
        bad(node, f"unknown name {node.id}")

    def ev_Tuple(self, node, sc):
        items = []
        for e in node.elts:
            if isinstance(e, ast.Starred):
                v = self.ev(e.value, sc)
                if not isinstance(v, Tv):
                    bad(e, "starred non-tuple")
                items += v.items
            else:
                items.append(self.ev(e, sc))
        if all(isinstance(x, S) for x in items):
            return S(tuple(x.v for x in items))
        return Tv(items)

    ev_List = ev_Tuple
    ev_Set = ev_Tuple

    def ev_Attribute(self, node, sc):
        base = self.ev(node.value, sc)
        if isinstance(base, tuple) and base[0] == "pymod":
            if base[1] == "math" and node.attr == "pi":
                return Rv("Num.pi")
            if base[1] == "np" and node.attr == "pi":
                return Rv("Num.pi")
            if base[1] == "torch" and node.attr in ("float32", "float", "complex64", "bool"):
                return S("dtype:" + node.attr)
            return ("pyattr", base[1], node.attr)
        if isinstance(base, tuple) and base[0] == "pyattr":
            return ("pyattr", base[1] + "." + base[2], node.attr)
        if isinstance(base, Marker) and base.kind == "self":
            if node.attr in sc.get("__self__", {}):
                return sc["__self__"][node.attr]
            bad(node, f"self.{node.attr} has no role")
        if isinstance(base, Marker) and base.kind == "bf":
            if node.attr in ("bf_inds_i", "bf_inds_j"):
                return Marker("inds")
            if node.attr == "bf_mask":
                return Marker("mask")
            bad(node, f"bf.{node.attr} has no role")
        if isinstance(base, Cv) and node.attr == "real":
            return Rv(f"({base.code}).re")
        if isinstance(base, Cv) and node.attr == "imag":
            return Rv(f"({base.code}).im")
        if isinstance(base, (Rv, Cv)) and node.attr == "shape":
            return S("shape")
        bad(node, "attribute outside the grammar")

    def ev_UnaryOp(self, node, sc):
        v = self.ev(node.operand, sc)
        if isinstance(node.op, ast.USub):
            if is_numS(v):
                return S(-frac_of(v.v))
            if isinstance(v, S) and isinstance(v.v, CplxLit):
                return S(CplxLit(-v.v.re, -v.v.im))
            if isinstance(v, Rv):
                return Rv(f"(-{v.code})")
            if isinstance(v, Cv):
                return Cv(f"(-{v.code})")
        if isinstance(node.op, ast.UAdd) and isinstance(v, (S, Rv, Cv)):
            return v
        if isinstance(node.op, ast.Not):
            if isinstance(v, S) and isinstance(v.v, bool):
                return S(not v.v)
            b = self.truth(v, node)
            if isinstance(b, S):
                return S(not b.v)
            return Bv(f"(!{b.code})")
        bad(node, "unary operator outside the grammar")

    def real_code(self, v, node):
        if isinstance(v, Rv):
            return v.code
        if is_numS(v):
            return rat(frac_of(v.v))
        bad(node, "expected a real value")

    def cplx_lit(self, c):
        return f"(⟨{rat(c.re)}, {rat(c.im)}⟩ : Cx R)"

    def ev_BinOp(self, node, sc):
        a, b = self.ev(node.left, sc), self.ev(node.right, sc)
        op = type(node.op)
        if isinstance(a, OptR):
            a = Rv(f"(optVal {a.code})")
        if isinstance(b, OptR):
            b = Rv(f"(optVal {b.code})")
        if op is ast.Pow:
            if isinstance(b, S) and isinstance(b.v, int) and not isinstance(b.v, bool) and b.v >= 0:
                if is_numS(a):
                    return S(frac_of(a.v) ** b.v)
                return Rv(f"(npow {self.real_code(a, node)} {b.v})")
            if isinstance(b, NatV):
                return Rv(f"(npow {self.real_code(a, node)} {b.code})")
            bad(node, "`**` needs a literal or natural-number exponent")
        if isinstance(a, NatV) or isinstance(b, NatV):
            if op is ast.Mult and isinstance(a, S) and isinstance(a.v, int) and isinstance(b, NatV):
                return NatV(f"({a.v} * {b.code})")
            if op is ast.Mult and isinstance(b, S) and isinstance(b.v, int) and isinstance(a, NatV):
                return NatV(f"({a.code} * {b.v})")
            bad(node, "natural-number arithmetic outside the grammar")
        sym = {ast.Add: "+", ast.Sub: "-", ast.Mult: "*", ast.Div: "/"}.get(op)
        if sym is None:
            bad(node, f"operator {op.__name__} outside the grammar")
        if is_numS(a) and is_numS(b):
            x, y = frac_of(a.v), frac_of(b.v)
            if sym == "/":
                if y == 0:
                    bad(node, "division by literal zero")
                return S(x / y)
            return S({"+": x + y, "-": x - y, "*": x * y}[sym])
        # complex literal times something
        if isinstance(a, S) and isinstance(a.v, CplxLit):
            if sym == "*" and (isinstance(b, Rv) or is_numS(b)):
                rb = self.real_code(b, node)
                if a.v.re == 0:
                    return Cv(f"(⟨Num.zero, {rat(a.v.im)} * {rb}⟩ : Cx R)")
                return Cv(f"(Cx.smul {rb} {self.cplx_lit(a.v)})")
            if sym == "*" and isinstance(b, Cv):
                return Cv(f"({self.cplx_lit(a.v)} * {b.code})")
            bad(node, "complex literal arithmetic outside the grammar")
        if isinstance(b, S) and isinstance(b.v, CplxLit):
            bad(node, "complex literal on the right outside the grammar")
        ca, cb = isinstance(a, Cv), isinstance(b, Cv)
        if ca or cb:
            if ca and cb:
                if sym in ("+", "-", "*"):
                    return Cv(f"({a.code} {sym} {b.code})")
                bad(node, "complex / complex outside the grammar")
            if ca:
                rb = self.real_code(b, node)
                if sym == "*":
                    return Cv(f"(Cx.smul {rb} {a.code})")
                if sym == "/":
                    return Cv(f"(cdivR {a.code} {rb})")
                bad(node, "complex ± real outside the grammar")
            ra = self.real_code(a, node)
            if sym == "*":
                return Cv(f"(Cx.smul {ra} {b.code})")
            bad(node, "real op complex outside the grammar")
        return Rv(f"({self.real_code(a, node)} {sym} {self.real_code(b, node)})")

    def ev_Compare(self, node, sc):
        if len(node.ops) != 1:
            bad(node, "chained comparison")
        a, b = self.ev(node.left, sc), self.ev(node.comparators[0], sc)
        op = type(node.ops[0])
        if op in (ast.Is, ast.IsNot):
            if isinstance(b, S) and b.v is None:
                if isinstance(a, S):
                    return S((a.v is None) == (op is ast.Is))
                if isinstance(a, OptR):
                    c = f"(Option.isNone {a.code})"
                    return Bv(c if op is ast.Is else f"(!{c})")
                if isinstance(a, (Rv, Cv, Tv, EnvD, BSum)):
                    return S(op is ast.IsNot)
            bad(node, "`is` outside the grammar")
        if op in (ast.Eq, ast.NotEq) and isinstance(a, S) and isinstance(b, S):
            return S((a.v == b.v) == (op is ast.Eq))
        if op in (ast.In, ast.NotIn) and isinstance(a, S) and isinstance(b, S) and isinstance(b.v, tuple):
            return S((a.v in b.v) == (op is ast.In))
        if op in (ast.In, ast.NotIn) and isinstance(a, S) and isinstance(a.v, str) and isinstance(b, EnvD):
            c = f"(hasKey {b.code} {lean_str(a.v)})"
            return Bv(c if op is ast.In else f"(!{c})")
        if op in (ast.LtE, ast.Lt, ast.GtE, ast.Gt):
            x, y = self.real_code(a, node), self.real_code(b, node)
            return Bv({ast.LtE: f"(Num.leb {x} {y})", ast.Lt: f"(Num.ltb {x} {y})", ast.GtE: f"(Num.leb {y} {x})",
                       ast.Gt: f"(Num.ltb {y} {x})"}[op])
        bad(node, "comparison outside the grammar")

    def ev_GeneratorExp(self, node, sc):
        return ("genexp", node, sc)

    def ev_Subscript(self, node, sc):
        base = self.ev(node.value, sc)
        idx = node.slice
        if isinstance(base, Marker) and base.kind == "inds":
            return Marker("pix")
        if isinstance(base, PixArr):
            if isinstance(idx, ast.Tuple) and len(idx.elts) == 2 and all(
                    isinstance(self.ev(e, sc), Marker) and self.ev(e, sc).kind == "pix" for e in idx.elts):
                return base.val
            v = self.ev(idx, sc)
            if isinstance(v, Marker) and v.kind in ("mask", "batch"):
                return base.val
            bad(node, "detector-grid tensor indexed by something else than the bright-field pixel")
        if isinstance(base, (Rv, Cv)):
            v = self.ev(idx, sc)
            if isinstance(v, Marker) and v.kind == "mask":
                return base                      # x[bf_mask]: the value at a mask pixel
            bad(node, "tensor indexing outside the grammar")
        if isinstance(base, Tv):
            v = self.ev(idx, sc)
            if isinstance(v, S) and isinstance(v.v, int):
                return base.items[v.v]
            bad(node, "tuple index must be a literal")
        if isinstance(base, S) and isinstance(base.v, tuple):
            v = self.ev(idx, sc)
            if isinstance(v, S) and isinstance(v.v, int):
                return S(base.v[v.v])
        bad(node, "subscript outside the grammar")

    def truth(self, v, node):
        """Python truthiness of a value used as a condition"""
        if isinstance(v, S):
            if isinstance(v.v, (bool, int, Fraction, str, tuple)) or v.v is None:
                return S(bool(v.v))
        if isinstance(v, Bv):
            return v
        if isinstance(v, OptR):
            return Bv(f"(optTruthy {v.code})")
        bad(node, "truthiness of this value is outside the grammar")

    def ev_BoolOp(self, node, sc):
        vals = [self.truth(self.ev(v, sc), node) for v in node.values]
        if all(isinstance(v, S) for v in vals):
            return S(all(v.v for v in vals) if isinstance(node.op, ast.And) else any(v.v for v in vals))
        code = [("true" if v.v else "false") if isinstance(v, S) else v.code for v in vals]
        return Bv("(" + (" && " if isinstance(node.op, ast.And) else " || ").join(code) + ")")

    # ---- calls ---------------------------------------------------------------------------------------
    def ev_Call(self, node, sc):
        f = node.func
        # method calls
        if isinstance(f, ast.Attribute):
            base = self.ev(f.value, sc)
            if isinstance(base, tuple) and base[0] in ("pymod", "pyattr"):
                name = (base[1] if base[0] == "pymod" else base[1] + "." + base[2]) + "." + f.attr
                return self.call_lib(node, name, sc)
            if isinstance(base, Marker) and base.kind == "self":
                # a private helper method of the same class: inlined
                cls = next((c for c in self.mod.classes.values() if any(isinstance(m, ast.FunctionDef) and m.name == f.attr for m in c.body)), None)
                if cls is None:
                    bad(node, f"self.{f.attr}() is not a method of this module")
                meth = next(m for m in cls.body if isinstance(m, ast.FunctionDef) and m.name == f.attr)
                args, kwargs = self.args_of(node, sc)
                clo = {k: v for k, v in sc.items() if k.startswith("__")}
                clo["self"] = base
                static = any(isinstance(d, ast.Name) and d.id == "staticmethod" for d in meth.decorator_list)
                return self.inline(node, PyFn(meth, clo), ([] if static else [base]) + args, kwargs)
            return self.call_method(node, base, f.attr, sc)
        if isinstance(f, ast.Name) and f.id == "any" and f.id not in sc and len(node.args) == 1:
            g = self.ev(node.args[0], sc)
            if isinstance(g, tuple) and g[0] == "genexp":
                return self.any_guard(g[1], g[2])
            bad(node, "any() outside the grammar")
        if isinstance(f, ast.Name) and f.id == "float" and f.id not in sc and len(node.args) == 1 and not node.keywords:
            v = self.ev(node.args[0], sc)
            if isinstance(v, (Rv, S)):
                return v
            bad(node, "float() outside the grammar")
        fn = self.ev(f, sc)
        args, kwargs = self.args_of(node, sc)
        if isinstance(fn, PyFn):
            return self.inline(node, fn, args, kwargs)
        if isinstance(fn, tuple) and fn[0] == "modfunc":
            return self.call_translated(node, fn[1], args, kwargs)
        bad(node, "call outside the grammar")

    def args_of(self, node, sc):
        args = []
        for a in node.args:
            if isinstance(a, ast.Starred):
                v = self.ev(a.value, sc)
                if not isinstance(v, Tv):
                    bad(a, "starred non-tuple")
                args += v.items
            else:
                args.append(self.ev(a, sc))
        kwargs = {}
        for k in node.keywords:
            if k.arg is None:
                bad(node, "**kwargs")
            kwargs[k.arg] = self.ev(k.value, sc)
        return args, kwargs

    def any_guard(self, gen, sc):
        # any(k in coefs for k in (<literal keys>))
        if len(gen.generators) != 1 or gen.generators[0].ifs:
            bad(gen, "generator outside the grammar")
        g = gen.generators[0]
        keys = self.ev(g.iter, sc)
        if not (isinstance(keys, S) and isinstance(keys.v, tuple) and all(isinstance(k, str) for k in keys.v)):
            bad(gen, "guard keys must be a literal tuple of strings")
        if not (isinstance(g.target, ast.Name) and isinstance(gen.elt, ast.Compare) and len(gen.elt.ops) == 1
                and isinstance(gen.elt.ops[0], ast.In) and isinstance(gen.elt.left, ast.Name) and gen.elt.left.id == g.target.id):
            bad(gen, "guard must be `k in <dict>`")
        d = self.ev(gen.elt.comparators[0], sc)
        if not isinstance(d, EnvD):
            bad(gen, "guard must test membership in the coefficient dict")
        return Bv(f"(hasAny {d.code} [{', '.join(lean_str(k) for k in keys.v)}])")

    def call_lib(self, node, name, sc):
        if name == "torch.empty" and self.lenient:
            return Cv("fourier_factor")        # the complex work buffer of reconstruct (filled row by row in the loops)
        args, kwargs = self.args_of(node, sc)
        un = {"torch.sqrt": "Num.sqrt", "torch.cos": "Num.cos", "torch.sin": "Num.sin", "math.cos": "Num.cos",
              "math.sin": "Num.sin", "math.sqrt": "Num.sqrt"}
        if name in un and len(args) == 1 and not kwargs:
            return Rv(f"({un[name]} {self.real_code(args[0], node)})")
        if name == "torch.exp" and len(args) == 1 and not kwargs:
            if isinstance(args[0], Cv):
                return Cv(f"(cexp {args[0].code})")
            return Rv(f"(Num.exp {self.real_code(args[0], node)})")
        if name in ("torch.arctan2", "torch.atan2", "math.atan2") and len(args) == 2:
            return Rv(f"(Num.atan2 {self.real_code(args[0], node)} {self.real_code(args[1], node)})")
        cmpf = {"torch.le": "(Num.leb {0} {1})", "torch.lt": "(Num.ltb {0} {1})", "torch.ge": "(Num.leb {1} {0})", "torch.gt": "(Num.ltb {1} {0})"}
        if name in cmpf and len(args) == 2 and not kwargs:
            return Bv(cmpf[name].format(self.real_code(args[0], node), self.real_code(args[1], node)))
        if name in ("torch.abs", "torch.square", "torch.conj", "torch.real", "torch.sqrt_") and len(args) == 1 and not kwargs:
            if name == "torch.real" and isinstance(args[0], Cv):
                return Rv(f"({args[0].code}).re")
            return self.method_on(node, args[0], name.split(".")[1], [], {})
        if name in ("torch.clamp", "torch.clip") and len(args) == 1 and set(kwargs) <= {"min", "max"} and kwargs:
            x = self.real_code(args[0], node)
            if "min" in kwargs and "max" in kwargs:
                return Rv(f"(Num.clip {x} {self.real_code(kwargs['min'], node)} {self.real_code(kwargs['max'], node)})")
            if "min" in kwargs:
                return Rv(f"(Num.max {x} {self.real_code(kwargs['min'], node)})")
        if name == "torch.reciprocal" and len(args) == 1 and not kwargs:
            return Rv(f"((Num.ofRat 1) / {self.real_code(args[0], node)})")
        if name in ("torch.div", "torch.true_divide") and len(args) == 2 and not kwargs and isinstance(args[0], Rv):
            return Rv(f"({args[0].code} / {self.real_code(args[1], node)})")
        if name == "torch.sign" and len(args) == 1:
            return Rv(f"(sgn {self.real_code(args[0], node)})")
        if name == "torch.empty" and self.lenient:
            return Cv("fourier_factor")        # the complex work buffer of reconstruct (filled row by row in the loops)
        if name in ("torch.zeros_like", "torch.zeros") and args:
            return Rv("Num.zero")
        if name == "torch.ones_like" and args:
            return Rv("Num.one")
        if name in ("torch.clip", "torch.clamp") and len(args) == 3 and not kwargs:
            return Rv(f"(Num.clip {self.real_code(args[0], node)} {self.real_code(args[1], node)} {self.real_code(args[2], node)})")
        if name == "torch.stack" and len(args) == 2 and isinstance(args[0], Tv) and isinstance(args[1], S):
            return Tv(args[0].items)
        if name == "torch.einsum" and len(args) == 3 and isinstance(args[0], S) and args[0].v == "na,amp->nmp" \
                and isinstance(args[1], Tv) and isinstance(args[2], Tv) and len(args[1].items) == len(args[2].items) == 2:
            a, b = args[1].items, args[2].items
            return Rv(f"(({self.real_code(a[0], node)} * {self.real_code(b[0], node)}) + ({self.real_code(a[1], node)} * {self.real_code(b[1], node)}))")
        if name == "torch.tensor" and args and isinstance(args[0], (Rv, S)):
            return args[0]
        bad(node, f"library call {name} outside the grammar")

    def call_method(self, node, base, attr, sc):
        args, kwargs = self.args_of(node, sc)
        return self.method_on(node, base, attr, args, kwargs)

    def method_on(self, node, base, attr, args, kwargs):
        if isinstance(base, EnvD) and attr == "get" and 1 <= len(args) <= 2 and isinstance(args[0], S) and isinstance(args[0].v, str):
            d = self.real_code(args[1], node) if len(args) == 2 else "Num.zero"
            return Rv(f"(dget {base.code} {lean_str(args[0].v)} {d})")
        if isinstance(base, Bv) and attr == "float" and not args:
            return Rv(f"(if {base.code} then Num.one else Num.zero)")
        if isinstance(base, (Rv, Cv)) and attr in ("view", "unsqueeze", "to", "reshape", "broadcast_to", "expand", "contiguous", "clone", "float"):
            return base
        if isinstance(base, Rv):
            x = base.code
            if attr == "square" and not args:
                return Rv(f"({x} * {x})")
            if attr == "sqrt" and not args:
                return Rv(f"(Num.sqrt {x})")
            if attr == "abs" and not args:
                return Rv(f"(Num.abs {x})")
            if attr in ("clip", "clamp", "clamp_min"):
                lo = args[0] if args else kwargs.get("min")
                hi = args[1] if len(args) > 1 else kwargs.get("max")
                if lo is not None and hi is not None and attr != "clamp_min":
                    return Rv(f"(Num.clip {x} {self.real_code(lo, node)} {self.real_code(hi, node)})")
                if lo is not None and len(args) <= 1 and set(kwargs) <= {"min"}:
                    return Rv(f"(Num.max {x} {self.real_code(lo, node)})")
            if attr == "reciprocal" and not args:
                return Rv(f"((Num.ofRat 1) / {x})")
            if attr == "sum" and len(args) == 1 and isinstance(args[0], S) and args[0].v == 0 and not kwargs:
                return BSum(x, "batch")
            if attr == "sum" and not args and not kwargs:
                return BSum(x, "mask")
            if attr == "max" and not args and not kwargs:
                self.notes.setdefault("max_of", []).append(x)
                return Rv("power_max")
        if isinstance(base, Cv):
            z = base.code
            if attr == "conj" and not args:
                return Cv(f"(Cx.conj {z})")
            if attr == "abs" and not args:
                return Rv(f"(Cx.abs {z})")
        if isinstance(base, Bv) and attr == "to":
            return Rv(f"(if {base.code} then Num.one else Num.zero)")
        bad(node, f"method .{attr}() outside the grammar")

    def inline(self, node, fn: PyFn, args, kwargs):
        a = fn.node.args
        names = [x.arg for x in a.args]
        sc = dict(fn.closure)
        dflt = dict(zip(names[len(names) - len(a.defaults):], a.defaults))
        for n, v in zip(names, args):
            sc[n] = v
        for n in names[len(args):]:
            if n in kwargs:
                sc[n] = kwargs[n]
            elif n in dflt:
                sc[n] = self.ev(dflt[n], fn.closure)
            else:
                bad(node, f"missing argument {n}")
        try:
            self.exec_block(fn.node.body, sc)
        except _Return as r:
            return r.v
        bad(node, "local function without return")

    def call_translated(self, node, name, args, kwargs):
        sig = self.tr.ensure(name)
        fn = self.tr.cp.funcs[name]
        names = [x.arg for x in fn.args.args]
        dflt = dict(zip(names[len(names) - len(fn.args.defaults):], fn.args.defaults))
        bound = {}
        for n, v in zip(names, args):
            bound[n] = v
        if len(args) > len(names):
            bad(node, "too many arguments")
        for k, v in kwargs.items():
            if k not in names or k in bound:
                bad(node, f"bad keyword {k}")
            bound[k] = v
        code = [name.lstrip("_")]
        for p, kind in sig:
            if p not in bound:
                if p in dflt:
                    bound[p] = Interp(self.tr.cp, self.tr).ev(dflt[p], {})
                else:
                    bad(node, f"missing argument {p} of {name}")
            v = bound[p]
            if isinstance(kind, tuple):
                if not (isinstance(v, S) and v.v == kind[1]):
                    bad(node, f"{name}: parameter {p} must be {kind[1]!r} on this path")
                continue
            if kind == "R":
                code.append(self.real_code(v, node))
            elif kind == "C":
                if not isinstance(v, Cv):
                    bad(node, f"{name}: {p} must be complex")
                code.append(v.code)
            elif kind == "B":
                code.append(self.bool_code(v, node))
            elif kind == "env":
                if isinstance(v, S) and v.v == ():
                    code.append("[]")
                elif isinstance(v, EnvD):
                    code.append(v.code)
                else:
                    bad(node, f"{name}: {p} must be the coefficient dict")
            elif kind == "R2":
                if isinstance(v, Tv) and len(v.items) == 2:
                    code += [self.real_code(v.items[0], node), self.real_code(v.items[1], node)]
                else:
                    bad(node, f"{name}: {p} must be a pair")
        call = "(" + " ".join(code) + ")"
        r = RET[name]
        if r == "R":
            return Rv(call)
        if r == "C":
            return Cv(call)
        v = self.em.let(name.lstrip("_") + "_ret", call)
        return Tv([Rv(f"{v}.1"), Rv(f"{v}.2")])

    def bool_code(self, v, node):
        if isinstance(v, S) and isinstance(v.v, bool):
            return "true" if v.v else "false"
        if isinstance(v, Bv):
            return v.code
        bad(node, "expected a flag")

    # ---- statements ----------------------------------------------------------------------------------
    def exec_block(self, stmts, sc):
        for i, s in enumerate(stmts):
            if isinstance(s, ast.If):
                if self.ex_If(s, sc, stmts[i + 1:]):
                    return
                continue
            if self.lenient:
                try:
                    self.exec_stmt(s, sc)
                except Untranslatable as e:
                    for n in assigned_names([s]):
                        if n not in sc.get("__pinned__", ()):
                            sc[n] = Poison(str(e)[:120])
            else:
                self.exec_stmt(s, sc)

    def exec_stmt(self, s, sc):
        if isinstance(s, ast.Expr):
            if isinstance(s.value, ast.Constant) and isinstance(s.value.value, str):
                return
            c = s.value
            inpl = {"mul_": ast.Mult, "div_": ast.Div, "add_": ast.Add, "sub_": ast.Sub}
            if isinstance(c, ast.Call) and isinstance(c.func, ast.Attribute) and c.func.attr in inpl and len(c.args) == 1 \
                    and not c.keywords and isinstance(c.func.value, ast.Name):
                # x.mul_(e) as a statement: x = x * e
                fake = ast.BinOp(left=_load(c.func.value), op=inpl[c.func.attr](), right=c.args[0])
                ast.copy_location(fake, s)
                ast.fix_missing_locations(fake)
                self.assign(c.func.value, self.ev(fake, sc), sc, s)
                return
            if self.lenient:
                return
            bad(s, "expression statement outside the grammar")
        if isinstance(s, ast.Pass):
            return
        if isinstance(s, ast.FunctionDef):
            sc[s.name] = PyFn(s, sc)
            return
        if isinstance(s, ast.Return):
            raise _Return(self.ev(s.value, sc) if s.value is not None else S(None))
        if isinstance(s, ast.Assign):
            if len(s.targets) != 1:
                bad(s, "chained assignment")
            self.assign(s.targets[0], self.ev(s.value, sc), sc, s)
            return
        if isinstance(s, ast.AugAssign):
            fake = ast.BinOp(left=_load(s.target), op=s.op, right=s.value)
            ast.copy_location(fake, s)
            ast.fix_missing_locations(fake)
            self.assign(s.target, self.ev(fake, sc), sc, s)
            return
        if isinstance(s, ast.For) and self.lenient:
            for n in assigned_names(s.body):
                if n in sc.get("__loop_results__", {}):
                    if not isinstance(sc.get(n), S):          # `power` stays None for the single-pass kernels
                        sc[n] = sc["__loop_results__"][n]
                elif isinstance(sc.get(n), Cv) and sc[n].code == "fourier_factor":
                    pass                                   # the work buffer, whatever it is called
                elif n not in sc.get("__pinned__", ()):
                    sc[n] = Poison("assigned inside a loop")
            return
        bad(s, f"statement {type(s).__name__} outside the grammar")

    def assign(self, t, v, sc, s):
        if isinstance(t, ast.Name):
            if t.id in sc.get("__pinned__", ()):
                return
            if isinstance(v, Rv):
                v = Rv(self.em.let(t.id, v.code))
            elif isinstance(v, Cv) and v.code == "fourier_factor":
                pass
            elif isinstance(v, Cv):
                v = Cv(self.em.let(t.id, v.code))
            elif isinstance(v, BSum) and self.lenient:
                # a total over the mask pixels: downstream code sees a real parameter of that name
                sc.setdefault("__bsum__", {})[t.id] = v
                v = Rv(ident(t.id))
            sc[t.id] = v
            return
        if isinstance(t, ast.Tuple):
            if isinstance(v, S) and isinstance(v.v, tuple):
                v = Tv([S(x) for x in v.v])
            if not isinstance(v, Tv) or len(v.items) != len(t.elts):
                bad(s, "tuple assignment shape")
            vals = []
            for x in v.items:      # evaluate all right-hand sides before binding (simultaneous assignment)
                if isinstance(x, Rv):
                    x = Rv(self.em.let("t", x.code))
                elif isinstance(x, Cv):
                    x = Cv(self.em.let("t", x.code))
                vals.append(x)
            for e, x in zip(t.elts, vals):
                self.assign(e, x, sc, s)
            return
        if isinstance(t, ast.Subscript) and isinstance(t.value, ast.Name):
            # x[0, 0] = c on a scan-grid tensor
            idx = self.ev(t.slice, sc)
            old = sc.get(t.value.id)
            if isinstance(idx, S) and idx.v == (0, 0) and isinstance(old, (Rv, Cv)):
                if isinstance(old, Cv):
                    if not (is_numS(v) and frac_of(v.v) == 0):
                        bad(s, "only `x[0, 0] = 0` is supported on complex tensors")
                    sc[t.value.id] = Cv(self.em.let(t.value.id, f"(if dc then Cx.zero else {old.code})"))
                else:
                    sc[t.value.id] = Rv(self.em.let(t.value.id, f"(if dc then {self.real_code(v, s)} else {old.code})"))
                self.notes["uses_dc"] = True
                return
            bad(s, "indexed assignment outside the grammar")
        if isinstance(t, ast.Attribute) and isinstance(t.value, ast.Name) and t.value.id == "self":
            sc["self." + t.attr] = v
            return
        bad(s, "assignment target outside the grammar")

    def ex_If(self, s, sc, rest):
        """returns True if the enclosing block has returned (through _Return raised here)"""
        try:
            cond = self.truth(self.ev(s.test, sc), s)
        except Untranslatable as e:
            if not self.lenient:
                raise
            for n in assigned_names(s.body + s.orelse):
                if n not in sc.get("__pinned__", ()):
                    sc[n] = Poison(str(e)[:120])
            return False
        if isinstance(cond, S):
            self.exec_block(s.body if cond.v else s.orelse, sc)
            return False
        # dynamic condition: run both branches on copies, merge what they assign
        outs = []
        for body in (s.body, s.orelse):
            sub = Interp(self.mod, self.tr, self.lenient)
            sub.em.counter = self.em.counter          # shared SSA counters (fresh names stay unique)
            sub.notes = self.notes
            bsc = dict(sc)
            ret = None
            try:
                sub.exec_block(body, bsc)
            except _Return as r:
                ret = r.v
            outs.append((sub.em.lines, bsc, ret))
        (l1, sc1, r1), (l2, sc2, r2) = outs
        if r1 is not None or r2 is not None:
            if r1 is None or r2 is None:
                # `if c: return A` followed by the rest of the block
                sub = Interp(self.mod, self.tr, self.lenient)
                sub.em.counter = self.em.counter
                sub.notes = self.notes
                bsc = dict(sc2 if r1 is not None else sc1)
                sub.em.lines = list(l2 if r1 is not None else l1)
                try:
                    sub.exec_block(rest, bsc)
                    bad(s, "a branch returns and the rest of the block does not")
                except _Return as r:
                    if r1 is None:
                        r1, l1 = r.v, sub.em.lines
                    else:
                        r2, l2 = r.v, sub.em.lines
            raise _Return(self.merge(cond, l1, r1, l2, r2, s))
        changed = [n for n in dict.fromkeys(list(sc1) + list(sc2))
                   if not n.startswith("__") and (sc1.get(n) is not sc.get(n) or sc2.get(n) is not sc.get(n))]
        for n in changed:
            a, b = sc1.get(n), sc2.get(n)
            if a is None or b is None:
                sc[n] = Poison("assigned in one branch only")
                continue
            try:
                m = self.merge(cond, l1, a, l2, b, s)
            except Untranslatable as e:
                if not self.lenient:
                    raise
                sc[n] = Poison(str(e)[:120])
                continue
            if isinstance(m, Rv):
                m = Rv(self.em.let(n, m.code))
            elif isinstance(m, Cv):
                m = Cv(self.em.let(n, m.code))
            sc[n] = m
        return False

    def merge(self, cond, l1, a, l2, b, node):
        def block(lines, code):
            return "(" + "".join(ln + "; " for ln in lines) + code + ")"
        if isinstance(a, Poison) or isinstance(b, Poison):
            bad(node, "branch value not translatable")
        if isinstance(a, S) and isinstance(b, S) and a.v == b.v:
            return a
        if isinstance(a, (Rv, S)) and isinstance(b, (Rv, S)) and (isinstance(a, Rv) or is_numS(a)) and (isinstance(b, Rv) or is_numS(b)):
            return Rv(f"(if {cond.code} then {block(l1, self.real_code(a, node))} else {block(l2, self.real_code(b, node))})")
        if isinstance(a, Cv) and isinstance(b, Cv):
            return Cv(f"(if {cond.code} then {block(l1, a.code)} else {block(l2, b.code)})")
        if isinstance(a, Tv) and isinstance(b, Tv) and len(a.items) == len(b.items):
            return Tv([self.merge(cond, l1, x, l2, y, node) for x, y in zip(a.items, b.items)])
        bad(node, "branches give values of different kinds")


def _load(t):
    t2 = ast.parse(ast.unparse(t), mode="eval").body
    return t2


def assigned_names(stmts):
    out = []
    for s in stmts:
        for n in ast.walk(s):
            if isinstance(n, (ast.Assign, ast.AugAssign, ast.AnnAssign)):
                ts = n.targets if isinstance(n, ast.Assign) else [n.target]
                for t in ts:
                    for m in ast.walk(t):
                        if isinstance(m, ast.Name):
                            out.append(m.id)
    return list(dict.fromkeys(out))


# ---------------------------------------------------------------------------------------------------------

PRELUDE = '''import QuantemModel.Core.Cx
/-!
GENERATED by harness/translator/dpkernel2lean.py from the function bodies in
  src/quantem/diffractive_imaging/complex_probe.py and src/quantem/diffractive_imaging/direct_ptychography.py
— regenerated on every `./check C04`; do not edit by hand.  One grid point / one detector pixel per call; every Python
assignment is an SSA `let`.  `Props/C04.lean` proves `generated = spec` for these definitions.
-/
set_option linter.unusedVariables false
namespace QuantemModel.Generated.DirectKernel
open QuantemModel

variable {R : Type} [Num R]

/-- `x ** n` for a natural exponent -/
def npow (x : R) : Nat → R
  | 0 => Num.one
  | n + 1 => npow x n * x

/-- `d.get(k, default)` on an insertion-ordered dict -/
def dget : List (String × R) → String → R → R
  | [], _, d => d
  | (a, v) :: rest, k, d => if k = a then v else dget rest k d

/-- `k in d` -/
def hasKey : List (String × R) → String → Bool
  | [], _ => false
  | (a, _) :: rest, k => k = a || hasKey rest k

/-- `any(k in d for k in keys)` -/
def hasAny (d : List (String × R)) (keys : List String) : Bool := keys.any (hasKey d)

/-- `torch.exp` of a complex number -/
def cexp (z : Cx R) : Cx R := Cx.smul (Num.exp z.re) (Cx.cis z.im)

/-- complex / real -/
def cdivR (z : Cx R) (s : R) : Cx R := ⟨z.re / s, z.im / s⟩

/-- `torch.sign` -/
def sgn (x : R) : R := if Num.ltb Num.zero x then Num.one else if Num.ltb x Num.zero then -Num.one else Num.zero

/-- value of a parameter that is `None` or a number, where it is used as a number -/
def optVal : Option R → R
  | some x => x
  | none => Num.zero

/-- Python truthiness of `None` / a float: `None` and `0.0` are falsy -/
def optTruthy : Option R → Bool
  | some x => Num.ltb x Num.zero || Num.ltb Num.zero x
  | none => false

'''


class Translator:
    def __init__(self):
        self.cp = Module(CP)
        self.dp = Module(DP)
        self.done = {}
        self.defs = []
        self.in_progress = set()

    def ensure(self, name):
        if name in self.done:
            return self.done[name]
        if name not in SIGS:
            raise Untranslatable(f"call of {name}, which has no translation signature")
        if name in self.in_progress:
            raise Untranslatable(f"recursive call of {name}")
        fn = self.cp.funcs.get(name)
        if fn is None:
            raise Untranslatable(f"function {name} not found in {CP}")
        self.in_progress.add(name)
        sig = SIGS[name]
        pynames = [a.arg for a in fn.args.args]
        for p, _ in sig:
            if p not in pynames:
                raise Untranslatable(f"{name}: parameter {p} not found (signature changed: {pynames})")
        extra = [p for p in pynames if p not in [q for q, _ in sig]]
        if extra:
            raise Untranslatable(f"{name}: new parameter(s) {extra} have no role")
        it = Interp(self.cp, self)
        sc = {}
        for p, k in sig:
            sc[p] = self.param_value(p, k)
        try:
            it.exec_block(fn.body, sc)
            raise Untranslatable(f"{name}: no return reached")
        except _Return as r:
            v = r.v
        body = self.ret_code(name, RET[name], v)
        self.defs.append(self.render(name.lstrip("_"), lean_params(sig), RET[name], it.em.lines, body,
                                     f"complex_probe.{name}"))
        self.in_progress.discard(name)
        self.done[name] = sig
        return sig

    @staticmethod
    def param_value(p, k):
        if isinstance(k, tuple):
            return S(k[1])
        if k == "R":
            return Rv(ident(p))
        if k == "C":
            return Cv(ident(p))
        if k == "B":
            return Bv(ident(p))
        if k == "env":
            return EnvD(ident(p))
        if k == "R2":
            return Tv([Rv(ident(p) + "_0"), Rv(ident(p) + "_1")])
        if k == "opt":
            return OptR(ident(p))
        if k == "nat":
            return NatV(ident(p))
        raise Untranslatable(f"kind {k}")

    @staticmethod
    def ret_code(name, kind, v):
        if kind == "R" and (isinstance(v, Rv) or is_numS(v)):
            return v.code if isinstance(v, Rv) else rat(frac_of(v.v))
        if kind == "C" and isinstance(v, Cv):
            return v.code
        if kind == "R2" and isinstance(v, Tv) and len(v.items) == 2 and all(isinstance(x, Rv) for x in v.items):
            return f"({v.items[0].code}, {v.items[1].code})"
        raise Untranslatable(f"{name}: return value shape outside the grammar")

    GLOBALS = {"let", "if", "then", "else", "true", "false", "R", "Cx", "Num", "npow", "dget", "hasKey", "hasAny", "cexp", "cdivR",
               "sgn", "optVal", "optTruthy", "Option", "re", "im", "zero", "one", "ofRat", "pi", "sqrt", "cos", "sin", "exp",
               "atan2", "abs", "max", "clip", "leb", "ltb", "smul", "conj", "isNone"}

    @classmethod
    def render(cls, lean_name, params, ret, lines, body, doc):
        # a definition must be closed: every identifier is a parameter, a `let` of this definition, a generated definition or a
        # prelude name — otherwise the source uses a value this slice has no role for, and the translation is refused
        import re
        text_ = re.sub(r'"[^"]*"', '""', " ".join(lines) + " " + body)
        bound = {p for p, _ in params} | set(re.findall(r"let ([A-Za-z_][A-Za-z_0-9]*) :=", text_)) | cls.GLOBALS | set(SIGS) \
            | {n.lstrip("_") for n in SIGS}
        for tok in re.findall(r"(?<![A-Za-z_0-9.])[A-Za-z_][A-Za-z_0-9]*", text_):
            if tok not in bound and not tok.startswith(("kernel_", "reconstruct_")):
                raise Untranslatable(f"{lean_name}: the translated body refers to `{tok}`, which is not a parameter of this definition")
        ty = {"R": "R", "C": "Cx R", "R2": "R × R"}[ret]
        ps = " ".join(f"({p} : {LEAN_TY[k]})" for p, k in params)
        text = f"/-- {doc} -/\ndef {lean_name} {ps} : {ty} :=\n"
        for ln in lines:
            text += f"  {ln}\n"
        return text + f"  {body}\n"

    # ---- _return_kernel_contributions, specialised per kernel -------------------------------------------
    def kernel_contributions(self):
        fn = self.dp.method("DirectPtychography", "_return_kernel_contributions")
        pynames = [a.arg for a in fn.args.args]
        need = ["self", "bf", "deconvolution_kernel", "vbf_fourier", "kxa", "kya", "qxa", "qya", "cmplx_probe_k", "grad_k",
                "sign_sin_chi_q", "aberration_coefs", "batch_idx"]
        if pynames != need:
            raise Untranslatable(f"_return_kernel_contributions: signature changed: {pynames}")
        params = [("vbf_fourier", "C"), ("kx", "R"), ("ky", "R"), ("qxa", "R"), ("qya", "R"), ("probe_k", "C"), ("gx", "R"),
                  ("gy", "R"), ("sign_sin_chi_q", "R"), ("dc", "B"), ("wavelength", "R"), ("semiangle_cutoff", "R"),
                  ("soft_edges", "B"), ("angular_sampling_0", "R"), ("angular_sampling_1", "R"), ("aberration_coefs", "env")]
        two_pass, reductions = [], []
        for kern in KERNELS:
            it = Interp(self.dp, self)
            sc = {"self": Marker("self"), "bf": Marker("bf"), "deconvolution_kernel": S(kern), "vbf_fourier": Cv("vbf_fourier"),
                  "kxa": PixArr(Rv("kx")), "kya": PixArr(Rv("ky")), "qxa": Rv("qxa"), "qya": Rv("qya"),
                  "cmplx_probe_k": PixArr(Cv("probe_k")), "grad_k": PixArr(Tv([Rv("gx"), Rv("gy")])),
                  "sign_sin_chi_q": Rv("sign_sin_chi_q"), "aberration_coefs": EnvD("aberration_coefs"), "batch_idx": Marker("batch"),
                  "__self__": {"wavelength": Rv("wavelength"), "semiangle_cutoff": Rv("semiangle_cutoff"),
                               "soft_edges": Bv("soft_edges"),
                               "angular_sampling": Tv([Rv("angular_sampling_0"), Rv("angular_sampling_1")])}}
            try:
                it.exec_block(fn.body, sc)
                raise Untranslatable("_return_kernel_contributions: no return reached")
            except _Return as r:
                v = r.v
            if not (isinstance(v, Tv) and len(v.items) == 2 and isinstance(v.items[0], Cv)):
                raise Untranslatable(f"_return_kernel_contributions[{kern}]: expected `return fourier_factor, power`")
            self.defs.append(self.render(f"kernel_{kern}_factor", params, "C", it.em.lines, v.items[0].code,
                                         f"`_return_kernel_contributions(deconvolution_kernel=\"{kern}\")[0]` at one grid point of one "
                                         "bright-field pixel"))
            pw = v.items[1]
            if isinstance(pw, S) and pw.v is None:
                continue
            if not (isinstance(pw, BSum) and pw.how == "batch"):
                raise Untranslatable(f"_return_kernel_contributions[{kern}]: power must be `<per-pixel term>.sum(0)` or None")
            two_pass.append(kern)
            reductions.append(pw.how)
            self.defs.append(self.render(f"kernel_{kern}_power_term", params, "R", it.em.lines, pw.code,
                                         f"per-pixel term of `_return_kernel_contributions(\"{kern}\")[1]` (summed over the batch axis "
                                         "by the source)"))
        self.defs.append("/-- kernels for which `_return_kernel_contributions` returns a power image (summed over the batch) -/\n"
                         f"def TWO_PASS_KERNELS : List String := [{', '.join(lean_str(k) for k in two_pass)}]\n")

    # ---- the slice of reconstruct ----------------------------------------------------------------------
    def reconstruct_slice(self):
        fn = self.dp.method("DirectPtychography", "reconstruct")
        pynames = [a.arg for a in fn.args.args]
        for p in ("q_highpass", "q_lowpass", "butterworth_order", "matched_filter_norm_epsilon", "parallax_flip_phase",
                  "deconvolution_kernel"):
            if p not in pynames:
                raise Untranslatable(f"reconstruct: parameter {p} not found")
        results = {}
        for kern in KERNELS:
            it = Interp(self.dp, self, lenient=True)
            pinned = {"aberration_coefs": EnvD("aberration_coefs"), "rotation_angle": Rv("rotation_angle"),
                      "qxa": Rv("qxa"), "qya": Rv("qya"), "kxa": Rv("kxa"), "kya": Rv("kya"), "bf_mask": Marker("mask"),
                      "deconvolution_kernel": S(kern), "verbose": S(False), "use_initial_state": S(False),
                      "fourier_factor": Cv("fourier_factor")}
            sc = dict(pinned)
            sc.update({"self": Marker("self"), "q_lowpass": OptR("q_lowpass"), "q_highpass": OptR("q_highpass"),
                       "butterworth_order": NatV("butterworth_order"), "matched_filter_norm_epsilon": Rv("matched_filter_norm_epsilon"),
                       "parallax_flip_phase": Bv("parallax_flip_phase"),
                       "__pinned__": set(pinned), "__loop_results__": {"power": Rv("power")},
                       "__self__": {"wavelength": Rv("wavelength"), "semiangle_cutoff": Rv("semiangle_cutoff"),
                                    "soft_edges": Bv("soft_edges"),
                                    "angular_sampling": Tv([Rv("angular_sampling_0"), Rv("angular_sampling_1")])}})
            for p in pynames:
                sc.setdefault(p, Poison("parameter without a role"))
            try:
                it.exec_block(fn.body, sc)
            except _Return:
                pass
            results[kern] = (it, sc)
        defs = []

        def slice_def(kern, var, lean_name, params, ret, doc, want=None):
            it, sc = results[kern]
            v = sc.get(var)
            if v is None or isinstance(v, Poison):
                raise Untranslatable(f"reconstruct[{kern}]: `{var}` is not translatable"
                                     + (f": {v.why}" if isinstance(v, Poison) else " (never assigned)"))
            if want == "bsum":
                v = sc.get("__bsum__", {}).get(var)
                if not (isinstance(v, BSum) and v.how == "mask"):
                    raise Untranslatable(f"reconstruct: `{var}` must be `<per-pixel term>.sum()`")
                code = v.code
            elif ret == "R2":
                if not (isinstance(v, Tv) and len(v.items) == 2 and all(isinstance(x, Rv) for x in v.items)):
                    raise Untranslatable(f"reconstruct[{kern}]: `{var}` must be a pair")
                code = f"({v.items[0].code}, {v.items[1].code})"
            else:
                code = self.ret_code(f"reconstruct.{var}", ret, v)
            # keep only the `let`s the result depends on (transitively)
            lines = prune(it.em.lines, code)
            defs.append(self.render(lean_name, params, ret, lines, code, doc))

        geo = [("kxa", "R"), ("kya", "R"), ("wavelength", "R"), ("semiangle_cutoff", "R"), ("soft_edges", "B"),
               ("angular_sampling_0", "R"), ("angular_sampling_1", "R"), ("aberration_coefs", "env")]
        slice_def("ssb", "butterworth_env", "reconstruct_butterworth_env",
                  [("qxa", "R"), ("qya", "R"), ("q_lowpass", "opt"), ("q_highpass", "opt"), ("butterworth_order", "nat")], "R",
                  "`butterworth_env` of `reconstruct` at one scan-frequency grid point")
        slice_def("ssb", "cmplx_probe_k", "reconstruct_probe_k", geo, "C",
                  "`cmplx_probe_k` of `reconstruct` at one (rotated) detector frequency `(kxa, kya)`")
        slice_def("ssb", "BF_weights", "reconstruct_bf_weight_term", geo, "R",
                  "per-pixel term of `BF_weights` (summed over the mask pixels by the source)", want="bsum")
        slice_def("prlx", "grad_k", "reconstruct_grad_k", geo, "R2",
                  "`grad_k` of `reconstruct` (parallax) at one (rotated) detector frequency")
        slice_def("prlx", "sign_sin_chi_q", "reconstruct_sign_sin_chi_q",
                  [("qxa", "R"), ("qya", "R"), ("wavelength", "R"), ("parallax_flip_phase", "B"), ("aberration_coefs", "env")], "R",
                  "`sign_sin_chi_q` of `reconstruct` (parallax) at one scan-frequency grid point")
        for kern in ("obf", "mf"):
            it, _ = results[kern]
            slice_def(kern, "norm", f"reconstruct_norm_{kern}",
                      [("power", "R"), ("power_max", "R"), ("BF_weights", "R"), ("matched_filter_norm_epsilon", "R")], "R",
                      f"`norm` of `reconstruct` for `{kern}` at one grid point; `power` = the accumulated power image there, "
                      "`power_max` = the maximum over the grid of the variable recorded in NORM_MAX_OF")
        mx = results["mf"][0].notes.get("max_of", [])
        it_mf, sc_mf = results["mf"]
        # which expression the `.max()` is taken of: it must be the power image after the division by BF_weights
        pw = sc_mf.get("power")
        if len(mx) != 1 or not isinstance(pw, Rv) or mx[0] != pw.code:
            raise Untranslatable("reconstruct[mf]: `.max()` is not taken of the normalised power image")
        pw_lines = prune(it_mf.em.lines, pw.code)
        defs.append(self.render("reconstruct_power_normalised", [("power", "R"), ("BF_weights", "R")], "R", pw_lines, pw.code,
                                "the power image after `power /= BF_weights` (what `.max()` is taken of)"))
        for kern in ("ssb", "prlx", "icom"):
            if "norm" in results[kern][1] and not isinstance(results[kern][1]["norm"], Poison):
                raise Untranslatable(f"reconstruct[{kern}]: a single-pass kernel got a normalisation")
        slice_def("ssb", "self.corrected_stack", "reconstruct_finish", [("fourier_factor", "C"), ("BF_weights", "R")], "R", "`corrected_stack = fourier_factor.real / BF_weights` at one pixel of one image")
        self.defs += defs


def prune(lines, code):
    """keep the `let`s that `code` depends on"""
    import re
    need = set(re.findall(r"[A-Za-z_][A-Za-z_0-9]*", code))
    keep = []
    for ln in reversed(lines):
        m = re.match(r"let (\S+) := (.*)$", ln)
        if m and m.group(1) in need:
            keep.append(ln)
            need |= set(re.findall(r"[A-Za-z_][A-Za-z_0-9]*", m.group(2)))
    return list(reversed(keep))


def generate():
    tr = Translator()
    for name in ("hard_aperture", "soft_aperture", "aperture", "aberration_surface", "aberration_surface_polar_gradients",
                 "aberration_surface_cartesian_gradients", "evaluate_probe", "polar_coordinates", "_passively_rotate_grid",
                 "gamma_factor"):
        tr.ensure(name)
    tr.kernel_contributions()
    tr.reconstruct_slice()
    return PRELUDE + "\n".join(tr.defs) + "\nend QuantemModel.Generated.DirectKernel\n"


def regenerate(path=OUT):
    """write Generated/DirectKernel.lean if its content changed; returns True if it did.  Raises Untranslatable
    (file left untouched) if the source left the grammar."""
    text = generate()
    old = open(path, encoding="utf-8").read() if os.path.exists(path) else None
    if old != text:
        os.makedirs(os.path.dirname(path), exist_ok=True)
        with open(path + ".tmp", "w", encoding="utf-8") as f:
            f.write(text)
        os.replace(path + ".tmp", path)
    return old != text


if __name__ == "__main__":
    import sys
    try:
        if len(sys.argv) > 1 and sys.argv[1] == "--print":
            print(generate())
        else:
            print(("rewrote " if regenerate() else "unchanged ") + OUT)
    except Untranslatable as e:
        print("Untranslatable:", e)
        sys.exit(1)
