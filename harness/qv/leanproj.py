"""Build the Lean project, audit the axioms of every property theorem."""
import os
import re
import subprocess
import tempfile
import time

from .driver import LEAN_DIR

ALLOWED_AXIOMS = {"propext", "Classical.choice", "Quot.sound"}
FORBIDDEN = re.compile(r"\bsorry\b|\badmit\b|^\s*axiom\s|native_decide|bv_decide|implemented_by|\bunsafe\s|maxHeartbeats\s+0\b", re.M)


def strip_comments(src: str) -> str:
    # remove /- ... -/ (nested) and -- ... comments
    out, i, depth = [], 0, 0
    n = len(src)
    while i < n:
        if src.startswith("/-", i):
            depth += 1
            i += 2
        elif depth and src.startswith("-/", i):
            depth -= 1
            i += 2
        elif depth:
            if src[i] == "\n":
                out.append("\n")
            i += 1
        elif src.startswith("--", i):
            while i < n and src[i] != "\n":
                i += 1
        elif src[i] == '"':
            j = i + 1
            while j < n and src[j] != '"':
                j += 2 if src[j] == "\\" else 1
            out.append('""')
            i = j + 1
        else:
            out.append(src[i])
            i += 1
    return "".join(out)


def project_closure(modules):
    """transitive QuantemModel.* imports of the given modules → list of file paths"""
    seen, todo = {}, list(modules)
    while todo:
        m = todo.pop()
        if m in seen:
            continue
        path = os.path.join(LEAN_DIR, m.replace(".", "/") + ".lean")
        if not os.path.exists(path):
            continue
        seen[m] = path
        for line in strip_comments(open(path).read()).splitlines():
            mm = re.match(r"\s*(?:public\s+)?import\s+(?:all\s+)?(QuantemModel\.\S+)", line)
            if mm:
                todo.append(mm.group(1))
    return sorted(seen.values())


def grep_forbidden(modules=None):
    """forbidden tokens in the files the property's theorems and driver depend on"""
    hits = []
    if modules is None:
        files = []
        for dp, _, fs in os.walk(os.path.join(LEAN_DIR, "QuantemModel")):
            files += [os.path.join(dp, f) for f in fs if f.endswith(".lean")]
    else:
        files = project_closure(modules)
    for p in files:
        code = strip_comments(open(p).read())
        for m in FORBIDDEN.finditer(code):
            line = code.count("\n", 0, m.start()) + 1
            hits.append(f"{os.path.relpath(p, LEAN_DIR)}:{line}:{m.group(0).strip()}")
    return hits


def theorems_in(props_file: str):
    """names of `theorem`s in a Props file, fully qualified by its namespace lines."""
    src = strip_comments(open(props_file).read())
    ns = []
    names = []
    for line in src.splitlines():
        m = re.match(r"\s*namespace\s+(\S+)", line)
        if m:
            ns.append(m.group(1))
            continue
        m = re.match(r"\s*end\s+(\S+)", line)
        if m and ns and ns[-1].split(".")[-1] == m.group(1).split(".")[-1]:
            ns.pop()
            continue
        m = re.match(r"\s*(?:@\[[^\]]*\]\s*)?(?:protected\s+)?theorem\s+(\S+)", line)   # private helpers are not obligations
        if m:
            names.append(".".join(ns + [m.group(1)]))
    return names


def run(cmd, timeout, cwd=LEAN_DIR):
    t0 = time.time()
    try:
        r = subprocess.run(cmd, cwd=cwd, capture_output=True, text=True, timeout=timeout)
        return r.returncode, r.stdout + r.stderr, time.time() - t0
    except subprocess.TimeoutExpired as e:
        return 124, f"timeout after {timeout}s: {e}", time.time() - t0


def build(targets, timeout=3000, clean=False):
    if clean:
        for t in targets:
            rel = t.replace(".", "/")
            for ext in ("olean", "ilean", "trace", "olean.hash", "ilean.hash"):
                p = os.path.join(LEAN_DIR, ".lake", "build", "lib", "lean", rel + "." + ext)
                if os.path.exists(p):
                    os.remove(p)
    return run(["lake", "build"] + targets, timeout)


def audit(prop_id: str, timeout=1800, module=None):
    """Returns dict(obligations=[...], discharged=[...], failed={name: reason}, log).
    `module` (default QuantemModel.Props.<prop_id>): the Props module whose theorems are the obligations."""
    module = module or f"QuantemModel.Props.{prop_id}"
    props_file = os.path.join(LEAN_DIR, module.replace(".", "/") + ".lean")
    names = theorems_in(props_file)
    res = {"obligations": names, "discharged": [], "failed": {}, "log": ""}
    if not names:
        res["failed"]["<none>"] = "no theorem found in Props file"
        return res
    with tempfile.NamedTemporaryFile("w", suffix=".lean", dir=LEAN_DIR, prefix=".audit_", delete=False) as f:
        f.write(f"import {module}\n")
        for n in names:
            f.write(f"#print axioms {n}\n")
        tmp = f.name
    try:
        rc, out, _ = run(["lake", "env", "lean", tmp], timeout)
    finally:
        os.remove(tmp)
    res["log"] = out[-4000:]
    seen = {}
    # "'X' depends on axioms: [a, b]" (possibly wrapped over lines) / "'X' does not depend on any axioms"
    for m in re.finditer(r"'(\S+)' depends on axioms: \[([^\]]*)\]", out):
        seen[m.group(1)] = {a.strip() for a in m.group(2).replace("\n", " ").split(",") if a.strip()}
    for m in re.finditer(r"'(\S+)' does not depend on any axioms", out):
        seen[m.group(1)] = set()
    for n in names:
        if n not in seen:
            res["failed"][n] = "not elaborated (build/audit error)"
        else:
            extra = seen[n] - ALLOWED_AXIOMS
            if extra:
                res["failed"][n] = "axioms: " + ",".join(sorted(extra))
            else:
                res["discharged"].append(n)
    res["axioms_used"] = sorted(set().union(*seen.values())) if seen else []
    return res


def leanchecker(modules, timeout=3000):
    return run(["lake", "env", "leanchecker"] + modules, timeout)
