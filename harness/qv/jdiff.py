"""first differing path between two JSON-like values (for compact reports)"""
import json


def first_diff(a, b, path="$"):
    if type(a) != type(b) and not (isinstance(a, (int, float)) and isinstance(b, (int, float)) and not isinstance(a, bool) and not isinstance(b, bool)):
        return path, a, b
    if isinstance(a, dict):
        for k in list(a.keys()) + [k for k in b.keys() if k not in a]:
            if k not in a:
                return f"{path}.{k}", "<absent>", b[k]
            if k not in b:
                return f"{path}.{k}", a[k], "<absent>"
            d = first_diff(a[k], b[k], f"{path}.{k}")
            if d:
                return d
        return None
    if isinstance(a, list):
        if len(a) != len(b):
            # find first differing element anyway
            for i in range(min(len(a), len(b))):
                d = first_diff(a[i], b[i], f"{path}[{i}]")
                if d:
                    return d
            return f"{path}.len", len(a), len(b)
        for i in range(len(a)):
            d = first_diff(a[i], b[i], f"{path}[{i}]")
            if d:
                return d
        return None
    return None if a == b else (path, a, b)


def short(v, n=300):
    s = json.dumps(v, default=str)
    return s if len(s) <= n else s[: n - 3] + "..."
