"""Talk to a Lean model driver (`lake env lean --run QuantemModel/Driver/<id>.lean`)."""
import json
import os
import struct
import subprocess

LEAN_DIR = os.path.join(os.path.dirname(os.path.dirname(os.path.dirname(os.path.abspath(__file__)))), "lean")


def f2b(x: float) -> int:
    return struct.unpack("<Q", struct.pack("<d", float(x)))[0]


def b2f(n: int) -> float:
    return struct.unpack("<d", struct.pack("<Q", int(n)))[0]


class Driver:
    def __init__(self, name: str):
        self.name = name
        path = f"QuantemModel/Driver/{name}.lean"
        self.p = subprocess.Popen(
            ["lake", "env", "lean", "--run", path],
            cwd=LEAN_DIR, stdin=subprocess.PIPE, stdout=subprocess.PIPE, text=True, bufsize=1 << 20,
        )
        self.n = 0

    def ask(self, obj):
        self.p.stdin.write(json.dumps(obj, separators=(",", ":")) + "\n")
        self.p.stdin.flush()
        line = self.p.stdout.readline()
        if not line:
            raise RuntimeError(f"driver {self.name} died (after {self.n} requests)")
        self.n += 1
        return json.loads(line)

    def ask_many(self, objs):
        """Pipeline many requests (driver answers in order).  Groups are bounded in bytes so
        that requests + answers never fill both pipe buffers (deadlock)."""
        out = []
        lines = [json.dumps(o, separators=(",", ":")) + "\n" for o in objs]
        i = 0
        while i < len(lines):
            j, size = i, 0
            while j < len(lines) and (j == i or (size + len(lines[j]) < 16384 and j - i < 64)):
                size += len(lines[j])
                j += 1
            self.p.stdin.write("".join(lines[i:j]))
            self.p.stdin.flush()
            for _ in range(j - i):
                line = self.p.stdout.readline()
                if not line:
                    raise RuntimeError(f"driver {self.name} died")
                out.append(json.loads(line))
            i = j
        self.n += len(objs)
        return out

    def close(self):
        try:
            self.p.stdin.close()
            self.p.wait(timeout=20)
        except Exception:
            self.p.kill()
