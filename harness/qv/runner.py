"""./check <id> [--tier quick|thorough] [--replay file]  — see DESIGN.md §2."""
import argparse
import importlib
import json
import os
import sys
import time
import traceback

from . import leanproj
from .ctx import Ctx, VERIF
from .prng import Rng

TRUSTED_COMMON = [
    "Lean 4.33 kernel; axioms allowed: propext, Classical.choice, Quot.sound (audited by #print axioms on every property theorem on every run)",
    "Mathlib v4.33 as compiled on the image (single modules imported by proof files only)",
    "hand-written Lean model tied to /repo by the correspondence harness (generators, canonicalisation, tolerance rule) in /verif/harness",
    "CPython/NumPy/torch/zarr semantics are modelled, not verified; IEEE rounding is outside every theorem",
]


def write_evidence(ctx, mod, lean, violations, wall):
    level = getattr(mod, "LEVEL", "proof")
    cov = {
        "evaluations": ctx.evaluations,
        "distinct_nontrivial": len(ctx.nontrivial),
        "rule": ctx.rule or getattr(mod, "RULE", ""),
        "samples": ctx.samples[:6] or [{"note": "no case generated"}],
        "obligations": len(lean["obligations"]),
        "discharged": len(lean["discharged"]),
        "obligation_names": lean["obligations"],
        "undischarged": lean["failed"],
        "axioms_used": lean.get("axioms_used", []),
        "checker_cmd": lean["checker_cmd"],
        "trusted_base": TRUSTED_COMMON + list(getattr(mod, "TRUSTED", [])),
        "explanation": ctx.explanation or getattr(mod, "EXPLANATION", ""),
        "input_distribution": dict(sorted(ctx.dist.items())),
        "measured": ctx.stats,
        "correspondence_disagreements": len(ctx.disagreements),
        "predicate_failures": len(ctx.pred_failures),
        "known_findings_hit": list(ctx.known_hits.keys()),
        "forbidden_token_hits": lean["forbidden"],
    }
    if lean.get("translator_note"):
        cov["translator_fallback"] = ("the source-to-Lean translator could not follow the current source (" + lean["translator_note"][:300] +
                                      "); the last good translation stayed in place and this run's tie rests on the correspondence streams alone")
    if ctx.exhaustive is not None:
        cov["exhaustive"] = bool(ctx.exhaustive)
    cov.update(ctx.extra)
    ev = {
        "property_id": ctx.prop_id,
        "tier": ctx.tier,
        "seed": ctx.seed,
        "level": level,
        "coverage": cov,
        "assumptions": list(getattr(mod, "ASSUMPTIONS", [])) + ctx.assumptions,
        "wall_s": round(wall, 2),
        "violations": violations,
    }
    os.makedirs(os.path.join(VERIF, "evidence"), exist_ok=True)
    p = os.path.join(VERIF, "evidence", f"{ctx.prop_id}.json")
    with open(p + ".tmp", "w") as f:
        json.dump(ev, f, indent=1, default=str)
    os.replace(p + ".tmp", p)


def lean_stage(prop_id, tier, mod):
    targets = [f"QuantemModel.Props.{prop_id}", f"QuantemModel.Driver.{prop_id}"]
    out = {"obligations": [], "discharged": [], "failed": {}, "forbidden": [], "log": "", "infra": None}
    cmd = f"cd lean && lake build {' '.join(targets)} && lake env lean <generated audit: #print axioms of every theorem in QuantemModel/Props/{prop_id}.lean>"
    pre = getattr(mod, "pregenerate", None)
    if pre is not None:
        # A translator that cannot FOLLOW the current source (construct outside its grammar / tracer) leaves the last
        # good Generated/*.lean in place.  That is not by itself a broken proof: the theorems still hold of the
        # executable model, and that model is still compared with the current code by the correspondence streams of
        # this run.  It is recorded as `translator_note`; the verdict (see main) treats it as a broken tie only when
        # something else is wrong too (an obligation, a disagreement, a predicate failure) — a translation that
        # SUCCEEDS and yields different formulas breaks the `generated = model` obligations as before.
        try:
            note = pre()
            if note:
                out["translator_note"] = str(note)
        except Exception as e:  # translator cannot translate the current source any more
            out["translator_note"] = f"{type(e).__name__}: {e}"
    rc, log, dt = leanproj.build(targets, clean=(tier == "thorough"))
    out["build_s"] = round(dt, 1)
    if rc == 124:
        out["infra"] = "lake build timed out"
        out["checker_cmd"] = cmd
        return out
    if rc != 0:
        out["log"] = log[-3000:]
        # the driver must exist for the correspondence; try it alone
        rc2, log2, _ = leanproj.build([targets[1]])
        if rc2 != 0:
            out["failed"]["<driver-build>"] = "driver does not build"
            out["log"] += log2[-2000:]
    a = leanproj.audit(prop_id)
    out["obligations"] = a["obligations"]
    out["discharged"] = a["discharged"]
    out["failed"].update(a["failed"])
    out["axioms_used"] = a.get("axioms_used", [])
    if a["failed"]:
        out["log"] += a["log"]
    # EXTRA_PROPS: further Props modules of this property (e.g. theorems that tie a freshly translated Generated file to
    # the model).  They are built and audited on their own, so that a tie theorem that no longer proves shows up as exactly
    # that obligation undischarged and does not make every other theorem of the property "not elaborated".
    for extra in getattr(mod, "EXTRA_PROPS", []):
        rc_x, log_x, _ = leanproj.build([extra])
        ax = leanproj.audit(prop_id, module=extra)
        out["obligations"] += ax["obligations"]
        out["discharged"] += ax["discharged"]
        out["failed"].update({k: v for k, v in ax["failed"].items() if k != "<none>"})
        out["axioms_used"] = sorted(set(out.get("axioms_used", [])) | set(ax.get("axioms_used", [])))
        if rc_x != 0 or ax["failed"]:
            out["log"] += log_x[-1500:] + ax["log"][-1500:]
        targets = targets + [extra]
    out["forbidden"] = leanproj.grep_forbidden(targets)
    if out["forbidden"]:
        out["failed"]["<forbidden-tokens>"] = "; ".join(out["forbidden"][:5])
    if tier == "thorough":
        rc, log, dt = leanproj.leanchecker([f"QuantemModel.Props.{prop_id}"])
        out["leanchecker_s"] = round(dt, 1)
        cmd += f" && lake env leanchecker QuantemModel.Props.{prop_id}"
        if rc == 124:
            out["leanchecker"] = "timeout (not counted)"
        elif rc != 0:
            out["failed"]["<leanchecker>"] = log[-500:]
        else:
            out["leanchecker"] = "ok"
    out["checker_cmd"] = cmd
    return out


def write_replay(ctx, payload, tag):
    os.makedirs(os.path.join(VERIF, "replay"), exist_ok=True)
    p = os.path.join(VERIF, "replay", f"{ctx.prop_id}-{ctx.seed}-{tag}.json")
    payload = dict(payload)
    payload.update({"property": ctx.prop_id, "seed": ctx.seed, "tier": ctx.tier,
                    "replay_cmd": f"./check {ctx.prop_id} --replay replay/{os.path.basename(p)}"})
    with open(p, "w") as f:
        json.dump(payload, f, indent=1, default=str)
    return os.path.relpath(p, VERIF)


def main(argv=None):
    ap = argparse.ArgumentParser()
    ap.add_argument("prop")
    ap.add_argument("--tier", default=os.environ.get("VERIF_TIER", "quick"))
    ap.add_argument("--replay")
    ap.add_argument("--no-lean", action="store_true", help="development only: skip build/audit")
    args = ap.parse_args(argv)
    tier = args.tier if args.tier in ("quick", "thorough") else "quick"
    seed = int(os.environ.get("VERIF_SEED", "0") or 0)
    pid = args.prop
    t0 = time.time()
    try:
        mod = importlib.import_module(f"props.{pid.lower()}")
    except Exception:
        traceback.print_exc()
        print(f"INFRA-ERROR: cannot import harness module for {pid}")
        return 2
    ctx = Ctx(pid, tier, seed, Rng(seed))
    try:  # the code under test must be the tree QVERIF_REPO points at (default /repo)
        import quantem
        root = os.path.realpath(os.environ.get("QVERIF_REPO", "/repo"))
        if not os.path.realpath(quantem.__file__).startswith(root + os.sep):
            print(f"INFRA-ERROR: quantem imported from {quantem.__file__}, expected under {root}")
            return 2
    except Exception:
        traceback.print_exc()
        print("INFRA-ERROR: cannot import quantem")
        return 2

    if args.replay:
        case = json.load(open(args.replay))
        try:
            ok = mod.replay(ctx, case)
        except Exception:
            traceback.print_exc()
            return 2
        if ctx.pred_failures or ctx.disagreements or not ok:
            print(json.dumps({"pred_failures": ctx.pred_failures[:3], "disagreements": ctx.disagreements[:3]}, indent=1, default=str)[:4000])
            print(f"VIOLATION property={pid} replay={args.replay}")
            return 1
        print("replay: property holds on this input now")
        return 0

    try:
        if args.no_lean:
            lean = {"obligations": [], "discharged": [], "failed": {}, "forbidden": [], "log": "", "infra": None, "checker_cmd": "skipped"}
        else:
            lean = lean_stage(pid, tier, mod)
        if lean.get("infra"):
            print("INFRA-ERROR:", lean["infra"])
            return 2
        if "<driver-build>" in lean["failed"]:
            print(lean["log"])
            print("INFRA-ERROR: model driver does not build")
            return 2
        t_run = time.time()
        mod.run(ctx)
        t_run = time.time() - t_run
        if lean.get("translator_note") and (lean["failed"] or ctx.disagreements or ctx.pred_failures):
            lean["failed"]["<translator>"] = lean["translator_note"]
        tie_broken = bool(lean["failed"]) or bool(ctx.disagreements)
        if tie_broken and not ctx.pred_failures and hasattr(mod, "run"):
            # a broken proof / correspondence is not by itself a violation: search the
            # implementation for a concrete failing input with an extended budget
            ctx.search_mode = True
            # extended budget: up to 10x the tier's cases, but bounded so that the search itself
            # stays within ~5 min (quick) / ~20 min (thorough) of wall-clock
            budget = 1200.0 if tier == "thorough" else 300.0
            ctx.search_factor = max(1.0, min(10.0, budget / max(t_run, 1.0)))
            ctx.rng = Rng(seed ^ 0x5EA4C4)
            keep = list(ctx.disagreements)
            (getattr(mod, "search", None) or mod.run)(ctx)
            ctx.disagreements = keep + [d for d in ctx.disagreements if d not in keep][: ctx.max_keep]
    except Exception as e:
        traceback.print_exc()
        # An exception that escapes from the REAL code (a frame inside <repo>/src/quantem) through a
        # harness that runs to completion on the unchanged tree means the implementation now raises
        # where it did not: the correspondence no longer checks.  That is reported as a broken tie
        # (not as an infrastructure error, which would hide the change); failing inputs found before
        # the crash are still reported as such.
        repo_src = os.path.join(os.path.realpath(os.environ.get("QVERIF_REPO", "/repo")), "src", "quantem")
        frames = traceback.extract_tb(e.__traceback__)
        in_real = [f for f in frames if os.path.realpath(f.filename).startswith(repo_src)]
        in_props = [f for f in frames if "/harness/props/" in f.filename]
        infra_exc = isinstance(e, (MemoryError, BrokenPipeError, TimeoutError, ConnectionError, EOFError)) or \
            (frames and "/harness/qv/driver" in frames[-1].filename)
        if "lean" not in locals() or (not in_real and (not in_props or infra_exc)):
            print("INFRA-ERROR: harness crashed")
            return 2
        if not in_real:
            # The property's own harness code raised while it was digesting what the real code RETURNED
            # (a missing key, a different shape or type): every registered check runs to completion on the
            # unchanged tree for this seed, so the implementation's output has changed in a way the
            # correspondence cannot follow.  That is a broken tie, reported like any other (failing inputs
            # found before the crash are still reported); process / driver / memory failures stay exit 2.
            hf = in_props[-1]
            ctx.disagreements.append({
                "stream": "harness-cannot-interpret-implementation",
                "case": {"harness_frame": f"{os.path.basename(hf.filename)}:{hf.lineno} in {hf.name}", "source_line": (hf.line or "")[:200]},
                "model": "the harness completes on the unchanged tree",
                "impl": f"{type(e).__name__}: {str(e)[:300]}",
                "note": "the real code returned something the correspondence stream cannot digest (e.g. a missing key or a changed shape)"})
        else:
            last = in_real[-1]
            ctx.disagreements.append({
                "stream": "exception-in-real-code", "case": {"raised_at": f"{os.path.relpath(last.filename, repo_src)}:{last.lineno} in {last.name}",
                                                             "harness_frame": next((f"{os.path.basename(f.filename)}:{f.lineno} in {f.name}"
                                                                                    for f in reversed(frames) if "/harness/props/" in f.filename), "?")},
                "model": "no exception (the harness completes on the unchanged tree)",
                "impl": f"{type(e).__name__}: {str(e)[:300]}",
                "note": "the implementation raised inside a harness stream that does not expect an exception there"})

    if lean.get("translator_note") and "<translator>" not in lean["failed"]:
        print(f"NOTE: translator fallback ({lean['translator_note'][:200]}): all obligations hold of the last good translation and the "
              f"correspondence streams agree with the current code; the tie of this run rests on the correspondence alone")
    for key, text in ctx.known_hits.items():
        print(f"KNOWN-FINDING: property={pid} key={key} {text}")

    violations = 0
    lines = []
    if ctx.pred_failures:
        seen = set()
        for pf in ctx.pred_failures:
            if pf["key"] in seen:
                continue
            seen.add(pf["key"])
            violations += 1
            path = write_replay(ctx, {"kind": "failing-input", **pf,
                                      "broken_obligations": lean["failed"],
                                      "disagreements": ctx.disagreements[:3]}, f"f{violations}")
            lines.append(f"VIOLATION property={pid} replay={path}")
            if violations >= 5:
                break
    elif lean["failed"] or ctx.disagreements:
        violations = 1
        path = write_replay(ctx, {"kind": "no-failing-input-found",
                                  "broken_obligations": lean["failed"],
                                  "lean_log": lean["log"][-3000:],
                                  "correspondence_disagreements": ctx.disagreements[:5],
                                  "searched_evaluations": ctx.evaluations}, "tie")
        lines.append(f"VIOLATION property={pid} replay={path} no-failing-input-found")
    wall = time.time() - t0
    on_repo = os.path.realpath(os.environ.get("QVERIF_REPO", "/repo")) == os.path.realpath("/repo")
    if not on_repo and getattr(mod, "pregenerate", None) is not None and not args.no_lean:
        # a scratch-tree run regenerated lean/QuantemModel/Generated/* from that tree: put the
        # translation of /repo back so that the working tree of /verif stays what /repo says
        try:
            os.environ["QVERIF_REPO"] = "/repo"
            mod.pregenerate()
        except Exception:
            traceback.print_exc()
    if not args.no_lean and on_repo:
        # development runs without the Lean stage, and runs against a scratch tree (seeded
        # changes), never write evidence: evidence comes from /repo itself
        write_evidence(ctx, mod, lean, violations, wall)
    print(f"[{pid}] tier={tier} seed={seed} obligations={len(lean['obligations'])} discharged={len(lean['discharged'])} "
          f"evaluations={ctx.evaluations} distinct_nontrivial={len(ctx.nontrivial)} disagreements={len(ctx.disagreements)} "
          f"pred_failures={len(ctx.pred_failures)} known={len(ctx.known_hits)} wall={wall:.1f}s")
    if lean["failed"]:
        print("undischarged:", json.dumps(lean["failed"], indent=1)[:3000])
    from .jdiff import first_diff, short
    for d in ctx.disagreements[:3]:
        fd = first_diff(d["model"], d["impl"])
        print(f"DISAGREEMENT[{d['stream']}] {d.get('note','')}: first difference at {fd[0] if fd else '?'}: "
              f"model={short(fd[1]) if fd else ''} impl={short(fd[2]) if fd else ''}\n    case={short(d['case'], 700)}")
    for pf in ctx.pred_failures[:3]:
        print(f"PREDICATE-FAILURE[{pf['key']}] {pf['what']}: observed={short(pf['observed'])} required={short(pf['required'])}"
              f"\n    case={short(pf['case'], 700)}")
    for line in lines:
        print(line)
    if os.environ.get("QVERIF_DUMP"):
        # development aid: every kept predicate failure / disagreement of this run as JSON
        with open(os.environ["QVERIF_DUMP"], "w") as f:
            json.dump({"pred_failures": ctx.pred_failures, "disagreements": ctx.disagreements}, f, default=str)
    return 1 if violations else 0


if __name__ == "__main__":
    sys.exit(main())
