"""Run context handed to a property module: counters, samples, disagreement and
predicate-failure collection, known-findings matching."""
import collections
import json
import os
import re
import time

VERIF = os.path.dirname(os.path.dirname(os.path.dirname(os.path.abspath(__file__))))


class KnownFindings:
    def __init__(self, path=os.path.join(VERIF, "known_findings.txt")):
        self.findings = []  # (prop, key, text)
        self.fixed = []
        if os.path.exists(path):
            for line in open(path):
                line = line.strip()
                if not line or line.startswith("#"):
                    continue
                m = re.match(r"finding:\s+property=(\S+)\s+key=(\S+)\s+(.*)", line)
                if m:
                    self.findings.append((m.group(1), m.group(2), m.group(3)))
                    continue
                m = re.match(r"fixed:\s+property=(\S+)\s+(\S+)\s+(.*)", line)
                if m:
                    self.fixed.append((m.group(1), m.group(2), m.group(3)))

    def match(self, prop, key):
        for p, k, text in self.findings:
            if p == prop and k == key:
                return text
        return None


class Ctx:
    def __init__(self, prop_id, tier, seed, rng):
        self.prop_id = prop_id
        self.tier = tier
        self.seed = seed
        self.rng = rng
        self.t0 = time.time()
        self.evaluations = 0
        self.nontrivial = set()
        self.samples = []
        self.dist = collections.Counter()
        self.stats = {}
        self.disagreements = []      # model vs implementation
        self.pred_failures = []      # property fails on the implementation (concrete input)
        self.known_hits = collections.OrderedDict()
        self.kf = KnownFindings()
        self.assumptions = []
        self.rule = ""
        self.explanation = ""
        self.exhaustive = None
        self.extra = {}
        self.search_mode = False     # True while the extended failing-input search runs
        self.search_factor = 10      # budget multiplier of the search (bounded by wall-clock, see runner)
        self.max_keep = 25

    # --- bookkeeping -----------------------------------------------------------------
    def thorough(self):
        return self.tier == "thorough"

    def n(self, quick, thorough):
        k = thorough if self.thorough() else quick
        return int(k * self.search_factor) if self.search_mode else k

    def count(self, k=1):
        self.evaluations += k

    def mark(self, sig):
        """register the signature of a distinct non-trivial case"""
        self.nontrivial.add(sig if isinstance(sig, (str, int, tuple)) else json.dumps(sig, sort_keys=True, default=str))

    def sample(self, case, limit=4):
        if len(self.samples) < limit:
            self.samples.append(case)

    def stat_max(self, name, v):
        if v == v:  # not NaN
            self.stats[name] = max(self.stats.get(name, 0.0), float(v))

    # --- outcomes --------------------------------------------------------------------
    def disagree(self, stream, case, model, impl, note=""):
        if len(self.disagreements) < self.max_keep:
            self.disagreements.append({"stream": stream, "case": case, "model": model, "impl": impl, "note": note})
        else:
            self.dist["disagreements_dropped"] += 1

    def pred_fail(self, key, what, case, observed=None, required=None):
        """the property itself fails on the implementation for a concrete input.
        `key` is the input signature used for known-findings matching."""
        text = self.kf.match(self.prop_id, key)
        if text is not None:
            self.known_hits.setdefault(key, text)
            self.dist["known_finding_hits"] += 1
            return
        if len(self.pred_failures) < self.max_keep:
            self.pred_failures.append({"key": key, "what": what, "case": case, "observed": observed, "required": required})
        else:
            self.dist["pred_failures_dropped"] += 1
