"""SplitMix64: every random choice of a run derives from one state (VERIF_SEED)."""
M = (1 << 64) - 1


class Rng:
    def __init__(self, seed: int):
        # the seed is hashed first: with a plain linear start, Rng(seed+1) would be Rng(seed)
        # advanced by one step, so neighbouring seeds would explore nearly the same stream
        z = (int(seed) ^ 0x5851F42D4C957F2D) & M
        z = ((z ^ (z >> 33)) * 0xFF51AFD7ED558CCD) & M
        z = ((z ^ (z >> 33)) * 0xC4CEB9FE1A85EC53) & M
        self.s = (z ^ (z >> 33)) & M

    def next(self) -> int:
        self.s = (self.s + 0x9E3779B97F4A7C15) & M
        z = self.s
        z = ((z ^ (z >> 30)) * 0xBF58476D1CE4E5B9) & M
        z = ((z ^ (z >> 27)) * 0x94D049BB133111EB) & M
        return z ^ (z >> 31)

    def fork(self, tag: int) -> "Rng":
        return Rng((self.next() ^ (tag * 0xD1342543DE82EF95)) & M)

    def below(self, n: int) -> int:
        return self.next() % n if n > 0 else 0

    def randint(self, a: int, b: int) -> int:  # inclusive
        return a + self.below(b - a + 1)

    def random(self) -> float:
        return (self.next() >> 11) / float(1 << 53)

    def uniform(self, a: float, b: float) -> float:
        return a + (b - a) * self.random()

    def chance(self, p: float) -> bool:
        return self.random() < p

    def choice(self, xs):
        return xs[self.below(len(xs))]

    def weighted(self, pairs):
        tot = sum(w for _, w in pairs)
        r = self.random() * tot
        for x, w in pairs:
            r -= w
            if r < 0:
                return x
        return pairs[-1][0]

    def shuffle(self, xs):
        xs = list(xs)
        for i in range(len(xs) - 1, 0, -1):
            j = self.below(i + 1)
            xs[i], xs[j] = xs[j], xs[i]
        return xs

    def sample(self, xs, k):
        return self.shuffle(xs)[:k]
