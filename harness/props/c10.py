"""C10 — object and probe constraints yield physically admissible models.

Correspondence: Model/Constraints.lean (run at Float through Driver/C10.lean) against the real
`ObjectPixelated.obj` / `apply_hard_constraints`, tomography `ObjectVoxelwise.obj`,
`ProbePixelated.probe` (Gram-Schmidt), `_apply_weights`, `set_initial_probe` / `initial_probe`.
Property predicate: evaluated on the real outputs with NumPy oracles (abs, vdot, fft2)."""
import math

import numpy as np

LEVEL = "proof"
EXTRA_PROPS = ["QuantemModel.Props.C10Ext"]   # growth 6: GS end to end, center_probe, reads without memory
MANIFEST_ENTRY = {
    "category": "proof",
    "text": "Lean 4 theorems (at the real/complex instance of the numeric carrier) over an executable model of "
            "ObjectConstraints.apply_hard_constraints (amplitude clamp / unit amplitude, mean-phase removal, both FOV-mask "
            "multiplications, potential baseline + clamp at zero, slice averaging), the tomography positivity/shrinkage clamp, "
            "the code's sequential Gram-Schmidt (clamp_min(1e-12), original norms restored, intensity sort) and _apply_weights: "
            "complex amplitude <= 1 for masks in [0,1] (with and without slice tying), pure-phase amplitude = 1 for every mask, "
            "potential >= 0 under positivity, identical slices, amplitude idempotence (pure phase: always; complex: no mask or "
            "binary mask, with a machine-checked counterexample at mask value 1/2), Gram-Schmidt orthogonality / intensity "
            "multiset / descending order by induction on the mode index under the clamp-inactive hypothesis (counterexample with "
            "the clamp active), mode intensity = w_k*M and total diffraction intensity = M (Parseval for the model's DFT from the "
            "spectral core shared with C16). The model is tied to the code on every run by Float correspondence through the public "
            "surface (obj_model.obj / apply_hard_constraints, probe_model.probe, _apply_weights, set_initial_probe / initial_probe, "
            "a real preprocessed Ptychography object with the library's own FOV mask; tolerance rule; 4-ulp comparison on a dyadic "
            "Hadamard-mixture stream for Gram-Schmidt) and the property predicate is evaluated on the real outputs. Histories: the "
            "constraints dictionary of BaseConstraints is modelled as a dict state machine (add_constraint / constraints setter / "
            "Ptychography-style per-entry installation; theorems: add_constraint assigns exactly one entry, last writer wins for every "
            "history) and driven through those public paths before the object is read, with the predicate evaluated against the "
            "REQUESTED constraints; set_initial_probe is called 2-4 times on one probe model with different mean intensities "
            "(theorems: requested weights never written, every re-initialisation exact), predicate after every call and after reset(). "
            "Growth round 5: (a) ProbePixelated is modelled as a state machine WITH its validation branches (initial_probe_weights of the wrong "
            "length, set_initial_probe with a conflicting roi_shape or a mean intensity <= 0 / -0.0, probe = a stack of the wrong shape, reset): "
            "theorems probe_rejected_call_changes_nothing, probe_weights_last_accepted (the stored weights are the last ACCEPTED request for every "
            "history of valid and rejected calls) and probe_ops_total (a valid re-initialisation after ANY such history is exact); the stream drives one "
            "model through valid and rejected calls, an identically seeded twin through the valid calls only, compares error kind and state with the "
            "Lean step from the same pre-state and the state with the twin bit for bit after every call, and evaluates the intensity / weight predicate "
            "after every accepted set_initial_probe. (b) several live models of ONE class: a registry of per-instance dictionaries (BaseConstraints.__init__ "
            "copies the class defaults) with theorems models_isolated, other_models_untouched, new_model_gets_defaults, constraints_any_history (last "
            "writer wins for every history including rejected add_constraint calls, setters with an invalid key -- constraints_setter_rejected_prefix -- "
            "resets to the class defaults and operations on other models); the stream builds 2-4 ObjectPixelated / ProbePixelated / tomography "
            "ObjectVoxelwise models, configures any of them (valid and rejected calls), reads EVERY model and evaluates the predicate against that model's "
            "own requests; the class-level default dictionaries are compared with a snapshot and with the defaults declared in the Lean model "
            "(default_constraints_admissible). (c) raw arrays contain exact zeros of either sign, values exactly on the amplitude threshold, infinite "
            "and 1e+-30 magnitudes (complex types), masks contain -0.0; all predicates are NaN-aware. (d) constrained reads in the MIDDLE of a "
            "constraint history (configure, read, reconfigure, read), the reset-to-class-defaults assignment of reset_recon, reset() of the object. "
            "(e) alternative entry point ObjectDIP.obj with an identity network. (f) the tomography dictionary (setter / add_hard_constraint, rejected "
            "keys, python truthiness of the entries modelled in Lean: tomo_nonneg_dict). "
            "Growth round 6 (Props/C10Ext.lean, Model/ConstraintsExt2.lean): the three Gram-Schmidt clauses composed end to end "
            "(gs_intensities_eq_sorted: output intensities = the descending sort of the raw intensities, whatever order -- ascending, unsorted, tied -- "
            "they come in; gs_intensities_order_independent; gs_orthogonal_every_pair by index; gs_length without hypothesis; probe_read_admissible); "
            "center_probe is now modelled (centre of mass of the fftshifted intensity, per-mode Fourier shift through the fourierShift model shared with C16) "
            "with center_keeps_mode_intensity / probe_read_centered_intensities (center_probe on or off, H x W in either role: intensities = descending sort "
            "of the raw ones) and compared through ProbePixelated.probe incl. the centre-of-mass offsets as an internal stage; single-slice objects need no "
            "'slice tying off' hypothesis (purephase_amp_eq_one_single_slice, amp_idempotent_single_slice); the object as a state machine whose reads do not "
            "write (read_has_no_memory, read_after_retype_admissible) with a stream that reads, changes obj_type / a constraint and reads again without an "
            "optimiser step, next to a second live object. A fixed round-6 block enumerates 3/4/5 modes x ascending/descending/unsorted/tied intensities x "
            "H>W / H<W x center on/off, every model read twice and again after its raw parameter was replaced.",
    "note": "Trusted: Lean kernel + propext/Classical.choice/Quot.sound; hand model validated by sampled correspondence only; "
            "IEEE rounding, torch abs/angle/exp/fft2/argsort are modelled not verified. Parseval for the model's O(N^2) dft2 is "
            "imported from Lemmas/PtychoOpsForward.lean (PtychoOps.energy_dft2, built by the C16 check). "
            "Gaussian/Butterworth filters are excluded (as in the quantifier). Known findings: complex objects with "
            "apply_fov_mask=True and a non-binary mask are not amplitude-idempotent; probe stacks whose Gram-Schmidt residual norm "
            "falls below the absolute clamp_min(1e-12) do not keep their intensities (both with machine-checked counterexamples "
            "replayed on the real classes); ObjectDIP.forward hands the raw network output (times the mask) to the forward model, the hard "
            "constraints are applied only by ObjectDIP.obj (finding object-dip-forward-unconstrained; ObjectDIP.obj itself is checked like "
            "ObjectPixelated.obj). Not modelled: ProbeParametric / ProbeDIP (single-mode / network probes). With center_probe=True every mode is shifted by its OWN "
            "centre-of-mass offset: the intensity clauses are proved and checked, the mutual orthogonality of the centred modes is NOT claimed (it is lost, "
            "normalised inner products up to ~0.4 measured; see reports/growth6-C10.md) and only measured. Also not modelled: "
            "the column-shaped weight list [[w1],[w2]] that the length check lets through (the next set_initial_probe raises). In the probe state "
            "machine the random phase ramps are inputs taken from an identically seeded model.",
    "technique": "Lean 4 proof (real-analysis lemmas, induction on the mode index) + model-vs-implementation correspondence",
}
RULE = ("one case = one constrained read of a model built from generated raw parameters; distinct non-trivial = distinct "
        "(stream, precision, object type / mode count, mask kind, apply_fov_mask, identical_slices, slice-count>1, "
        "baseline/positivity flags, correlation bucket, weights kind) with a non-constant raw array; for the history streams "
        "(op-kind prefix of the constraint history / number of set_initial_probe calls, read-back, reset); probe_ops: (precision, modes, "
        "first four op kinds); registry: (class, object type, initial model count, first four op kinds), every read of a live model counts as one case; probe_hard2: (precision, modes, orthogonalize, center, H>W, H<W, "
        "intensity order, tie kind, which read); obj_retype: as the object stream, per read")
TRUSTED = ["torch.abs / angle / exp / clamp / mean / sum / sqrt / fft2(norm='ortho') / argsort(descending) semantics (modelled)",
           "numpy abs / vdot / fft2 as the independent oracle of the predicate"]
ASSUMPTIONS = [
    "every array input (raw object, FOV mask, probe stack, tomography volume, parameter assigned in the pipeline) is drawn over memory-layout "
    "x dtype x container classes with unchanged logical values: C / Fortran order, swapped and permuted views, step-sliced views, negative "
    "strides (numpy; torch.tensor rejects them with ValueError before the anchored code runs: counted, not a failure), numpy vs torch, "
    "32/64-bit real/complex; scalar inputs (mean intensity, baseline factor, shrinkage, slice thickness) as python / numpy / 0-d array / "
    "0-d tensor, weight / roi / sampling sequences as list / tuple / array / tensor; a torch probe stack keeps its own dtype, tolerances "
    "follow the narrower of configuration and input precision",
    "raw parameters are not NaN; complex / pure-phase raw arrays contain magnitudes 1e-3..1e3 and, in 30% of the cases, exact zeros of either "
    "sign, unit-modulus values, +-inf and 1e+-30 entries (the unchanged code returns finite admissible objects for all of them); potential raw "
    "arrays are finite (an infinite potential has no baseline); mode norms 0.1..10",
    "rejected calls of the probe history: weight lists of length 0, 1, n-1, n+1, 2n (not n); set_initial_probe with roi_shape (H, W+1) / (W, H) or "
    "mean intensity 0.0 / -0.0 / negative; probe = stacks of shape (n+-1, H, W) / (n, H, W+1); add_constraint with an unknown key. Other invalid "
    "inputs (scalars, strings, nested lists) are not generated",
    "probe_hard2 stream: centred reads (center_probe=True) are compared at 2e-5 (float64 configuration) because fourier_translation_operator computes "
    "its phase ramp through float32 stages; tied mode intensities are evaluated by the predicate only (torch.argsort is not stable); the centre-of-mass "
    "offsets are observed by wrapping probe_models.fourier_shift_expand (skipped with a note if that name is gone)",
    "obj_retype stream: obj_type is switched between complex and pure_phase only (a potential object has a real raw parameter)",
    "registry stream: all models of one case are of one class and are read at the end of the history; center_probe stays False there; the class defaults "
    "are the snapshot taken at the start of the run (before any model is built)",
    "Gaussian/Butterworth smoothing off (quantifier); with identical_slices=True only slice identity (and, for complex objects, amplitude <= 1) is evaluated",
    "Gram-Schmidt inputs: pairwise correlation <= 0.99, condition number <= 200, mode intensities pairwise >= 2% apart "
    "(torch.argsort is not stable: ties are outside the correspondence); residual norms far above the absolute 1e-12 clamp",
    "float32 configuration is compared with tol 5e-4 (library-forced precision), float64 configuration with 1e-9; "
    "predicate tolerances: 1e-9 (float64) / 2e-5 (float32; 5e-5 for float32 Gram-Schmidt orthogonality/intensities, ~cond*eps32) relative",
    "Gram-Schmidt theorems carry the hypothesis ClampInactive (every residual norm >= 1e-12); the single clamp-active witness of "
    "Props/C10.lean is replayed as a known finding, other clamp-active stacks are not generated",
    "the library stores initial_probe_weights in float32 whatever the configured precision: weight/total-intensity predicates use >= 2e-6",
]
EXPLANATION = ("Theorems in Props/C10.lean are about Model/Constraints.lean; every run drives the real object/probe model classes and the "
               "model with the same generated raw tensors, masks, constraint dictionaries, weights and mean intensities and compares the "
               "constrained arrays; the amplitude / positivity / slice / idempotence / orthogonality / intensity predicates are "
               "evaluated on the real outputs.")

TOL = {"f64": 1e-9, "f32": 5e-4}
PTOL = {"f64": 1e-9, "f32": 2e-5}


# --------------------------------------------------------------------------------------
# encoding helpers
def bits(a):
    return np.ascontiguousarray(np.asarray(a, dtype=np.float64)).view(np.uint64).ravel().tolist()


def enc_real2(a):  # (S, P)
    a = np.asarray(a, dtype=np.float64)
    return [bits(r) for r in a]


def enc_cx_row(r):
    r = np.asarray(r, dtype=np.complex128).ravel()
    out = np.empty(2 * r.size, dtype=np.float64)
    out[0::2] = r.real
    out[1::2] = r.imag
    return bits(out)


def enc_cx2(a):  # (S, P)
    return [enc_cx_row(r) for r in np.asarray(a, dtype=np.complex128)]


def dec_real(row):
    return np.array(row, dtype=np.uint64).view(np.float64)


def dec_real2(rows):
    return np.array([dec_real(r) for r in rows], dtype=np.float64)


def dec_cx_row(row):
    f = dec_real(row)
    return f[0::2] + 1j * f[1::2]


def dec_cx2(rows):
    return np.array([dec_cx_row(r) for r in rows], dtype=np.complex128)


def cx_to_list(a):
    a = np.asarray(a, dtype=np.complex128).ravel()
    return [[float(z.real), float(z.imag)] for z in a]


def cx_from_list(lst, shape):
    return np.array([complex(re, im) for re, im in lst], dtype=np.complex128).reshape(shape)


def set_prec(prec):
    from quantem.core import config
    if prec == "f32":
        config.set({"dtype_real": "float32", "dtype_complex": "complex64"})
    else:
        config.set({"dtype_real": "float64", "dtype_complex": "complex128"})


def rnd(a, prec):
    """round inputs to the working precision so that model and implementation see identical values"""
    a = np.asarray(a)
    if prec == "f32":
        return a.astype(np.complex64).astype(np.complex128) if np.iscomplexobj(a) else a.astype(np.float32).astype(np.float64)
    return a.astype(np.complex128) if np.iscomplexobj(a) else a.astype(np.float64)


def close(impl, model, tol):
    impl = np.asarray(impl)
    model = np.asarray(model)
    if impl.shape != model.shape:
        return False, float("inf")
    if impl.size == 0:
        return True, 0.0
    if not (np.all(np.isfinite(model)) and np.all(np.isfinite(impl))):
        return False, float("inf")
    scale = max(1.0, float(np.max(np.abs(model))))
    d = float(np.max(np.abs(impl - model))) / scale
    return d <= tol, d


def gauss(rng):
    u1 = max(rng.random(), 1e-300)
    return math.sqrt(-2.0 * math.log(u1)) * math.cos(2 * math.pi * rng.random())


def cgauss(rng, n):
    return np.array([complex(gauss(rng), gauss(rng)) for _ in range(n)])


# --------------------------------------------------------------------------------------
# (layout x dtype x container) classes of every array / scalar input: same logical values, different memory
LAYOUTS = [("c", 3), ("f", 2), ("swap", 2), ("perm1", 2), ("perm2", 1), ("step", 1), ("step0", 1), ("neg", 1)]


def gen_inp(rng, widths=(32, 64)):
    layout = rng.weighted(LAYOUTS)
    container = "np" if layout == "neg" else rng.choice(["np", "torch"])   # torch has no negative strides
    return {"layout": layout, "container": container, "width": rng.choice(list(widths))}


def eff_prec(prec, inp):
    """precision the values must be representable in (and, for torch-container probes, the computation runs in)"""
    return "f32" if prec == "f32" or (inp or {}).get("width", 64) == 32 else "f64"


def with_layout(a, inp, prec):
    """the array `a` as the input class `inp` describes it: C / Fortran order, swapped / permuted views, strided slices,
    negative strides (numpy only), numpy or torch container, 32- or 64-bit real/complex dtype.  Logical values unchanged
    (generators round to the narrower of configuration and input width)."""
    import torch
    a = np.asarray(a)
    inp = inp or {}
    width = inp.get("width", 32 if prec == "f32" else 64)
    dt = (np.complex64 if width == 32 else np.complex128) if np.iscomplexobj(a) else (np.float32 if width == 32 else np.float64)
    a = a.astype(dt)
    layout, container = inp.get("layout", "c"), inp.get("container", "np")
    nd = a.ndim
    if layout in ("perm1", "perm2") and nd != 3:
        layout = "swap"
    if nd < 2 and layout in ("f", "swap"):
        layout = "step"
    ident = lambda x: x
    if layout == "c" or nd == 0:
        storage, view = a, ident
    elif layout == "f":
        perm = tuple(reversed(range(nd)))
        storage, view = a.transpose(perm), (lambda x: x.permute(perm) if hasattr(x, "permute") else x.transpose(perm))
    elif layout == "swap":
        perm = tuple(list(range(nd - 2)) + [nd - 1, nd - 2])
        storage, view = a.transpose(perm), (lambda x: x.permute(perm) if hasattr(x, "permute") else x.transpose(perm))
    elif layout == "perm1":   # stored as (H, S, W)
        storage, view = a.transpose(1, 0, 2), (lambda x: x.permute(1, 0, 2) if hasattr(x, "permute") else x.transpose(1, 0, 2))
    elif layout == "perm2":   # stored as (H, W, S)
        storage, view = a.transpose(1, 2, 0), (lambda x: x.permute(2, 0, 1) if hasattr(x, "permute") else x.transpose(2, 0, 1))
    elif layout == "step":
        big = np.zeros(a.shape[:-1] + (2 * a.shape[-1],), dtype=dt)
        big[..., ::2] = a
        storage, view = big, (lambda x: x[..., ::2])
    elif layout == "step0":
        big = np.zeros((2 * a.shape[0],) + a.shape[1:], dtype=dt)
        big[::2] = a
        storage, view = big, (lambda x: x[::2])
    else:                     # "neg": negative strides along the last axis (numpy only)
        storage, view, container = a[..., ::-1], (lambda x: x[..., ::-1]), "np"
    storage = np.ascontiguousarray(storage)
    if container == "torch":
        return view(torch.from_numpy(storage))
    return view(storage)


def rejected_layout(ctx, stream, inp, e):
    """torch refuses numpy arrays with negative strides (ValueError): such an input never reaches the anchored code"""
    if isinstance(e, ValueError) and "negative" in str(e) and (inp or {}).get("layout") == "neg":
        ctx.count()
        ctx.dist[f"{stream}:input-rejected-by-torch:negative-strides"] += 1
        return True
    return False


def inp_dist(ctx, stream, inp, what="raw"):
    inp = inp or {}
    ctx.dist[f"{stream}:{what}:layout={inp.get('layout', 'c')}"] += 1
    ctx.dist[f"{stream}:{what}:container={inp.get('container', 'np')}:width={inp.get('width', 'cfg')}"] += 1


def scalar_as(x, kind):
    """a scalar input in one of the containers the library accepts"""
    import torch
    if kind == "int":
        return int(x)
    if kind == "np64":
        return np.float64(x)
    if kind == "np32":
        return np.float32(x)
    if kind == "np0d":
        return np.array(float(x))
    if kind == "np1":
        return np.array([float(x)])
    if kind == "t0d64":
        return torch.tensor(float(x), dtype=torch.float64)
    if kind == "t0d32":
        return torch.tensor(float(x), dtype=torch.float32)
    return float(x)


def seq_as(xs, kind):
    import torch
    if xs is None:
        return None
    if kind == "tuple":
        return tuple(xs)
    if kind == "np64":
        return np.array(xs, dtype=np.float64)
    if kind == "np32":
        return np.array(xs, dtype=np.float32)
    if kind == "npstep":
        big = np.zeros(2 * len(xs))
        big[::2] = xs
        return big[::2]
    if kind == "npneg":
        return np.array(list(xs)[::-1], dtype=np.float64)[::-1]
    if kind == "t32":
        return torch.tensor(xs, dtype=torch.float32)
    if kind == "t64":
        return torch.tensor(xs, dtype=torch.float64)
    return list(xs)


# --------------------------------------------------------------------------------------
# generators
def gen_mask(rng, S, H, W):
    kind = rng.weighted([("ones", 2), ("binary", 3), ("soft", 4), ("dyadic", 2)])
    per_slice = S > 1 and rng.chance(0.2)
    shp = (S, H, W) if per_slice else (H, W)
    n = int(np.prod(shp))
    if kind == "ones":
        m = np.ones(n)
    elif kind == "binary":
        m = np.array([1.0 if rng.chance(0.6) else 0.0 for _ in range(n)])
    elif kind == "dyadic":
        m = np.array([rng.choice([0.0, 0.25, 0.5, 0.75, 1.0, 1.0]) for _ in range(n)])
    else:
        m = np.array([rng.choice([0.0, 1.0, rng.random(), rng.random()]) for _ in range(n)])
    if kind != "ones" and rng.chance(0.2):
        m[rng.below(n)] = -0.0                     # a negative zero is a legal mask value in [0,1]
    return m.reshape(shp)


def mask_class(m):
    if m is None:
        return "none"
    m = np.asarray(m)
    if np.all(m == 1.0):
        return "ones"
    if np.all((m == 0.0) | (m == 1.0)):
        return "binary"
    return "nonbinary"


def gen_obj_case(rng, prec):
    t = rng.weighted([("complex", 4), ("pure_phase", 3), ("potential", 3)])
    S = rng.weighted([(1, 3), (2, 3), (3, 2), (4, 1)])
    H = rng.randint(1, 5)
    W = rng.randint(1, 5)
    n = S * H * W
    if t == "potential":
        scale = 10.0 ** rng.uniform(-3, 3)
        raw = np.array([gauss(rng) * scale + (rng.uniform(-1, 1) * scale if rng.chance(0.5) else 0.0) for _ in range(n)])
        if rng.chance(0.15):
            raw = np.round(raw * 4) / 4
    else:
        mag = np.array([10.0 ** rng.uniform(-3, 3) if rng.chance(0.5) else rng.uniform(0.0, 2.0) for _ in range(n)])
        if rng.chance(0.1):
            mag[rng.below(n)] = 0.0
        ph = np.array([rng.uniform(-math.pi, math.pi) for _ in range(n)])
        raw = mag * np.exp(1j * ph)
    special = rng.chance(0.3)
    if special:
        # exact zeros of either sign, values exactly on the amplitude threshold, infinite magnitudes (complex types only:
        # a potential of +-inf has no baseline): the points where sgn / angle / abs / clamp based rewrites part ways
        inf = float("inf")
        pool = ([0.0, -0.0, 0.0, -0.0, 1.0, -1.0, 0.25, -0.25] if t == "potential" else
                [0j, complex(-0.0, 0.0), complex(0.0, -0.0), complex(-0.0, -0.0), 0j, 1 + 0j, -1 + 0j, 1j, -1j, complex(0.6, 0.8),
                 complex(-1.0, -0.0), complex(inf, 0.0), complex(0.0, -inf), complex(-inf, inf), complex(1e30, -1e30), complex(1e-30, 0.0)])
        for _ in range(rng.randint(1, max(1, min(4, n)))):
            raw[rng.below(n)] = rng.choice(pool)
        if rng.chance(0.15):
            raw[:] = rng.choice(pool[:4])          # an all-zero (zero-padded / untouched) starting array
    route = rng.weighted([("obj", 5), ("direct", 1), ("direct_none", 1)])
    mask = None if route == "direct_none" else gen_mask(rng, S, H, W)
    cons = {
        "apply_fov_mask": rng.chance(0.55),
        "identical_slices": rng.chance(0.25),
        "positivity": rng.chance(0.7),
        "fix_potential_baseline": rng.chance(0.4),
        "fix_potential_baseline_factor": rng.choice([1.0, 1.0, 0.5, 2.0, round(rng.uniform(0.1, 1.5), 3)]),
    }
    inp, minp = gen_inp(rng), gen_inp(rng)
    raw = rnd(raw, eff_prec(prec, inp))
    f = cons["fix_potential_baseline_factor"]
    case = {"stream": "object", "prec": prec, "type": t, "shape": [S, H, W], "route": route, "cons": cons,
            "inp": inp, "minp": minp, "special": special,
            "fkind": rng.choice(["float", "np64", "np32", "int"] if f == int(f) else (["float", "np64", "np32"] if f in (0.5, 1.25) else ["float", "np64"])),
            "thk": rng.choice(["float", "int", "list", "np"]),
            "raw": cx_to_list(raw) if t != "potential" else [float(x) for x in raw],
            "mask": None if mask is None else {"shape": list(mask.shape), "v": [float(x) for x in rnd(mask, eff_prec(prec, minp)).ravel()]}}
    return case


def hadamard(N):
    h = np.array([[1.0]])
    while h.shape[0] < N:
        h = np.block([[h, h], [h, -h]])
    return h


def gen_gs_case(rng, prec):
    n = rng.weighted([(1, 1), (2, 3), (3, 3), (4, 2), (5, 3)])
    inp = gen_inp(rng)
    rej = 0
    while True:
        H = rng.randint(2, 6)
        W = rng.randint(2, 6)
        P = H * W
        if P < n + 1:
            continue
        target = rng.choice([0.0, 0.3, 0.7, 0.9, 0.97, 0.99])
        rho = math.sqrt(target)
        c = cgauss(rng, P)
        c /= np.linalg.norm(c)
        vs = []
        for _ in range(n):
            e = cgauss(rng, P)
            e -= np.vdot(c, e) * c
            e /= np.linalg.norm(e)
            vs.append(rho * c + math.sqrt(max(0.0, 1 - rho * rho)) * e)
        vs = np.array(vs)
        norms = np.array([10.0 ** rng.uniform(-1, 1) for _ in range(n)])
        vs = vs * norms[:, None]
        vs = rnd(vs, eff_prec(prec, inp))
        nn = np.linalg.norm(vs, axis=1)
        g = np.abs(vs.conj() @ vs.T) / np.outer(nn, nn)
        corr = float(np.max(g - np.eye(n))) if n > 1 else 0.0
        sv = np.linalg.svd(vs / nn[:, None], compute_uv=False)
        cond = float(sv[0] / sv[-1])
        I = np.sort(nn ** 2)
        apart = n == 1 or float(np.min(I[1:] / I[:-1])) >= 1.02
        if corr <= 0.99 and cond <= 200 and apart:
            break
        rej += 1
    return {"stream": "gs", "prec": prec, "n": n, "roi": [H, W], "corr": round(corr, 4), "cond": round(cond, 2),
            "setter": rng.chance(0.5), "rejected": rej, "inp": inp, "modes": cx_to_list(vs)}


def gen_gs_exact_case(rng):
    """Gaussian-dyadic stacks v_i = sum_{j<=i} c_ij h_j over a (phase-twisted, permuted) Hadamard basis with
    |c_ii| a power of two: every intermediate of the code's Gram-Schmidt is exactly representable, only the final
    sqrt of the original norms and the final product round -> comparison to 4 ulp in the complex128 config."""
    while True:
        H, W = rng.choice([(2, 2), (4, 4), (2, 8), (8, 2), (1, 4), (4, 1), (8, 8), (4, 16), (16, 4), (2, 2), (4, 4)])
        N = H * W
        n = rng.randint(1, min(5, N))
        h = hadamard(N).astype(np.complex128)
        d = np.array([rng.choice([1, 1j, -1, -1j]) for _ in range(N)])
        h = h * d[None, :]
        rows = rng.sample(list(range(N)), n)
        h = h[rows]
        C = np.zeros((n, n), dtype=np.complex128)
        for i in range(n):
            C[i, i] = rng.choice([1, 1j, -1, -1j]) * 2.0 ** rng.randint(-2, 2)
            for j in range(i):
                C[i, j] = complex(rng.randint(-8, 8), rng.randint(-8, 8)) / 4.0
        vs = C @ h
        I = np.sum(np.abs(C) ** 2, axis=1) * N   # exact
        Is = np.sort(I)
        if n == 1 or float(np.min(Is[1:] / Is[:-1])) >= 1.02:
            break
    return {"stream": "gs_exact", "prec": "f64", "n": n, "roi": [H, W], "setter": rng.chance(0.5), "inp": gen_inp(rng, widths=(64,)),
            "modes": cx_to_list(vs)}


def gen_weights_case(rng, prec):
    n = rng.weighted([(1, 2), (2, 3), (3, 3), (4, 2), (5, 2)])
    H = rng.randint(2, 6)
    W = rng.randint(2, 6)
    route = rng.weighted([("apply_weights", 4), ("set_initial_probe", 4), ("from_params", 2)])
    wk = rng.weighted([("default", 2), ("random", 5), ("unnormalised", 3), ("with_zero", 1)])
    if wk == "default":
        w = None
    elif wk == "random":
        w = [rng.uniform(0.05, 1.0) for _ in range(n)]
        s = sum(w)
        w = [x / s for x in w]
    elif wk == "unnormalised":
        w = [float(rng.randint(1, 9)) for _ in range(n)]
    else:
        w = [rng.uniform(0.05, 1.0) for _ in range(n)]
        if n > 1:
            w[rng.randint(1, n - 1)] = 0.0
    M = 10.0 ** rng.uniform(-2, 6)
    inp = gen_inp(rng)
    mkind = rng.choice(["float", "float", "np64", "np32", "np0d", "np1", "t0d64", "t0d32", "int"])
    if mkind == "int":
        M = float(max(1, round(M)))
    if mkind in ("np32", "t0d32"):
        M = float(np.float32(M))
    case = {"stream": "weights", "prec": prec, "n": n, "roi": [H, W], "route": route, "wkind": wk, "w": w, "M": M,
            "seed": rng.below(1 << 30), "inp": inp, "mkind": mkind,
            "wcont": rng.choice(["list", "tuple", "np64", "np32", "npstep", "npneg", "t32", "t64"]),
            "roicont": rng.choice(["tuple", "list", "np"]), "recipcont": rng.choice(["np", "list", "tuple", "np32"])}
    if route == "from_params":
        case["roi"] = [rng.choice([8, 10, 12]), rng.choice([8, 10, 12])]
        case["params"] = {"energy": rng.choice([80e3, 200e3, 300e3]), "semiangle_cutoff": rng.choice([15.0, 20.0, 25.0]),
                          "defocus": rng.choice([0.0, 50.0, -100.0, 200.0])}
        case["recip"] = [rng.uniform(0.04, 0.08), rng.uniform(0.04, 0.08)]
    else:
        scale = 10.0 ** rng.uniform(-2, 2)
        stack = np.array([cgauss(rng, H * W) * scale * 10.0 ** rng.uniform(-1, 1) for _ in range(n)])
        case["stack"] = cx_to_list(rnd(stack, eff_prec(prec, inp)))
    return case


def gen_tomo_case(rng):
    shp = [rng.randint(1, 3), rng.randint(1, 4), rng.randint(1, 4)]
    n = int(np.prod(shp))
    scale = 10.0 ** rng.uniform(-3, 3)
    raw = rnd(np.array([gauss(rng) * scale for _ in range(n)]), "f32")
    shr = rng.choice([None, None, 0.0, rnd(np.array(abs(gauss(rng)) * scale * 0.5), "f32").item()])
    inp = gen_inp(rng, widths=(32,))
    inp["container"] = "torch"          # the obj setter takes a tensor
    if inp["layout"] == "neg":
        inp["layout"] = "swap"
    return {"stream": "tomo", "prec": "f32", "shape": shp, "positivity": rng.chance(0.7), "shrinkage": shr,
            "inp": inp, "skind": rng.choice(["float", "np32", "np64"]), "raw": [float(x) for x in raw],
            # how the two entries reach the dictionary: one assignment, per-entry add_hard_constraint, with a rejected key in between;
            # the falsy spellings of "no shrinkage" (False / None / 0 / 0.0 / -0.0) and of positivity (False / 0 / None, True / 1)
            "via": rng.choice(["setter", "add", "setter_bad", "add_bad"]),
            "shr_falsy": rng.choice(["False", "None", "0", "0.0", "-0.0"]), "pos_kind": rng.choice(["bool", "bool", "int", "none_if_false"])}


# --------------------------------------------------------------------------------------
# running one case: correspondence + property predicate on the implementation
def small(case):
    """replayable but compact case"""
    return case


def run_object(ctx, drv, case):
    from quantem.diffractive_imaging.object_models import ObjectPixelated
    prec, t = case["prec"], case["type"]
    S, H, W = case["shape"]
    set_prec(prec)
    cons = dict(case["cons"])
    raw = (cx_from_list(case["raw"], (S, H, W)) if t != "potential" else np.array(case["raw"], dtype=np.float64).reshape(S, H, W))
    mask = None if case["mask"] is None else np.array(case["mask"]["v"], dtype=np.float64).reshape(case["mask"]["shape"])
    thk = {"float": 1.0, "int": 1, "list": [1.0] * max(S - 1, 1), "np": np.ones(max(S - 1, 1))}[case.get("thk", "float")] if S > 1 else None
    inp_dist(ctx, "object", case.get("inp"))
    try:
        m = ObjectPixelated.from_array(with_layout(raw, case.get("inp"), prec), slice_thicknesses=thk, obj_type=t)
    except ValueError as e:
        if rejected_layout(ctx, "object", case.get("inp"), e):
            return
        raise
    m._initialize_obj((S, H, W), (1.0, 1.0))
    icons = dict(cons)
    icons["fix_potential_baseline_factor"] = scalar_as(cons["fix_potential_baseline_factor"], case.get("fkind", "float"))
    m.constraints = icons
    if mask is not None:
        inp_dist(ctx, "object", case.get("minp"), "mask")
        try:
            m.mask = with_layout(mask, case.get("minp"), prec)
        except ValueError as e:
            if rejected_layout(ctx, "object", case.get("minp"), e):
                return
            raise
    check_object(ctx, drv, case, m, raw, cons, case["route"], "object")


def check_object(ctx, drv, case, m, raw, cons, route, stream):
    """correspondence + predicate for one constrained read of the object model `m` whose raw parameter is `raw`"""
    import torch
    prec, t = case["prec"], case["type"]
    S, H, W = raw.shape
    with torch.no_grad():
        if route in ("obj", "dip_obj"):
            o = m.obj
            mk = m.mask
        elif route == "direct":
            o = m.apply_hard_constraints(m.params, mask=m.mask)
            mk = m.mask
        else:
            o = m.apply_hard_constraints(m.params, mask=None)
            mk = None
        o = o.detach().clone()
        o_twice = m.apply_hard_constraints(o.clone(), mask=mk).detach().clone()
    out = o.numpy()
    out2 = o_twice.numpy()
    # the object really handed to the forward model: patches gathered by flat index (all pixels, one position)
    if route == "obj":
        with torch.no_grad():
            fwd = m.forward(torch.arange(H * W).reshape(1, H, W)).detach().numpy().astype(np.complex128).reshape(S, H * W)
        ref_f = out.astype(np.complex128).reshape(S, H * W) if t != "potential" else np.exp(1j * out.astype(np.float64).reshape(S, H * W))
        if bool(cons["identical_slices"]) and S > 1 and not all(np.array_equal(fwd[0], fwd[k]) for k in range(S)):
            ctx.pred_fail(f"{t}-slices-differ:forward", "identical_slices requested but the patches handed to the forward model differ "
                          "between slices", small(case), float(np.max(np.abs(fwd - fwd[0]))), 0.0)
        okf, df = close(fwd, ref_f, PTOL[prec])
        if not okf:
            ctx.disagree("object-forward", small(case), cx_to_list(ref_f), cx_to_list(fwd), f"forward() patches differ from .obj: {df:.3g}")
        if t == "complex" and not float(np.abs(fwd).max()) <= 1.0 + PTOL[prec]:      # (a NaN amplitude is not "at most one")
            ctx.pred_fail("complex-amp-gt-one:forward", "amplitude of the patches handed to the forward model exceeds one", small(case),
                          float(np.abs(fwd).max()), "<= 1")
    if route == "dip_obj":
        # ObjectDIP.forward hands patches of the RAW network output (times the mask) to the forward model: the hard constraints
        # are only applied by the `obj` property.  Evaluated under its own key (known finding; `.obj` itself is checked below).
        with torch.no_grad():
            fwd = m.forward(torch.arange(H * W).reshape(1, H, W)).detach().numpy().astype(np.complex128).reshape(S, H * W)
        what = None
        if t == "complex" and float(np.abs(fwd).max()) > 1.0 + PTOL[prec]:
            what = ("complex object: amplitude of the patches ObjectDIP.forward hands to the forward model exceeds one", float(np.abs(fwd).max()), "<= 1")
        elif t == "pure_phase" and float(np.max(np.abs(np.abs(fwd) - 1.0))) > PTOL[prec]:
            what = ("pure-phase object: amplitude of the patches ObjectDIP.forward hands to the forward model differs from one",
                    float(np.abs(fwd).ravel()[np.argmax(np.abs(np.abs(fwd) - 1.0))]), 1.0)
        elif bool(cons["identical_slices"]) and S > 1 and not all(np.array_equal(fwd[0], fwd[k]) for k in range(S)):
            what = ("identical_slices requested but the patches ObjectDIP.forward hands to the forward model differ between slices",
                    float(np.max(np.abs(fwd - fwd[0]))), 0.0)
        ctx.dist[f"object_dip:forward-{'unconstrained' if what else 'admissible'}"] += 1
        if what:
            ctx.pred_fail("object-dip-forward-unconstrained", what[0], small(case), what[1], what[2])
    mexp = None if mk is None else np.real(mk.detach().numpy()).astype(np.float64).reshape(S, H * W)
    fov = bool(cons["apply_fov_mask"]) and mexp is not None
    ident = bool(cons["identical_slices"]) and S > 1
    mcls = mask_class(mexp) if fov else "unused"
    lcons = {"positivity": bool(cons["positivity"]), "fix": bool(cons["fix_potential_baseline"]),
             "factor": bits([cons["fix_potential_baseline_factor"]])[0], "identical": bool(cons["identical_slices"]),
             "fov": bool(cons["apply_fov_mask"])}
    tol, ptol = TOL[prec], PTOL[prec]
    ctx.count()
    ctx.dist[f"{stream}:{t}:{prec}"] += 1
    ctx.dist[f"{stream}:route={route}"] += 1
    ctx.dist[f"{stream}:mask={mcls}"] += 1
    ctx.dist[f"{stream}:slices={S}"] += 1
    ctx.dist[f"{stream}:identical={ident}"] += 1
    nontrivial = raw.size > 1 and not np.all(raw == raw.ravel()[0])
    if nontrivial:
        ctx.mark((stream, prec, t, mcls, fov, ident, S > 1, bool(cons["positivity"]), bool(cons["fix_potential_baseline"]), route))
    ctx.sample({k: case[k] for k in case if k not in ("raw", "mask")} | {"mask_class": mcls})

    if t == "potential":
        rep = drv.ask({"op": "obj_pot", "cons": lcons, "mask": None if mexp is None else enc_real2(mexp),
                       "obj": enc_real2(raw.reshape(S, H * W))})
        if "ok" not in rep:
            ctx.disagree("object-potential", small(case), rep, "ok", "driver error")
            return
        model = dec_real2(rep["ok"]["obj"])
        impl = out.astype(np.float64).reshape(S, H * W)
        ok, d = close(impl, model, tol)
        ctx.stat_max(f"object-potential:{prec}:max_rel_dist", d)
        if not ok:
            ctx.disagree("object-potential", small(case), model.tolist(), impl.tolist(), f"rel dist {d:.3g} > {tol}")
        # --- predicate: non-negative under positivity (exact), identical slices (exact)
        if cons["positivity"] and not np.all(impl >= 0.0):
            ctx.pred_fail(f"potential-negative:fov={fov}:mask={mcls}", "potential object has negative values under positivity",
                          small(case), float(impl.min()), ">= 0")
        if ident and not all(np.array_equal(impl[0], impl[s]) for s in range(S)):
            ctx.pred_fail("potential-slices-differ", "identical_slices requested but slices differ", small(case),
                          float(np.max(np.abs(impl - impl[0]))), 0.0)
        return

    rep = drv.ask({"op": "obj_cx", "type": t, "cons": lcons, "mask": None if mexp is None else enc_real2(mexp),
                   "obj": enc_cx2(raw.reshape(S, H * W))})
    if "ok" not in rep:
        ctx.disagree("object-complex", small(case), rep, "ok", "driver error")
        return
    model = dec_cx2(rep["ok"]["obj"])
    model_amp2 = dec_real2(rep["ok"]["amp2"])
    impl = out.astype(np.complex128).reshape(S, H * W)
    ok, d = close(impl, model, tol)
    ctx.stat_max(f"object-{t}:{prec}:max_rel_dist", d)
    if not ok:
        ctx.disagree(f"object-{t}", small(case), cx_to_list(model), cx_to_list(impl), f"rel dist {d:.3g} > {tol}")
    amp = np.abs(impl)
    amp2 = np.abs(out2.astype(np.complex128).reshape(S, H * W))
    ok2, d2 = close(amp2, model_amp2, tol)
    ctx.stat_max(f"object-{t}-twice:{prec}:max_rel_dist", d2)
    if not ok2:
        ctx.disagree(f"object-{t}-twice", small(case), model_amp2.tolist(), amp2.tolist(), f"rel dist {d2:.3g} > {tol}")
    # --- predicate
    if ident and not all(np.array_equal(impl[0], impl[s]) for s in range(S)):
        ctx.pred_fail(f"{t}-slices-differ", "identical_slices requested but slices differ", small(case),
                      float(np.max(np.abs(impl - impl[0]))), 0.0)
    if t == "complex" and not float(amp.max()) <= 1.0 + ptol:
        ctx.pred_fail(f"complex-amp-gt-one:fov={fov}:mask={mcls}:identical={ident}", "complex object amplitude exceeds one",
                      small(case), float(amp.max()), "<= 1")
    if not ident:   # slice tying is only claimed to tie slices (quantifier)
        if t == "pure_phase":
            dev = float(np.max(np.abs(amp - 1.0)))
            ctx.stat_max(f"pure_phase:{prec}:max|amp-1|", dev)
            if not dev <= ptol:
                ctx.pred_fail(f"pure_phase-amp-not-one:{'apply_fov_mask' if fov else 'nomask'}:{mcls}-mask",
                              "pure-phase object amplitude differs from one", small(case), float(amp.ravel()[np.argmax(np.abs(amp - 1.0))]), 1.0)
        didem = float(np.max(np.abs(amp2 - amp)))
        ctx.stat_max(f"{t}:{prec}:max|amp2-amp|" + (":nonbinary-mask" if mcls == "nonbinary" else ""), didem)
        if not didem <= ptol:
            ctx.pred_fail(f"{t}-amp-idempotence:{'apply_fov_mask' if fov else 'nomask'}:{mcls}-mask",
                          "re-applying the hard constraint to the constrained object changes its amplitude",
                          small(case), {"amp_once": amp.ravel()[np.argmax(np.abs(amp2 - amp))].item(),
                                        "amp_twice": amp2.ravel()[np.argmax(np.abs(amp2 - amp))].item()}, "equal")


def run_tomo(ctx, drv, case):
    import torch
    from quantem.tomography.object_models import ObjectVoxelwise
    shp = tuple(case["shape"])
    raw = np.array(case["raw"], dtype=np.float32).reshape(shp)
    m = ObjectVoxelwise(shp, "cpu")
    twin = ObjectVoxelwise(shp, "cpu")          # never configured: must keep the class defaults (nothing applied)
    shr = case["shrinkage"]
    if shr is None or shr == 0:
        fk = case.get("shr_falsy", "False") if shr is None else case.get("shr_falsy", "0.0")
        if shr == 0 and fk in ("False", "None"):
            fk = "0.0"
        shr_in = {"False": False, "None": None, "0": 0, "0.0": 0.0, "-0.0": -0.0}[fk]
        lshr = {"b": False} if fk == "False" else (None if fk == "None" else {"n": bits([float(shr_in)])[0]})
    else:
        shr_in = scalar_as(shr, case.get("skind", "float"))
        lshr = {"n": bits([np.float32(shr)])[0]}
    pk = case.get("pos_kind", "bool")
    pos_in = case["positivity"] if pk == "bool" else (int(case["positivity"]) if pk == "int" else (True if case["positivity"] else None))
    lpos = None if pos_in is None else ({"b": bool(pos_in)} if isinstance(pos_in, bool) else {"n": bits([float(pos_in)])[0]})
    via = case.get("via", "setter")
    ctx.dist[f"tomo:via={via}"] += 1
    if via.endswith("_bad"):
        try:                                      # a rejected request first; the caller carries on
            if via == "setter_bad":
                m.hard_constraints = {"positivity": pos_in, "bogus_key": True, "shrinkage": shr_in}
            else:
                m.add_hard_constraint("bogus_key", True)
            ctx.disagree("tomo-keyerror", small(case), "KeyError", "ok", "invalid hard-constraint key accepted")
        except KeyError:
            pass
    if via.startswith("setter"):
        m.hard_constraints = {"positivity": pos_in, "shrinkage": shr_in}
    else:
        m.add_hard_constraint("shrinkage", shr_in)
        m.add_hard_constraint("positivity", pos_in)
    inp_dist(ctx, "tomo", case.get("inp"))
    m.obj = with_layout(raw, case.get("inp") or {"container": "torch", "width": 32}, "f32") if case.get("inp") else torch.tensor(raw)
    twin.obj = torch.tensor(raw)
    impl = m.obj.detach().numpy().astype(np.float64).ravel()
    # two live models of the class: configuring `m` must not configure `twin`
    tw = twin.obj.detach().numpy().astype(np.float64).ravel()
    if dict(twin.hard_constraints) != dict(ObjectVoxelwise.DEFAULT_HARD_CONSTRAINTS) or not np.array_equal(tw, raw.astype(np.float64).ravel()):
        ctx.disagree("tomo-second-model", small(case), {"hard_constraints": canon_dict(ObjectVoxelwise.DEFAULT_HARD_CONSTRAINTS.items())},
                     {"hard_constraints": canon_dict(twin.hard_constraints.items())}, "configuring one tomography object changed another one")
    rep = drv.ask({"op": "tomo_d", "pos": lpos, "shr": lshr, "obj": bits(raw.astype(np.float64).ravel())})
    ctx.count()
    ctx.dist[f"tomo:positivity={case['positivity']}:shrinkage={'none' if shr is None else ('zero' if shr == 0 else 'pos')}"] += 1
    if raw.size > 1:
        ctx.mark(("tomo", bool(case["positivity"]), shr is None, shr == 0))
    if "ok" not in rep:
        ctx.disagree("tomo", small(case), rep, "ok", "driver error")
        return
    model = dec_real(rep["ok"]["obj"])
    ok, d = close(impl, model, TOL["f32"])
    ctx.stat_max("tomo:max_rel_dist", d)
    if not ok:
        ctx.disagree("tomo", small(case), model.tolist(), impl.tolist(), f"rel dist {d:.3g}")
    if case["positivity"] and not np.all(impl >= 0.0):
        ctx.pred_fail("tomo-negative", "tomography object has negative values under positivity", small(case), float(impl.min()), ">= 0")


def make_probe(stack, prec, setter, inp=None, **kw):
    import torch
    from quantem.diffractive_imaging.probe_models import ProbePixelated
    cd = torch.complex64 if prec == "f32" else torch.complex128
    npd = np.complex64 if prec == "f32" else np.complex128
    x = with_layout(stack, inp, prec)     # numpy arrays are cast by from_array (dtype=cd); torch tensors keep their own dtype
    if setter:   # build from a placeholder, then drive the raw parameter through the public setter
        pm = ProbePixelated.from_array(np.ones(stack.shape, dtype=npd), dtype=cd, **kw)
        pm.probe = x
    else:
        pm = ProbePixelated.from_array(x, dtype=cd, **kw)
    return pm


def gs_predicate(ctx, case, vs, out, ptol, keysfx):
    n = vs.shape[0]
    Iin = np.sum(np.abs(vs) ** 2, axis=1)
    Iout = np.sum(np.abs(out) ** 2, axis=1)
    nn = np.sqrt(Iout)
    worst = 0.0
    for i in range(n):
        for j in range(i + 1, n):
            v = abs(np.vdot(out[i], out[j])) / (nn[i] * nn[j])
            if not v <= worst:          # NaN-aware maximum
                worst = v
    ctx.stat_max(f"gs:{case['prec']}:max_normalised_inner_product", worst)
    if not worst <= ptol:                    # (NaN-aware: a NaN is a failure, never a pass)
        ctx.pred_fail(f"gs-not-orthogonal:n={n}{keysfx}", "orthogonalised probe modes are not mutually orthogonal", small(case), worst, 0.0)
    dI = float(np.max(np.abs(np.sort(Iout) - np.sort(Iin)) / np.sort(Iin)))
    ctx.stat_max(f"gs:{case['prec']}:max_rel_intensity_change", dI)
    if not dI <= ptol:
        ctx.pred_fail(f"gs-intensity-multiset:n={n}{keysfx}", "multiset of mode intensities changed by orthogonalisation", small(case),
                      np.sort(Iout)[::-1].tolist(), np.sort(Iin)[::-1].tolist())
    if n > 1 and not np.all(Iout[:-1] >= Iout[1:] * (1 - ptol)):
        ctx.pred_fail(f"gs-not-descending:n={n}{keysfx}", "orthogonalised modes are not in descending intensity order", small(case),
                      Iout.tolist(), "descending")


def run_gs(ctx, drv, case):
    prec = case["prec"]
    set_prec(prec)
    n = case["n"]
    H, W = case["roi"]
    vs = cx_from_list(case["modes"], (n, H, W))
    inp_dist(ctx, case["stream"], case.get("inp"))
    try:
        pm = make_probe(vs, prec, case["setter"], inp=case.get("inp"))
    except ValueError as e:
        if rejected_layout(ctx, case["stream"], case.get("inp"), e):
            return
        raise
    out = pm.probe.detach().numpy().astype(np.complex128).reshape(n, H * W)
    rep = drv.ask({"op": "gs", "modes": enc_cx2(vs.reshape(n, H * W))})
    exact = case["stream"] == "gs_exact"
    prec = eff_prec(prec, case.get("inp"))      # a torch stack keeps its own dtype: tolerances follow the narrower precision
    ctx.count()
    ctx.dist[f"{case['stream']}:{prec}:n={n}"] += 1
    ctx.dist[f"{case['stream']}:pixels={'<=8' if H * W <= 8 else ('<=16' if H * W <= 16 else '>16')}"] += 1
    if not exact:
        c = case.get("corr", 0.0)
        cb = "<0.5" if c < 0.5 else ("<0.9" if c < 0.9 else "<=0.99")
        ctx.dist[f"gs:corr{cb}"] += 1
        ctx.dist["gs:candidates_rejected"] += case.get("rejected", 0)
        ctx.mark(("gs", prec, n, cb, case["setter"]))
    else:
        ctx.mark(("gs_exact", n, H * W, case["setter"]))
    ctx.sample({k: case[k] for k in case if k != "modes"})
    if "ok" not in rep:
        ctx.disagree(case["stream"], small(case), rep, "ok", "driver error")
        return
    model = dec_cx2(rep["ok"]["modes"])
    rn = dec_real(rep["ok"]["rnorms"])
    ctx.extra["gs_min_residual_norm_seen"] = min(ctx.extra.get("gs_min_residual_norm_seen", float("inf")), float(rn.min()))
    if exact:
        # every intermediate is exact; only sqrt(original norm) and the final product round (torch's AVX sqrt is not
        # correctly rounded: 1 ulp) -> entries agree to 4 ulp, exact zeros stay exact zeros
        ulp = 2.0 ** -52
        same = model.shape == out.shape and bool(np.all(np.abs(out.real - model.real) <= 4 * ulp * np.abs(model.real))) \
            and bool(np.all(np.abs(out.imag - model.imag) <= 4 * ulp * np.abs(model.imag)))
        ctx.dist[f"gs_exact:{'ulp-equal' if same else 'differs'}"] += 1
        if not same:
            ctx.disagree("gs_exact", small(case), cx_to_list(model), cx_to_list(out), "exact (dyadic) stream: differs by more than 4 ulp")
    else:
        ok, d = close(out, model, TOL[prec])
        ctx.stat_max(f"gs:{prec}:max_rel_dist", d)
        if not ok:
            ctx.disagree("gs", small(case), cx_to_list(model), cx_to_list(out), f"rel dist {d:.3g} > {TOL[prec]}")
    # float32 Gram-Schmidt loses ~cond*eps32 (cond <= 200 by construction): 5e-5
    gs_predicate(ctx, case, vs.reshape(n, H * W), out, 1e-12 if exact else (PTOL[prec] if prec == "f64" else 5e-5), "")


def run_weights(ctx, drv, case):
    import torch
    from quantem.diffractive_imaging.probe_models import ProbePixelated
    prec = case["prec"]
    set_prec(prec)
    n = case["n"]
    H, W = case["roi"]
    M = float(case["M"])
    w = case["w"]
    route = case["route"]
    cd = torch.complex64 if prec == "f32" else torch.complex128
    inp = case.get("inp")
    ep = eff_prec(prec, inp) if route != "from_params" else prec
    tol, ptol = TOL[ep], PTOL[ep]
    Min = scalar_as(M, case.get("mkind", "float"))
    win = seq_as(w, case.get("wcont", "list"))
    roi_in = {"tuple": (H, W), "list": [H, W], "np": np.array([H, W]), "npf": np.array([float(H), float(W)])}[case.get("roicont", "tuple")]
    ctx.dist[f"weights:M={case.get('mkind', 'float')}"] += 1
    ctx.dist[f"weights:wcontainer={case.get('wcont', 'list') if w is not None else 'None'}"] += 1
    ctx.count()
    ctx.dist[f"weights:{route}:{prec}"] += 1
    ctx.dist[f"weights:n={n}"] += 1
    ctx.dist[f"weights:w={case['wkind']}"] += 1
    ctx.mark(("weights", route, prec, n, case["wkind"]))
    ctx.sample({k: case[k] for k in case if k != "stack"})
    recip = case.get("recip", [0.05, 0.05])
    recip_in = {"np": np.array(recip), "list": list(recip), "tuple": tuple(recip), "np32": np.array(recip, dtype=np.float32)}[case.get("recipcont", "np")]
    if route == "from_params":
        pm = ProbePixelated.from_params(dict(case["params"]), num_probes=n, dtype=cd, rng=case["seed"], initial_probe_weights=win)
        pm.set_initial_probe(roi_in, recip_in, Min)
        ip = pm.initial_probe.detach().numpy().astype(np.complex128)
        model_in = None
    else:
        stack = cx_from_list(case["stack"], (n, H, W))
        inp_dist(ctx, "weights", inp)
        try:
            pm = make_probe(stack, prec, False, inp=inp, rng=case["seed"], initial_probe_weights=win)
        except ValueError as e:
            if rejected_layout(ctx, "weights", inp, e):
                return
            raise
        if route == "apply_weights":
            pm.mean_diffraction_intensity = Min
            model_in = stack
            arg = with_layout(stack, inp, prec)
            if isinstance(arg, torch.Tensor):
                arg = arg.clone()          # _apply_weights works in place on a tensor argument
            ip = pm._apply_weights(arg).detach().numpy().astype(np.complex128)
        else:
            twin = make_probe(stack, prec, False, inp=inp, rng=case["seed"], initial_probe_weights=seq_as(w, case.get("wcont", "list")))
            model_in = twin._apply_random_phase_shifts(twin.initial_probe.clone()).detach().numpy().astype(np.complex128)
            pm.set_initial_probe(roi_in, recip_in, Min)
            ip = pm.initial_probe.detach().numpy().astype(np.complex128)
            # the constrained probe handed to the forward model keeps the intensities (orthogonalisation on by default)
    wstored = pm.initial_probe_weights.detach().numpy().astype(np.float64)
    # --- correspondence
    if model_in is not None:
        # weight normalisation of the setter (float32 in the library: tolerance 5e-4 does not apply, it is exact up to 1 ulp32)
        if w is not None:
            repw = drv.ask({"op": "norm_weights", "w": bits(np.array(w, dtype=np.float32))})
        else:
            repw = drv.ask({"op": "default_weights", "n": n})
        if "ok" in repw:
            okw, dw = close(wstored, dec_real(repw["ok"]["w"]), 1e-6)
            ctx.stat_max("weights:stored_vs_model_weights", dw)
            if not okw:
                ctx.disagree("weights-normalisation", small(case), dec_real(repw["ok"]["w"]).tolist(), wstored.tolist(), "stored weights")
        else:
            ctx.disagree("weights-normalisation", small(case), repw, "ok", "driver error")
        rep = drv.ask({"op": "weights", "M": bits([M])[0], "w": bits(wstored),
                       "probes": [[enc_cx_row(r) for r in p] for p in model_in]})
        if "ok" not in rep:
            ctx.disagree("weights", small(case), rep, "ok", "driver error")
        else:
            model = np.array([[dec_cx_row(r) for r in p] for p in rep["ok"]["probes"]])
            ok, d = close(ip, model, tol)
            ctx.stat_max(f"weights:{prec}:max_rel_dist", d)
            if not ok:
                ctx.disagree("weights", small(case), cx_to_list(model), cx_to_list(ip), f"rel dist {d:.3g} > {tol}")
    # --- predicate: total diffraction intensity = M, mode k carries the requested fraction
    F = np.fft.fft2(ip, norm="ortho")
    mode_I = np.sum(np.abs(F) ** 2, axis=(1, 2))
    tot = float(mode_I.sum())
    ctx.stat_max(f"weights:{prec}:rel_total_intensity_error", abs(tot - M) / M)
    wtol = max(ptol, 2e-6)   # the library stores the weights in float32 whatever the configured precision
    if not abs(tot - M) <= wtol * M:
        ctx.pred_fail(f"initial-probe-total-intensity:{route}", "total diffraction intensity of the initial probe differs from the mean intensity",
                      small(case), tot, M)
    if w is None:
        wreq = np.array([1 - 0.02 * (n - 1)] + [0.02] * (n - 1))
    else:
        wreq = np.array(w, dtype=np.float64) / float(np.sum(w))
    dw = float(np.max(np.abs(mode_I / M - wreq)))
    ctx.stat_max(f"weights:{prec}:max_weight_error", dw)
    if not dw <= wtol:
        ctx.pred_fail(f"initial-probe-weights:{route}:{case['wkind']}", "relative mode intensities differ from the requested weights",
                      small(case), (mode_I / M).tolist(), wreq.tolist())


def gen_pipeline_case(rng):
    return {"stream": "pipeline", "prec": "f32", "type": rng.choice(["complex", "pure_phase", "potential"]),
            "scan": [rng.randint(3, 6), rng.randint(3, 6)], "roi": rng.choice([[8, 8], [6, 8], [8, 6]]), "n": rng.randint(1, 3),
            "pad": rng.choice([[8, 8], [4, 4], [8, 12], [16, 16], [0, 0]]),
            "seed": rng.below(1000), "rng_seed": rng.below(1000), "rawseed": rng.below(1 << 30),
            "fov": rng.chance(0.8), "positivity": rng.chance(0.7),
            "playout": rng.choice(["c", "f", "swap", "step"])}


def run_pipeline(ctx, drv, case):
    """a real preprocessed Ptychography object (props/ptycho_tiny): the FOV mask is the library's own Gaussian-blurred overlap
    mask, the initial probe is what preprocess() produced from the measured mean intensity; the raw object parameter is then
    driven to arbitrary values (as an optimiser would) and the object handed to the forward model is checked."""
    import torch
    from props import ptycho_tiny as pt
    from qv.prng import Rng
    set_prec("f32")
    p = pt.make_ptycho(scan=tuple(case["scan"]), roi=tuple(case["roi"]), seed=case["seed"], rng_seed=case["rng_seed"],
                       num_probes=case["n"], obj_type=case["type"], obj_padding_px=tuple(case.get("pad", (0, 0))))
    om, pm = p.obj_model, p.probe_model
    n = case["n"]
    # --- initial probe: total diffraction intensity = measured mean intensity, default weights
    M = float(pm.mean_diffraction_intensity)
    ip = pm.initial_probe.detach().numpy().astype(np.complex128)
    mode_I = np.sum(np.abs(np.fft.fft2(ip, norm="ortho")) ** 2, axis=(1, 2))
    ctx.count()
    ctx.dist[f"pipeline:probe:n={n}"] += 1
    ctx.stat_max("pipeline:rel_total_intensity_error", abs(mode_I.sum() - M) / M)
    if not abs(mode_I.sum() - M) <= PTOL["f32"] * M:
        ctx.pred_fail("initial-probe-total-intensity:pipeline", "total diffraction intensity of the initial probe differs from the "
                      "measured mean intensity", small(case), float(mode_I.sum()), M)
    wreq = np.array([1 - 0.02 * (n - 1)] + [0.02] * (n - 1))
    if not float(np.max(np.abs(mode_I / M - wreq))) <= PTOL["f32"]:
        ctx.pred_fail("initial-probe-weights:pipeline", "relative mode intensities differ from the requested (default) weights",
                      small(case), (mode_I / M).tolist(), wreq.tolist())
    # the probe handed to the forward model (orthogonalisation on by default)
    out = pm.probe.detach().numpy().astype(np.complex128).reshape(n, -1)
    gs_predicate(ctx, case, ip.reshape(n, -1), out, 5e-5, ":pipeline")
    # --- object: drive the raw parameter, read the constrained object with the library's own FOV mask
    rng = Rng(case["rawseed"])
    S, H, W = (int(x) for x in om.params.shape)
    cnt = S * H * W
    t = case["type"]
    if t == "potential":
        raw = np.array([gauss(rng) for _ in range(cnt)]).reshape(S, H, W)
    else:
        mag = np.array([10.0 ** rng.uniform(-2, 2) if rng.chance(0.3) else rng.uniform(0.0, 2.0) for _ in range(cnt)])
        raw = (mag * np.exp(1j * np.array([rng.uniform(-math.pi, math.pi) for _ in range(cnt)]))).reshape(S, H, W)
    raw = rnd(raw, "f32")
    with torch.no_grad():
        om.params.data = with_layout(raw, {"layout": case.get("playout", "c"), "container": "torch", "width": 32}, "f32").to(om.params.dtype)
    ctx.dist[f"pipeline:param-layout={case.get('playout', 'c')}"] += 1
    cons = {"apply_fov_mask": bool(case["fov"]), "identical_slices": False, "positivity": bool(case["positivity"]),
            "fix_potential_baseline": False, "fix_potential_baseline_factor": 1.0}
    p.constraints = {"object": dict(cons)}      # the real Ptychography setter: one add_constraint per entry
    mk = np.real(om.mask.detach().numpy())
    ctx.stat_max("pipeline:fov_mask_max", float(mk.max()))
    ctx.extra["pipeline_fov_mask_min_seen"] = min(ctx.extra.get("pipeline_fov_mask_min_seen", 1.0), float(mk.min()))
    check_object(ctx, drv, case, om, raw, cons, "obj", "pipeline")


# --------------------------------------------------------------------------------------
# histories: the constraints dictionary driven through its public mutation paths, repeated set_initial_probe
CONS_KEYS_REL = ["identical_slices", "apply_fov_mask", "positivity", "fix_potential_baseline", "fix_potential_baseline_factor"]


def gen_cons_value(rng, k):
    if k == "fix_potential_baseline_factor":
        return rng.choice([1.0, 0.5, 2.0, 1.25])
    if k in ("tv_weight_xy", "tv_weight_z", "surface_zero_weight"):
        return rng.choice([0, 0.0, 0.5, 1e-3])
    if k in ("gaussian_sigma", "q_lowpass", "q_highpass"):
        return None          # smoothing filters stay off (quantifier)
    if k == "butterworth_order":
        return rng.choice([2, 4])
    if k == "bogus_key":
        return True
    return rng.chance(0.6)


def gen_cons_history_case(rng, prec):
    t = rng.choice(["complex", "pure_phase", "potential"])
    S = rng.randint(2, 3)
    H = rng.randint(1, 4)
    W = rng.randint(2, 4)
    n = S * H * W
    if t == "potential":
        raw = np.array([gauss(rng) for _ in range(n)])
    else:
        raw = np.array([rng.uniform(0.0, 2.0) for _ in range(n)]) * np.exp(1j * np.array([rng.uniform(-3.0, 3.0) for _ in range(n)]))
    mask = gen_mask(rng, S, H, W)
    allk = CONS_KEYS_REL * 3 + ["tv_weight_xy", "tv_weight_z", "surface_zero_weight", "gaussian_sigma", "q_lowpass", "butterworth_order"]
    ops = []
    for _ in range(rng.randint(2, 6)):
        kind = rng.weighted([("add", 5), ("set", 3), ("ptycho", 3), ("add_bad", 1), ("set_bad", 1)])
        if kind == "add":
            k = rng.choice(allk)
            ops.append({"op": "add", "k": k, "v": gen_cons_value(rng, k)})
        elif kind == "add_bad":
            ops.append({"op": "add", "k": "bogus_key", "v": True})
        else:
            ks = rng.sample(sorted(set(allk)), rng.randint(1, 4))
            if kind == "set_bad":
                ks.insert(rng.randint(0, len(ks)), "bogus_key")
            items = [[k, gen_cons_value(rng, k)] for k in ks]
            ops.append({"op": "set" if kind != "ptycho" else "ptycho", "items": items})
    # make the seeded kind of history frequent: a property-relevant request that is not the last one
    if rng.chance(0.5):
        ops.insert(0, {"op": "add", "k": "identical_slices", "v": True})
    # configure, READ, reconfigure, read again: constrained reads in the middle of the history, the assignment of the class
    # defaults that PtychographyBase.reset_recon makes, reset() of the object model (raw parameter back to the initial array)
    for _ in range(rng.weighted([(0, 2), (1, 3), (2, 2)])):
        ops.insert(rng.randint(1, len(ops)), {"op": rng.weighted([("read", 4), ("reset_defaults", 2), ("reset_obj", 1)])})
    inp, minp = gen_inp(rng), gen_inp(rng)
    raw = rnd(raw, eff_prec(prec, inp))
    return {"stream": "cons_history", "prec": prec, "type": t, "shape": [S, H, W], "ops": ops, "inp": inp, "minp": minp,
            "raw": cx_to_list(raw) if t != "potential" else [float(x) for x in raw],
            "mask": {"shape": list(mask.shape), "v": [float(x) for x in rnd(mask, eff_prec(prec, minp)).ravel()]}}


def canon_val(v):
    if isinstance(v, bool):
        return ["b", v]
    if v is None:
        return ["z"]
    if isinstance(v, (int, float)):
        return ["n", float(v)]
    return ["o", repr(v)]


def canon_dict(items):
    return [[k, canon_val(v)] for k, v in items]


def run_cons_history(ctx, drv, case):
    from quantem.diffractive_imaging.object_models import ObjectPixelated
    prec, t = case["prec"], case["type"]
    S, H, W = case["shape"]
    set_prec(prec)
    raw = (cx_from_list(case["raw"], (S, H, W)) if t != "potential" else np.array(case["raw"], dtype=np.float64).reshape(S, H, W))
    mask = np.array(case["mask"]["v"], dtype=np.float64).reshape(case["mask"]["shape"])
    inp_dist(ctx, "cons_history", case.get("inp"))
    try:
        om = ObjectPixelated.from_array(with_layout(raw, case.get("inp"), prec), slice_thicknesses=1.0, obj_type=t)
        om._initialize_obj((S, H, W), (1.0, 1.0))
        om.mask = with_layout(mask, case.get("minp"), prec)
    except ValueError as e:
        if rejected_layout(ctx, "cons_history", case.get("inp"), e) or rejected_layout(ctx, "cons_history", case.get("minp"), e):
            return
        raise
    defaults = dict(DEFAULTS_SNAPSHOT.get("object") or ObjectPixelated.DEFAULT_CONSTRAINTS)
    allowed = list(defaults.keys())
    init_items = list(om.constraints.items())
    ref = dict(defaults)                        # independent oracle: last writer wins over the class defaults
    if canon_dict(init_items) != canon_dict(defaults.items()):
        ctx.disagree("cons_history", small(case), canon_dict(defaults.items()), canon_dict(init_items), "a freshly built model does not start from the class defaults")
    lean_ops, impl_res, ref_res = [], [], []
    for op in case["ops"]:
        if op["op"] == "read":          # a constrained read in the middle of the history, against the requests made SO FAR
            check_object(ctx, drv, case, om, raw, {k: ref[k] for k in CONS_KEYS_REL}, "obj", "cons_history")
            continue
        if op["op"] == "reset_obj":
            om.reset()
            continue
        if op["op"] == "reset_defaults":
            items = list(defaults.items())
            lean_ops.append({"op": "set", "items": [[k, v] for k, v in items]})
            try:
                om.constraints = type(om).DEFAULT_CONSTRAINTS
                r = "ok"
            except KeyError:
                r = "KeyError"
            ref.update(defaults)
            ref_res.append("ok")
            impl_res.append((r, canon_dict(om.constraints.items()), 1))
            continue
        if op["op"] == "add":
            lean_ops.append({"op": "add", "k": op["k"], "v": op["v"]})
            try:
                om.add_constraint(op["k"], op["v"])
                r = "ok"
            except KeyError:
                r = "KeyError"
            if op["k"] in defaults:
                ref[op["k"]] = op["v"]
                ref_res.append("ok")
            else:
                ref_res.append("KeyError")
        else:
            items = [(k, v) for k, v in op["items"]]
            if op["op"] == "set":
                lean_ops.append({"op": "set", "items": [[k, v] for k, v in items]})
                try:
                    om.constraints = dict(items)
                    r = "ok"
                except KeyError:
                    r = "KeyError"
                rr = "ok"
                for k, v in items:
                    if k not in defaults:
                        rr = "KeyError"
                        break
                    ref[k] = v
                ref_res.append(rr)
            else:   # PtychographyBase.constraints setter: one add_constraint per entry, stops at the first KeyError
                r = "ok"
                rr = "ok"
                sub = []
                for k, v in items:
                    sub.append({"op": "add", "k": k, "v": v})
                    try:
                        om.add_constraint(k, v)
                    except KeyError:
                        r = "KeyError"
                        break
                for k, v in items:
                    if k not in defaults:
                        rr = "KeyError"
                        break
                    ref[k] = v
                # the model sees the same per-entry adds up to and including the failing one
                stop = len(sub)
                lean_ops.extend(sub[:stop])
                ref_res.append(rr)
                impl_res.append((r, canon_dict(om.constraints.items()), len(sub)))
                continue
        impl_res.append((r, canon_dict(om.constraints.items()), 1))
    rep = drv.ask({"op": "cons_history", "allowed": allowed, "init": [[k, v] for k, v in init_items], "ops": lean_ops})
    ctx.count()
    ctx.dist[f"cons_history:ops={len(case['ops'])}"] += 1
    for op in case["ops"]:
        ctx.dist[f"cons_history:op={op['op']}"] += 1
    ctx.mark(("cons_history", prec, t, tuple(o["op"] for o in case["ops"])[:4]))
    if "ok" not in rep:
        ctx.disagree("cons_history", small(case), rep, "ok", "driver error")
    else:
        outs = rep["ok"]
        pos = 0
        for i, (r, d, cnt) in enumerate(impl_res):
            pos += cnt
            mo = outs[pos - 1]
            md = canon_dict((k, v) for k, v in mo["d"])
            # a ptycho-style op is "ok" iff every one of its per-entry adds was ok
            mr = "ok" if all(outs[j]["r"] == "ok" for j in range(pos - cnt, pos)) else "KeyError"
            if r != mr or d != md:
                ctx.disagree("cons_history", small(case), {"r": mr, "d": md}, {"r": r, "d": d}, f"constraints dict after op {i}")
                break
            if r != ref_res[i]:
                ctx.disagree("cons_history-oracle", small(case), ref_res[i], r, f"error kind at op {i}")
                break
    if canon_dict(om.constraints.items()) != canon_dict(ref.items()):
        # the requested constraints are not what the model holds: the predicate below (evaluated against the REQUEST) decides
        ctx.dist["cons_history:state_differs_from_request"] += 1
    cons = {k: ref[k] for k in CONS_KEYS_REL}
    check_object(ctx, drv, case, om, raw, cons, "obj", "cons_history")


def gen_probe_history_case(rng, prec):
    n = rng.weighted([(1, 1), (2, 4), (3, 4), (4, 2)])
    H = rng.randint(2, 5)
    W = rng.randint(2, 5)
    wk = rng.weighted([("default", 2), ("random", 4), ("unnormalised", 3)])
    if wk == "default":
        w = None
    elif wk == "random":
        w = [rng.uniform(0.05, 1.0) for _ in range(n)]
        w = [x / sum(w) for x in w]
    else:
        w = [float(rng.randint(1, 9)) for _ in range(n)]
    stack = np.array([cgauss(rng, H * W) * 10.0 ** rng.uniform(-1, 1) for _ in range(n)])
    inp = gen_inp(rng)
    return {"stream": "probe_history", "prec": prec, "n": n, "roi": [H, W], "wkind": wk, "w": w,
            "Ms": [10.0 ** rng.uniform(-1, 5) for _ in range(rng.randint(2, 4))], "seed": rng.below(1 << 30),
            "read_back": rng.chance(0.5), "reset": rng.chance(0.5), "inp": inp, "wcont": rng.choice(["list", "tuple", "np64", "np32", "t32", "t64"]),
            "mkinds": [rng.choice(["float", "np64", "np0d", "t0d64"]) for _ in range(4)], "stack": cx_to_list(rnd(stack, eff_prec(prec, inp)))}


def probe_intensity_predicate(ctx, case, arr, M, wreq, label, wtol):
    mode_I = np.sum(np.abs(np.fft.fft2(arr, norm="ortho")) ** 2, axis=(1, 2))
    tot = float(mode_I.sum())
    ctx.stat_max(f"probe_history:{case['prec']}:rel_total_intensity_error", abs(tot - M) / M)
    if not abs(tot - M) <= wtol * M:
        ctx.pred_fail(f"initial-probe-total-intensity:history:{label}", "total diffraction intensity of the (re-)initialised probe "
                      "differs from the mean intensity of that call", small(case), tot, M)
    if mode_I.shape != np.shape(wreq):
        ctx.pred_fail(f"initial-probe-weights:history:{label}", "the (re-)initialised probe does not have one mode per requested weight",
                      small(case), (mode_I / M).tolist(), np.asarray(wreq).tolist())
        return
    dw = float(np.max(np.abs(mode_I / M - wreq)))
    if not dw <= wtol:
        ctx.pred_fail(f"initial-probe-weights:history:{label}", "relative mode intensities of the (re-)initialised probe differ from "
                      "the requested weights", small(case), (mode_I / M).tolist(), wreq.tolist())


def run_probe_history(ctx, drv, case):
    import torch
    prec = case["prec"]
    set_prec(prec)
    n = case["n"]
    H, W = case["roi"]
    w = case["w"]
    cd = torch.complex64 if prec == "f32" else torch.complex128
    stack = cx_from_list(case["stack"], (n, H, W))
    inp = case.get("inp")
    inp_dist(ctx, "probe_history", inp)
    try:
        pm = make_probe(stack, prec, False, inp=inp, rng=case["seed"], initial_probe_weights=seq_as(w, case.get("wcont", "list")))
        twin = make_probe(stack, prec, False, inp=inp, rng=case["seed"], initial_probe_weights=seq_as(w, case.get("wcont", "list")))
    except ValueError as e:
        if rejected_layout(ctx, "probe_history", inp, e):
            return
        raise
    cd = pm.initial_probe.dtype           # a torch stack keeps its own dtype
    prec = eff_prec(prec, inp)
    wreq = (np.array([1 - 0.02 * (n - 1)] + [0.02] * (n - 1)) if w is None else np.array(w, dtype=np.float64) / float(np.sum(w)))
    w0 = pm.initial_probe_weights.detach().clone().numpy().astype(np.float64)
    wtol = max(PTOL[prec], 2e-6)
    recip = np.array([0.05, 0.05])
    steps, impl_stacks = [], []
    ctx.count()
    ctx.dist[f"probe_history:{prec}:n={n}:calls={len(case['Ms'])}"] += 1
    ctx.dist[f"probe_history:w={case['wkind']}"] += 1
    ctx.mark(("probe_history", prec, n, len(case["Ms"]), case["wkind"], case["read_back"], case["reset"]))
    ctx.sample({k: case[k] for k in case if k != "stack"})
    for i, M in enumerate(case["Ms"]):
        ramps = twin._apply_random_phase_shifts(torch.ones((n, H, W), dtype=cd)).detach().numpy().astype(np.complex128)
        pm.set_initial_probe((H, W), recip, scalar_as(M, (case.get("mkinds") or ["float"] * 4)[i % 4]))
        ip = pm.initial_probe.detach().numpy().astype(np.complex128)
        impl_stacks.append(ip)
        steps.append({"M": bits([M])[0], "ramps": [[enc_cx_row(r) for r in p] for p in ramps]})
        label = "first-call" if i == 0 else "repeated-call"
        probe_intensity_predicate(ctx, case, ip, float(M), wreq, label, wtol)
        if case["read_back"]:
            wi = pm.initial_probe_weights.detach().numpy().astype(np.float64)
            if float(np.max(np.abs(wi - w0))) > 0:
                ctx.disagree("probe_history-weights", small(case), w0.tolist(), wi.tolist(), f"stored requested weights changed after call {i}")
    if case["reset"]:
        pm.reset()
        probe_intensity_predicate(ctx, case, pm._probe.detach().numpy().astype(np.complex128), float(case["Ms"][-1]), wreq,
                                  "after-reset", wtol)
    rep = drv.ask({"op": "probe_history", "w": bits(w0), "stack": [[enc_cx_row(r) for r in p] for p in stack], "steps": steps})
    if "ok" not in rep:
        ctx.disagree("probe_history", small(case), rep, "ok", "driver error")
        return
    for i, st in enumerate(rep["ok"]["steps"]):
        model = np.array([[dec_cx_row(r) for r in p] for p in st["stack"]])
        ok, d = close(impl_stacks[i], model, TOL[prec])
        ctx.stat_max(f"probe_history:{prec}:max_rel_dist", d)
        if not ok:
            ctx.disagree("probe_history", small(case), cx_to_list(model), cx_to_list(impl_stacks[i]), f"initial probe after call {i}: rel dist {d:.3g}")
            break
    wfin = pm.initial_probe_weights.detach().numpy().astype(np.float64)
    if not np.array_equal(dec_real(rep["ok"]["w"]), wfin):
        ctx.disagree("probe_history-weights", small(case), dec_real(rep["ok"]["w"]).tolist(), wfin.tolist(), "stored requested weights after the history")


RUNNERS = {"object": run_object, "tomo": run_tomo, "gs": run_gs, "gs_exact": run_gs, "weights": run_weights}


# the model's counterexample (Props/C10.lean `amp_idempotent_complex_counterexample`): complex object 1, mask 1/2
CEX_CASE = {"stream": "object", "prec": "f64", "type": "complex", "shape": [1, 1, 2], "route": "obj",
            "cons": {"apply_fov_mask": True, "identical_slices": False, "positivity": True, "fix_potential_baseline": False,
                     "fix_potential_baseline_factor": 1.0},
            "raw": [[1.0, 0.0], [1.0, 0.0]], "mask": {"shape": [1, 2], "v": [0.5, 1.0]}}


# the model's counterexample (Props/C10.lean `gs_intensities_clamp_counterexample`): one mode of norm 1e-13 < clamp_min(1e-12)
CLAMP_CASE = {"stream": "gs_clamp", "prec": "f64", "n": 1, "roi": [2, 2], "setter": False,
              "modes": [[1e-13, 0.0], [0.0, 0.0], [0.0, 0.0], [0.0, 0.0]]}


def run_gs_clamp(ctx, drv, case):
    """clamp-active stack (outside the `ClampInactive` hypothesis of the theorems): correspondence with the model and the
    intensity predicate, reported under its own key (known finding)."""
    set_prec(case["prec"])
    n = case["n"]
    H, W = case["roi"]
    vs = cx_from_list(case["modes"], (n, H, W))
    pm = make_probe(vs, case["prec"], case["setter"])
    out = pm.probe.detach().numpy().astype(np.complex128).reshape(n, H * W)
    rep = drv.ask({"op": "gs", "modes": enc_cx2(vs.reshape(n, H * W))})
    ctx.count()
    ctx.dist["gs_clamp:witness"] += 1
    if "ok" not in rep:
        ctx.disagree("gs_clamp", small(case), rep, "ok", "driver error")
        return
    model = dec_cx2(rep["ok"]["modes"])
    if not (model.shape == out.shape and np.allclose(out, model, rtol=1e-9, atol=0.0)):
        ctx.disagree("gs_clamp", small(case), cx_to_list(model), cx_to_list(out), "clamp-active witness")
    Iin = np.sort(np.sum(np.abs(vs.reshape(n, -1)) ** 2, axis=1))
    Iout = np.sort(np.sum(np.abs(out) ** 2, axis=1))
    ctx.extra["clamp_active_witness_intensity_ratio"] = (Iout / Iin).tolist()
    if float(np.max(np.abs(Iout - Iin) / Iin)) > 1e-9:
        ctx.pred_fail("gs-intensity-multiset:clamp-active", "multiset of mode intensities changed by orthogonalisation "
                      "(residual norm below the absolute clamp_min(1e-12))", small(case), Iout.tolist(), Iin.tolist())



# --------------------------------------------------------------------------------------
# growth round 5: histories with REJECTED calls (compared with an untouched twin), several live models of one class,
# alternative (DIP) entry points, pinned class defaults
def enc_img3(a):
    return [[enc_cx_row(r) for r in p] for p in np.asarray(a, dtype=np.complex128)]


def dec_img3(x):
    return np.array([[dec_cx_row(r) for r in p] for p in x])


def gen_stack(rng, n, H, W, ep):
    """n random modes on H x W pixels, condition number <= 50, mode intensities pairwise >= 5% apart"""
    while True:
        st = np.array([cgauss(rng, H * W) * 10.0 ** rng.uniform(-0.7, 0.7) for _ in range(n)])
        st = rnd(st, ep)
        nn = np.linalg.norm(st, axis=1)
        sv = np.linalg.svd(st / nn[:, None], compute_uv=False)
        I = np.sort(nn ** 2)
        if sv[0] / sv[-1] <= 50 and (n == 1 or float(np.min(I[1:] / I[:-1])) >= 1.05):
            return st.reshape(n, H, W)


def gen_probe_ops_case(rng, prec):
    n = rng.weighted([(1, 1), (2, 4), (3, 4), (4, 2)])
    while True:
        H, W = rng.randint(2, 5), rng.randint(2, 5)
        if H * W >= 2 * n:
            break
    inp = gen_inp(rng)
    ep = eff_prec(prec, inp)

    def gen_w(kind=None):
        kind = kind or rng.weighted([("default", 2), ("random", 4), ("unnormalised", 3)])
        if kind == "default":
            return None
        if kind == "random":
            w = [rng.uniform(0.05, 1.0) for _ in range(n)]
            return [x / sum(w) for x in w]
        return [float(rng.randint(1, 9)) for _ in range(n)]

    def gen_op():
        kind = rng.weighted([("set_weights", 3), ("set_weights_bad", 4), ("set_initial", 3), ("set_initial_bad", 3),
                             ("set_probe", 2), ("set_probe_bad", 2), ("reset", 2), ("cons_bad", 1)])
        if kind == "set_weights":
            return {"op": kind, "w": gen_w(), "cont": rng.choice(["list", "tuple", "np64", "np32", "t32", "t64"])}
        if kind == "set_weights_bad":
            L = rng.choice([k for k in (0, 1, 1, 1, n - 1, n + 1, 2 * n) if k != n and k >= 0])
            return {"op": kind, "w": [float(rng.randint(1, 9)) for _ in range(L)], "cont": rng.choice(["list", "tuple", "np64", "t32"])}
        if kind == "set_initial":
            return {"op": kind, "M": 10.0 ** rng.uniform(-1, 5), "mkind": rng.choice(["float", "np64", "np0d", "t0d64"])}
        if kind == "set_initial_bad":
            why = rng.choice(["M0", "Mneg", "Mnegzero", "roi", "roiT"])
            if why == "roiT" and H == W:
                why = "roi"
            return {"op": kind, "why": why, "M": 10.0 ** rng.uniform(-1, 3)}
        if kind == "set_probe":
            return {"op": kind, "stack": cx_to_list(gen_stack(rng, n, H, W, ep))}
        if kind == "set_probe_bad":
            return {"op": kind, "why": rng.choice(["modes+", "cols+"] + (["modes-"] if n > 1 else []))}
        return {"op": kind}

    ops = [gen_op() for _ in range(rng.randint(2, 6))]
    # the history always ends with a valid (re-)initialisation that is then read
    ops.append({"op": "set_initial", "M": 10.0 ** rng.uniform(-1, 5), "mkind": "float"})
    return {"stream": "probe_ops", "prec": prec, "n": n, "roi": [H, W], "w": gen_w(), "wcont": rng.choice(["list", "np64", "t32"]),
            "seed": rng.below(1 << 30), "inp": inp, "stack": cx_to_list(gen_stack(rng, n, H, W, ep)), "ops": ops}


def run_probe_ops(ctx, drv, case):
    """one ProbePixelated driven through valid AND rejected public calls; an identically seeded twin receives the valid calls
    only.  After every call: error kind and state vs the Lean state machine (from the same pre-state), state vs the twin bit
    for bit; after every accepted set_initial_probe the intensity / weight predicate against the last ACCEPTED request."""
    import torch
    prec = case["prec"]
    set_prec(prec)
    n = case["n"]
    H, W = case["roi"]
    inp = case.get("inp")
    stack = cx_from_list(case["stack"], (n, H, W))
    inp_dist(ctx, "probe_ops", inp)
    mk = lambda: make_probe(stack, prec, False, inp=inp, rng=case["seed"], initial_probe_weights=seq_as(case["w"], case.get("wcont", "list")))
    try:
        pm, twin, ramp_src = mk(), mk(), mk()
    except ValueError as e:
        if rejected_layout(ctx, "probe_ops", inp, e):
            return
        raise
    cd = pm.initial_probe.dtype
    ep = eff_prec(prec, inp)
    tol = TOL[ep]
    wtol = max(PTOL[ep], 2e-6)
    recip = np.array([0.05, 0.05])
    dflt = np.array([1 - 0.02 * (n - 1)] + [0.02] * (n - 1))
    norm = lambda w: dflt if w is None else np.array(w, dtype=np.float64) / float(np.sum(w))
    wreq = norm(case["w"])
    ctx.count()
    ctx.dist[f"probe_ops:{ep}:n={n}:ops={len(case['ops'])}"] += 1
    kinds = tuple(o["op"] for o in case["ops"])
    ctx.mark(("probe_ops", ep, n, kinds[:4]))
    ctx.sample({k: case[k] for k in case if k not in ("stack", "ops")} | {"ops": [o["op"] + (":" + o["why"] if "why" in o else "") for o in case["ops"]]})

    def state(m):
        return (m.initial_probe_weights.detach().numpy().astype(np.float64).copy(),
                m.initial_probe.detach().numpy().astype(np.complex128).copy(),
                m._probe.detach().numpy().astype(np.complex128).copy())

    def call(m, op):
        """perform `op` on model `m`; returns the exception class name or 'ok'"""
        k = op["op"]
        try:
            if k in ("set_weights", "set_weights_bad"):
                m.initial_probe_weights = seq_as(op["w"], op.get("cont", "list"))
            elif k == "set_initial":
                m.set_initial_probe((H, W), recip, scalar_as(op["M"], op.get("mkind", "float")))
            elif k == "set_initial_bad":
                why = op["why"]
                roi = {"roi": (H, W + 1), "roiT": (W, H)}.get(why, (H, W))
                M = {"M0": 0.0, "Mneg": -abs(op["M"]), "Mnegzero": -0.0}.get(why, op["M"])
                m.set_initial_probe(roi, recip, M)
            elif k == "set_probe":
                m.probe = cx_from_list(op["stack"], (n, H, W))
            elif k == "set_probe_bad":
                shp = {"modes+": (n + 1, H, W), "modes-": (n - 1, H, W), "cols+": (n, H, W + 1)}[op["why"]]
                m.probe = np.ones(shp, dtype=np.complex128)
            elif k == "reset":
                m.reset()
            elif k == "cons_bad":
                m.add_constraint("bogus_key", True)
            return "ok"
        except (ValueError, KeyError, TypeError, RuntimeError) as e:
            return type(e).__name__

    rejected_before = False
    lean_hist = []
    w_init = state(pm)[0]
    for i, op in enumerate(case["ops"]):
        k = op["op"]
        ctx.dist[f"probe_ops:op={k}" + (":" + op["why"] if "why" in op else "")] += 1
        pre = state(pm)
        lop = None
        if k in ("set_weights", "set_weights_bad"):
            lop = {"op": "set_weights", "w": None if op["w"] is None else bits(np.array(op["w"], dtype=np.float32))}
        elif k == "set_initial":
            ramps = ramp_src._apply_random_phase_shifts(torch.ones((n, H, W), dtype=cd)).detach().numpy().astype(np.complex128)
            lop = {"op": "set_initial", "roi": [H, W], "M": bits([op["M"]])[0], "ramps": enc_img3(ramps)}
        elif k == "set_initial_bad":
            why = op["why"]
            roi = {"roi": [H, W + 1], "roiT": [W, H]}.get(why, [H, W])
            M = {"M0": 0.0, "Mneg": -abs(op["M"]), "Mnegzero": -0.0}.get(why, op["M"])
            lop = {"op": "set_initial", "roi": roi, "M": bits([M])[0], "ramps": enc_img3(np.ones((n, H, W)))}
        elif k == "set_probe":
            lop = {"op": "set_probe", "p": enc_img3(cx_from_list(op["stack"], (n, H, W)))}
        elif k == "set_probe_bad":
            shp = {"modes+": (n + 1, H, W), "modes-": (n - 1, H, W), "cols+": (n, H, W + 1)}[op["why"]]
            lop = {"op": "set_probe", "p": enc_img3(np.ones(shp))}
        elif k == "reset":
            lop = {"op": "reset"}
        r = call(pm, op)
        bad = k.endswith("_bad")
        if not bad:
            rt = call(twin, op)
            if rt != "ok":
                ctx.disagree("probe_ops", small(case), "ok", rt, f"valid call {i} ({k}) rejected on the twin")
        if k in ("set_weights", "set_weights_bad") and not bad:
            wreq = norm(op["w"])
        post = state(pm)
        # --- one step of the Lean state machine from the same pre-state
        if lop is not None:
            lean_hist.append(lop)
            rep = drv.ask({"op": "probe_ops", "n": n, "roi": [H, W], "w": bits(pre[0]), "stack": enc_img3(pre[1]), "param": enc_img3(pre[2]),
                           "orth": True, "ops": [lop]})
            if "ok" not in rep:
                ctx.disagree("probe_ops", small(case), rep, "ok", "driver error")
                return
            st = rep["ok"]["steps"][0]
            if st["r"] != r:
                ctx.disagree("probe_ops", small(case), st["r"], r, f"error kind of call {i} ({k}{':' + op['why'] if 'why' in op else ''})")
            mw = dec_real(st["w"])
            okw = mw.shape == post[0].shape and (mw.size == 0 or float(np.max(np.abs(mw - post[0]))) <= 1e-6)
            if not okw:
                ctx.disagree("probe_ops-weights", small(case), mw.tolist(), post[0].tolist(), f"stored weights after call {i} ({k})")
            if k != "set_weights" and okw:      # (the model's float64 normalisation differs from the stored float32 by 1 ulp32)
                for nm, mv, iv in (("initial_probe", dec_img3(st["initial"]), post[1]), ("raw probe", dec_img3(st["param"]), post[2])):
                    ok, d = close(iv, mv, tol)
                    ctx.stat_max(f"probe_ops:{ep}:max_rel_dist", d if d != float("inf") else 1e300)
                    if not ok:
                        ctx.disagree("probe_ops", small(case), cx_to_list(mv)[:8], cx_to_list(iv)[:8], f"{nm} after call {i} ({k}): rel dist {d:.3g}")
                        break
        elif r != "KeyError":
            ctx.disagree("probe_ops", small(case), "KeyError", r, f"error kind of call {i} (invalid constraint key)")
        # --- exception safety: a rejected call leaves NOTHING behind (state equals the twin's, bit for bit)
        tw = state(twin)
        for nm, a, b in zip(("initial_probe_weights", "initial_probe", "raw probe"), post, tw):
            if a.shape != b.shape or not np.array_equal(a, b):
                ctx.disagree("probe_ops-twin", small(case), b.ravel()[:8].tolist() if not np.iscomplexobj(b) else cx_to_list(b)[:8],
                             a.ravel()[:8].tolist() if not np.iscomplexobj(a) else cx_to_list(a)[:8],
                             f"{nm} differs from a twin that never received the rejected calls, after call {i} ({k})")
                break
        if bad and r == "ok":
            rejected_before = True     # accepted an invalid request: the model already reported it
        if bad:
            rejected_before = True
        # --- predicate after every accepted (re-)initialisation: the last ACCEPTED request decides
        if k == "set_initial" and r == "ok":
            label = "after-rejected-call" if rejected_before else "valid-calls-only"
            probe_intensity_predicate(ctx, case, post[1], float(op["M"]), wreq, label, wtol)
        elif k == "set_initial" and r != "ok":
            ctx.pred_fail("initial-probe-raises:history", "a valid set_initial_probe raised after an earlier call on the model had been rejected"
                          if rejected_before else "a valid set_initial_probe raised", small(case), r, "ok")
            return
    # --- whole-history: the stored weights are the last accepted request (Lean `lastAcceptedWeights`, python oracle)
    rep = drv.ask({"op": "probe_ops", "n": n, "roi": [H, W], "w": bits(w_init),
                   "stack": enc_img3(stack), "orth": True, "ops": [o for o in lean_hist if o["op"] == "set_weights"]})
    wfin = state(pm)[0]
    if "ok" in rep:
        wl = dec_real(rep["ok"]["wlast"])
        if wl.shape != wfin.shape or wreq.shape != wfin.shape or float(np.max(np.abs(wl - wfin), initial=0.0)) > 1e-6 \
                or float(np.max(np.abs(wreq - wfin), initial=0.0)) > 1e-6:
            ctx.disagree("probe_ops-weights", small(case), wl.tolist(), wfin.tolist(), "stored weights after the history vs the last accepted request")
    else:
        ctx.disagree("probe_ops", small(case), rep, "ok", "driver error")
    # --- the probe handed to the forward model after the final (re-)initialisation
    out = pm.probe.detach().numpy().astype(np.complex128)
    par = state(pm)[2]
    if out.shape != (n, H, W) or par.shape != (n, H, W):
        ctx.disagree("probe_ops", small(case), [n, H, W], [list(out.shape), list(par.shape)], "shape of the probe after the history")
        return
    out, par = out.reshape(n, H * W), par.reshape(n, H * W)
    nn = np.linalg.norm(par, axis=1)
    if np.all(nn > 0) and np.all(np.isfinite(nn)):
        sv = np.linalg.svd(par / nn[:, None], compute_uv=False)
        if sv[-1] > 0 and sv[0] / sv[-1] <= 50:
            gs_predicate(ctx, case, par, out, PTOL[ep] if ep == "f64" else 5e-5, ":history")
        else:
            ctx.dist["probe_ops:final-read-skipped:ill-conditioned"] += 1


def _reg_values(rng, cls, k):
    if cls == "object":
        return gen_cons_value(rng, k)
    if cls == "probe":
        return {"orthogonalize_probe": rng.chance(0.4), "center_probe": False}.get(k, rng.choice([0.0, 0.5]))
    return {"positivity": rng.chance(0.5), "shrinkage": rng.choice([False, 0.0, 0.25, 0.5])}.get(k, rng.chance(0.5))


REG_KEYS = {"object": CONS_KEYS_REL * 3 + ["tv_weight_xy", "tv_weight_z", "surface_zero_weight", "butterworth_order"],
            "probe": ["orthogonalize_probe"] * 3 + ["center_probe", "tv_weight"],
            "tomo": ["positivity"] * 3 + ["shrinkage"] * 2 + ["fourier_filter", "circular_mask"]}
REG_FLIP = {"object": [("positivity", False), ("identical_slices", True), ("apply_fov_mask", True), ("fix_potential_baseline", True)],
            "probe": [("orthogonalize_probe", False)], "tomo": [("positivity", False), ("positivity", True)]}


def gen_registry_case(rng, prec):
    cls = rng.weighted([("object", 5), ("probe", 3), ("tomo", 2)])
    n0 = rng.weighted([(2, 3), (3, 1)])
    nmod = n0
    ops = []
    if cls == "tomo":       # the defaults claim nothing: first request positivity on every model
        ops += [{"op": "add", "i": j, "k": "positivity", "v": True} for j in range(n0) if rng.chance(0.7)]
    # the seeded kind of history made frequent: ONE model is switched to the non-default value of a property-relevant key
    if rng.chance(0.7):
        k, v = rng.choice(REG_FLIP[cls])
        ops.append({"op": rng.choice(["add", "set"]), "i": rng.below(n0), "k": k, "v": v})
        if ops[-1]["op"] == "set":
            ops[-1] = {"op": "set", "i": ops[-1]["i"], "items": [[k, v]]}
    for _ in range(rng.randint(1, 5)):
        kind = rng.weighted([("add", 4), ("set", 3), ("add_bad", 1), ("set_bad", 1), ("reset_defaults", 1), ("new", 1)])
        i = rng.below(nmod)
        if kind == "new":
            if nmod >= 4:
                continue
            nmod += 1
            ops.append({"op": "new"})
        elif kind == "add":
            k = rng.choice(REG_KEYS[cls])
            ops.append({"op": "add", "i": i, "k": k, "v": _reg_values(rng, cls, k)})
        elif kind == "add_bad":
            ops.append({"op": "add", "i": i, "k": "bogus_key", "v": True})
        elif kind == "reset_defaults":
            ops.append({"op": "reset_defaults", "i": i})
        else:
            ks = rng.sample(sorted(set(REG_KEYS[cls])), rng.randint(1, min(3, len(set(REG_KEYS[cls])))))
            if kind == "set_bad":
                ks.insert(rng.randint(0, len(ks)), "bogus_key")
            ops.append({"op": "set", "i": i, "items": [[k, True if k == "bogus_key" else _reg_values(rng, cls, k)] for k in ks]})
    if rng.chance(0.4) and nmod < 4:
        ops.append({"op": "new"})       # a model built AFTER the others were configured relies on the class defaults
    return {"stream": "registry", "prec": prec, "cls": cls, "type": rng.choice(["complex", "pure_phase", "potential", "potential"]),
            "n0": n0, "ops": ops, "shape": [rng.randint(1, 2), rng.randint(1, 3), rng.randint(2, 3)], "n": rng.randint(2, 3),
            "roi": [rng.randint(2, 3), rng.randint(3, 4)], "rawseed": rng.below(1 << 30), "route": "obj"}


DEFAULTS_SNAPSHOT = {}


def class_defaults():
    """the three class-level default dictionaries (deep copies)"""
    import copy
    from quantem.diffractive_imaging.object_models import ObjectConstraints
    from quantem.diffractive_imaging.probe_models import ProbeConstraints
    from quantem.tomography.object_models import ObjectConstraints as TomoConstraints
    return {"object": copy.deepcopy(ObjectConstraints.DEFAULT_CONSTRAINTS), "probe": copy.deepcopy(ProbeConstraints.DEFAULT_CONSTRAINTS),
            "tomo": copy.deepcopy(TomoConstraints.DEFAULT_HARD_CONSTRAINTS)}


def run_registry(ctx, drv, case):
    """several live models of ONE class; valid and rejected configuration calls addressed to any of them; then EVERY model is
    read and checked against ITS OWN requests (python oracle) -- configuring model A must not configure model B, and a model
    built later starts from the class defaults.  Dictionaries vs the Lean registry (`regStep`) after every call."""
    import torch
    from qv.prng import Rng
    from quantem.diffractive_imaging.object_models import ObjectPixelated
    from quantem.tomography.object_models import ObjectVoxelwise
    prec, cls, t = case["prec"], case["cls"], case["type"]
    set_prec(prec)
    snap = DEFAULTS_SNAPSHOT.get(cls) or class_defaults()[cls]
    allowed = list(snap.keys())
    S, H, W = case["shape"]
    n = case["n"]
    rh, rw = case["roi"]
    models, raws, refs = [], [], []

    def build():
        j = len(models)
        rng = Rng(case["rawseed"] + 7919 * j)
        if cls == "object":
            cnt = S * H * W
            if t == "potential":
                raw = np.array([gauss(rng) for _ in range(cnt)]).reshape(S, H, W)
            else:
                raw = (np.array([rng.uniform(0.0, 2.0) for _ in range(cnt)]) * np.exp(1j * np.array([rng.uniform(-3.0, 3.0) for _ in range(cnt)]))).reshape(S, H, W)
            raw = rnd(raw, prec)
            m = ObjectPixelated.from_array(raw.copy(), slice_thicknesses=1.0 if S > 1 else None, obj_type=t)
            m._initialize_obj((S, H, W), (1.0, 1.0))
            m.mask = rnd(gen_mask(rng, S, H, W), prec)
        elif cls == "probe":
            raw = gen_stack(rng, n, rh, rw, prec)
            m = make_probe(raw, prec, False)
        else:
            raw = rnd(np.array([gauss(rng) for _ in range(S * H * W)]), "f32").reshape(S, H, W)
            m = ObjectVoxelwise((S, H, W), "cpu")
            m.obj = torch.tensor(raw.astype(np.float32))
        models.append(m)
        raws.append(raw)
        refs.append(dict(snap))       # independent oracle: every model starts from the class defaults ...

    cdict = (lambda m: m.hard_constraints) if cls == "tomo" else (lambda m: m.constraints)

    def do(m, op):
        try:
            if op["op"] == "add":
                (m.add_hard_constraint if cls == "tomo" else m.add_constraint)(op["k"], op["v"])
            elif op["op"] == "set":
                if cls == "tomo":
                    m.hard_constraints = dict((k, v) for k, v in op["items"])
                else:
                    m.constraints = dict((k, v) for k, v in op["items"])
            else:   # what PtychographyBase.reset_recon does: assign the class defaults
                if cls == "tomo":
                    m.hard_constraints = type(m).DEFAULT_HARD_CONSTRAINTS
                else:
                    m.constraints = type(m).DEFAULT_CONSTRAINTS
            return "ok"
        except KeyError:
            return "KeyError"

    for _ in range(case["n0"]):
        build()
    ctx.count()
    ctx.dist[f"registry:{cls}:models={case['n0']}:ops={len(case['ops'])}"] += 1
    ctx.mark(("registry", cls, t if cls == "object" else "", case["n0"], tuple(o["op"] for o in case["ops"])[:4]))
    ctx.sample({k: case[k] for k in case})
    impl_steps = []
    for op in case["ops"]:
        ctx.dist[f"registry:op={op['op']}"] += 1
        if op["op"] == "new":
            build()
            r = "ok"
        else:
            j = op["i"]
            r = do(models[j], op)
            # ... and only the requests addressed to it are applied (entries before an invalid key stay applied)
            items = [(op["k"], op["v"])] if op["op"] == "add" else (list(snap.items()) if op["op"] == "reset_defaults" else [(k, v) for k, v in op["items"]])
            for k, v in items:
                if k not in snap:
                    break
                refs[j][k] = v
        impl_steps.append({"r": r, "reg": [canon_dict(cdict(m).items()) for m in models]})
    rep = drv.ask({"op": "registry", "allowed": allowed, "defaults": [[k, v] for k, v in snap.items()], "n0": case["n0"], "ops": case["ops"]})
    if "ok" not in rep:
        ctx.disagree("registry", small(case), rep, "ok", "driver error")
    else:
        for i, (ms, im) in enumerate(zip(rep["ok"]["steps"], impl_steps)):
            mreg = [canon_dict((k, v) for k, v in d) for d in ms["reg"]]
            if ms["r"] != im["r"] or mreg != im["reg"]:
                ctx.disagree("registry", small(case), {"r": ms["r"], "reg": mreg}, im, f"constraint dictionaries of all live models after call {i}")
                break
        fin = rep["ok"]["steps"][-1]["reg"] if rep["ok"]["steps"] else []
        for j, al in enumerate(rep["ok"]["alone"]):
            if al is not None and al != fin[j]:
                ctx.disagree("registry-model", small(case), al, fin[j], f"Lean: model {j} run alone differs from its registry entry")
    now = class_defaults()[cls]
    if canon_dict(now.items()) != canon_dict(snap.items()):
        ctx.disagree("class-defaults", small(case), canon_dict(snap.items()), canon_dict(now.items()),
                     f"the class-level default constraints of the {cls} models changed while models were configured")
    # --- read EVERY model; the predicate is evaluated against that model's own requests
    for j, m in enumerate(models):
        ref = refs[j]
        if canon_dict(cdict(m).items()) != canon_dict(ref.items()):
            ctx.dist["registry:state_differs_from_request"] += 1
        sub = dict(case)
        sub["read_model"] = j
        if cls == "object":
            cons = {k: ref[k] for k in CONS_KEYS_REL}
            check_object(ctx, drv, sub, m, raws[j], cons, "obj", "registry")
        elif cls == "probe":
            out = m.probe.detach().numpy().astype(np.complex128).reshape(n, rh * rw)
            par = raws[j].reshape(n, rh * rw)
            ctx.count()
            if ref["orthogonalize_probe"]:
                gs_predicate(ctx, sub, par, out, PTOL[prec] if prec == "f64" else 5e-5, ":second-model" if j else ":first-model")
            elif not np.array_equal(out, rnd(par, prec)):
                ctx.disagree("registry-probe", small(sub), cx_to_list(par)[:6], cx_to_list(out)[:6], "orthogonalisation off: probe is not the raw parameter")
        else:
            impl = m.obj.detach().numpy().astype(np.float64).ravel()
            ctx.count()
            tv = lambda v: None if v is None else ({"b": v} if isinstance(v, bool) else {"n": bits([np.float32(v)])[0]})
            rp = drv.ask({"op": "tomo_d", "pos": tv(ref["positivity"]), "shr": tv(ref["shrinkage"]), "obj": bits(raws[j].astype(np.float64).ravel())})
            if "ok" in rp:
                ok, d = close(impl, dec_real(rp["ok"]["obj"]), TOL["f32"])
                if not ok:
                    ctx.disagree("registry-tomo", small(sub), dec_real(rp["ok"]["obj"]).tolist(), impl.tolist(), f"model {j}: rel dist {d:.3g}")
            if ref["positivity"] and not np.all(impl >= 0.0):
                ctx.pred_fail("tomo-negative:second-model" if j else "tomo-negative:first-model", "tomography object has negative values although "
                              "positivity was requested for THIS model", small(sub), float(impl.min()), ">= 0")


class _IdentityNet:
    """built lazily (torch import): a network that returns its input -- the DIP classes then hand the generated raw array to
    the same hard constraints through their own `obj` / `probe` properties"""
    net = None

    @classmethod
    def make(cls, dtype):
        import torch
        import torch.nn as nn
        if cls.net is None:
            class Id(nn.Module):
                def __init__(self, dt):
                    super().__init__()
                    self.dtype = dt
                    self.scale = nn.Parameter(torch.ones(1, dtype=dt))

                def forward(self, x):
                    return x            # (x * 1 would already lose signed zeros and turn inf into NaN in complex arithmetic)
            cls.net = Id
        return cls.net(dtype)


def run_object_dip(ctx, drv, case):
    """alternative entry point: `ObjectDIP.obj` (network output -> apply_hard_constraints) with an identity network"""
    import torch
    from quantem.diffractive_imaging.object_models import ObjectDIP
    prec, t = case["prec"], case["type"]
    S, H, W = case["shape"]
    set_prec(prec)
    cons = dict(case["cons"])
    raw = (cx_from_list(case["raw"], (S, H, W)) if t != "potential" else np.array(case["raw"], dtype=np.float64).reshape(S, H, W))
    raw = rnd(raw, prec)
    cd = (torch.complex64 if prec == "f32" else torch.complex128) if t != "potential" else (torch.float32 if prec == "f32" else torch.float64)
    m = ObjectDIP.from_model(_IdentityNet.make(cd), torch.tensor(raw).type(cd), num_slices=S, slice_thicknesses=1.0 if S > 1 else None,
                             input_noise_std=0.0, obj_type=t)
    m.constraints = dict(cons)
    if case["mask"] is not None:
        m.mask = rnd(np.array(case["mask"]["v"], dtype=np.float64).reshape(case["mask"]["shape"]), prec)
    else:
        m.mask = np.ones((H, W))
    check_object(ctx, drv, case, m, raw, cons, "dip_obj", "object_dip")


def check_defaults(ctx, drv):
    """the class defaults the Lean model declares (Model/Constraints.lean `objDefaultCons`, ...) against the class attributes"""
    rep = drv.ask({"op": "defaults"})
    now = class_defaults()
    ctx.count()
    if "ok" not in rep:
        ctx.disagree("class-defaults", {"stream": "defaults"}, rep, "ok", "driver error")
        return
    want = rep["ok"]
    for cls in ("object", "probe", "tomo"):
        for k, mv in want[cls].items():
            if isinstance(mv, dict):
                mv = mv["b"] if "b" in mv else b2f_(mv["n"])
            elif isinstance(mv, int) and not isinstance(mv, bool):
                mv = b2f_(mv)
            iv = now[cls].get(k, "<missing>")
            same = (iv is mv) if isinstance(mv, bool) or mv is None else (not isinstance(iv, bool) and isinstance(iv, (int, float)) and float(iv) == mv)
            if not same:
                ctx.disagree("class-defaults", {"stream": "defaults", "cls": cls, "key": k}, mv, repr(iv), f"default of {cls} constraint '{k}'")


def b2f_(n):
    return float(np.array([n], dtype=np.uint64).view(np.float64)[0])


RUNNERS["gs_clamp"] = run_gs_clamp
RUNNERS["pipeline"] = run_pipeline
RUNNERS["cons_history"] = run_cons_history
RUNNERS["probe_history"] = run_probe_history
RUNNERS["probe_ops"] = run_probe_ops
RUNNERS["registry"] = run_registry
RUNNERS["object_dip"] = run_object_dip


# --------------------------------------------------------------------------------------
# growth round 6: ProbeConstraints.apply_hard_constraints with BOTH options (center_probe was not modelled before), three and more
# modes in every raw intensity order, H > W and H < W, repeated reads / a raw parameter replaced between reads / two live models;
# the object read, retyped / reconfigured and read again without an optimiser step
def _dyadic(n):
    return n & (n - 1) == 0


def gen_probe_hard2_case(rng, prec, n=None, roi=None, order=None, orth=True, center=None, tie=None, seed=None):
    n = n or rng.weighted([(1, 1), (2, 2), (3, 4), (4, 3), (5, 2)])
    H, W = roi or rng.choice([(2, 4), (4, 2), (4, 8), (8, 4), (3, 5), (5, 3), (4, 4), (3, 4), (2, 7), (6, 2)])
    order = order or rng.choice(["asc", "desc", "unsorted"])
    center = rng.chance(0.5) if center is None else center
    while True:
        st = gen_stack(rng, n, H, W, prec).reshape(n, H * W)
        st = st / np.linalg.norm(st, axis=1)[:, None]
        nn = np.sort(np.array([10.0 ** rng.uniform(-0.6, 0.6) for _ in range(n)]))
        if n > 1 and float(np.min(nn[1:] / nn[:-1])) < 1.03:
            continue
        break
    if tie == "pair" and n >= 2:
        nn[1] = nn[0]
    elif tie == "all":
        nn[:] = nn[0]
    if order == "desc":
        nn = nn[::-1]
    elif order == "unsorted" and n > 2:
        perm = list(range(n))
        while perm == sorted(perm) or perm == sorted(perm, reverse=True):
            perm = rng.shuffle(perm)
        nn = nn[perm]
    st = rnd(st * nn[:, None], prec)
    return {"stream": "probe_hard2", "prec": prec, "n": n, "roi": [H, W], "order": order, "orth": bool(orth), "center": bool(center),
            "tie": tie, "modes": cx_to_list(st)}


def _capture_shift(pmod):
    """wrap the module-level `fourier_shift_expand` of probe_models (a public helper imported from ptycho_utils) to see the
    offsets `_probe_center_of_mass_constraint` hands to it; if the name is gone the internal-stage comparison is skipped"""
    orig = getattr(pmod, "fourier_shift_expand", None)
    seen = []
    if orig is None:
        return None, seen, lambda: None

    def wrapped(array, positions, *a, **k):
        try:
            seen.append(np.asarray(positions.detach().cpu().numpy() if hasattr(positions, "detach") else positions, dtype=np.float64))
        except Exception:
            pass
        return orig(array, positions, *a, **k)
    pmod.fourier_shift_expand = wrapped
    return orig, seen, lambda: setattr(pmod, "fourier_shift_expand", orig)


def _hard2_read(ctx, drv, case, pm, vs, label):
    """one constrained read of `pm` whose raw parameter is `vs` (n, H, W): Lean `probeApplyHard2` vs `pm.probe`, the
    centre-of-mass offsets as an internal stage, the property predicate on the real output"""
    import torch
    import quantem.diffractive_imaging.probe_models as pmod
    prec, n = case["prec"], case["n"]
    H, W = case["roi"]
    orth, center, tie = case["orth"], case["center"], case.get("tie")
    orig, seen, restore = _capture_shift(pmod)
    try:
        with torch.no_grad():
            out = pm.probe.detach().numpy().astype(np.complex128)
    finally:
        restore()
    ctx.count()
    ctx.dist[f"probe_hard2:{prec}:n={n}:orth={orth}:center={center}"] += 1
    ctx.dist[f"probe_hard2:shape={'H>W' if H > W else ('H<W' if H < W else 'H=W')}"] += 1
    ctx.dist[f"probe_hard2:order={case.get('order')}:tie={tie}"] += 1
    ctx.dist[f"probe_hard2:read={label}"] += 1
    ctx.mark(("probe_hard2", prec, n, orth, center, H > W, H < W, case.get("order"), tie, label))
    if out.shape != (n, H, W):
        ctx.pred_fail(f"gs-mode-count:n={n}:{label}", "the probe handed out has a different shape than the raw stack", small(case),
                      list(out.shape), [n, H, W])
        return
    dy = _dyadic(H) and _dyadic(W)
    # the phase ramp of fourier_translation_operator goes through float32 stages (fftfreq cast to float32; ~2e-8 seen on the
    # unchanged tree even for power-of-two sizes): centred reads are compared at the float32-path tolerance class
    tol = TOL[prec] if not center else max(TOL[prec], 2e-5)
    if not tie:          # torch.argsort is not stable and the restored norms differ by ulps: tied stacks have no unique order
        rep = drv.ask({"op": "probe_hard2", "orth": orth, "center": center, "probes": enc_img3(vs)})
        if "ok" not in rep:
            ctx.disagree("probe_hard2", small(case), rep, "ok", "driver error")
        else:
            model = dec_img3(rep["ok"]["probes"])
            ok, d = close(out, model, tol)
            ctx.stat_max(f"probe_hard2:{prec}:{'dyadic' if dy else 'nondyadic'}:center={center}:max_rel_dist", d)
            if not ok:
                ctx.disagree("probe_hard2", small(case), cx_to_list(model), cx_to_list(out), f"{label}: rel dist {d:.3g} > {tol}")
            if center and orig is not None:
                if len(seen) == 1 and seen[0].shape == (n, 2):
                    msh = -dec_real2(rep["ok"]["shifts"])     # the code hands over MINUS the offset
                    oks, ds = close(seen[0], msh, max(tol, 1e-7 if prec == "f64" else 5e-4))
                    ctx.stat_max(f"probe_hard2:{prec}:com_offset:max_rel_dist", ds)
                    if not oks:
                        ctx.disagree("probe_hard2-com-offset", small(case), msh.tolist(), seen[0].tolist(), f"{label}: centre-of-mass offsets differ {ds:.3g}")
                else:
                    ctx.extra["probe_hard2_com_stage"] = "fourier_shift_expand not called once per read with (n, 2) offsets: internal stage skipped"
            elif center:
                ctx.extra["probe_hard2_com_stage"] = "probe_models.fourier_shift_expand not found: internal stage skipped"
    ptol = PTOL[prec] if prec == "f64" else 5e-5
    flat_in, flat_out = vs.reshape(n, H * W), out.reshape(n, H * W)
    Iin, Iout = np.sum(np.abs(flat_in) ** 2, axis=1), np.sum(np.abs(flat_out) ** 2, axis=1)
    sfx = f":{label}" + (":center" if center else "") + (":tie" if tie else "")
    if orth and not center:
        gs_predicate(ctx, case, flat_in, flat_out, ptol, sfx)
    elif orth:
        # centring shifts every mode by its own offset (unitary per mode): the intensity clauses are evaluated, the orthogonality
        # of differently shifted modes is only MEASURED (center_probe_keeps_intensities; see the report)
        dI = float(np.max(np.abs(np.sort(Iout) - np.sort(Iin)) / np.sort(Iin)))
        if not dI <= max(ptol, 2e-5):
            ctx.pred_fail(f"gs-intensity-multiset:n={n}{sfx}", "multiset of mode intensities changed by the probe constraints", small(case),
                          np.sort(Iout)[::-1].tolist(), np.sort(Iin)[::-1].tolist())
        if n > 1 and not np.all(Iout[:-1] >= Iout[1:] * (1 - max(ptol, 2e-5))):
            ctx.pred_fail(f"gs-not-descending:n={n}{sfx}", "constrained probe modes are not in descending intensity order", small(case),
                          Iout.tolist(), "descending")
        nn = np.sqrt(Iout)
        w = max([abs(np.vdot(flat_out[i], flat_out[j])) / (nn[i] * nn[j]) for i in range(n) for j in range(i + 1, n)] or [0.0])
        ctx.stat_max("probe_hard2:center:max_normalised_inner_product(measured only)", float(w))
    else:
        # orthogonalisation off: nothing is claimed by the property; the model says centring keeps each mode's intensity in place
        dI = float(np.max(np.abs(Iout - Iin) / Iin))
        ctx.stat_max(f"probe_hard2:{prec}:center-only:max_rel_intensity_change", dI)


def run_probe_hard2(ctx, drv, case):
    prec, n = case["prec"], case["n"]
    H, W = case["roi"]
    set_prec(prec)
    vs = cx_from_list(case["modes"], (n, H, W))
    pm = make_probe(vs, prec, False)
    other = make_probe(vs[::-1].copy() * 0.5, prec, False)          # a second live model with ANOTHER stack and other options
    other.add_constraint("center_probe", not case["center"])
    pm.add_constraint("orthogonalize_probe", case["orth"])
    pm.add_constraint("center_probe", case["center"])
    ctx.sample({k: case[k] for k in case if k != "modes"})
    _hard2_read(ctx, drv, case, pm, vs, "first")
    _ = other.probe                                                 # the other model is read in between
    _hard2_read(ctx, drv, case, pm, vs, "repeat")                  # the same call repeated
    if n > 1:
        vs2 = np.ascontiguousarray(np.roll(vs, 1, axis=0))          # the raw parameter replaced (modes in another order), no rebuild
        pm.probe = vs2.copy()
        _hard2_read(ctx, drv, case, pm, vs2, "after-new-raw")


def gen_obj_retype_case(rng, prec, shape=None, seq=None):
    S, H, W = shape or rng.choice([(1, 2, 3), (2, 3, 1), (2, 1, 3), (3, 2, 2), (2, 2, 4), (3, 4, 1)])
    n = S * H * W
    mag = np.array([rng.choice([0.25, 0.5, 1.0, 1.5, 3.0, rng.uniform(0.0, 2.5)]) for _ in range(n)])
    ph = np.array([rng.choice([math.pi - 1e-3, -(math.pi - 1e-3), 3.0, -3.0, 0.5, -0.5, rng.uniform(-math.pi, math.pi)]) for _ in range(n)])
    raw = rnd(mag * np.exp(1j * ph), prec)
    mask = gen_mask(rng, S, H, W)
    t0 = rng.choice(["complex", "pure_phase"])
    other = {"complex": "pure_phase", "pure_phase": "complex"}
    seq = seq or [rng.choice([{"op": "type", "t": other[t0]}, {"op": "cons", "k": "apply_fov_mask", "v": True},
                              {"op": "cons", "k": "identical_slices", "v": True}, {"op": "type", "t": t0},
                              {"op": "cons", "k": "apply_fov_mask", "v": False}, {"op": "cons", "k": "identical_slices", "v": False}])
                  for _ in range(rng.randint(2, 4))]
    return {"stream": "obj_retype", "prec": prec, "type": t0, "shape": [S, H, W], "seq": seq, "raw": cx_to_list(raw),
            "mask": {"shape": list(mask.shape), "v": [float(x) for x in rnd(mask, prec).ravel()]}}


def run_obj_retype(ctx, drv, case):
    """read, change obj_type / a constraint, read again -- no optimiser step, no rebuild, everything under torch.no_grad():
    every read must be the constraint of the CURRENT configuration (read_has_no_memory, read_after_retype_admissible)"""
    from quantem.diffractive_imaging.object_models import ObjectPixelated
    prec = case["prec"]
    S, H, W = case["shape"]
    set_prec(prec)
    raw = cx_from_list(case["raw"], (S, H, W))
    mask = np.array(case["mask"]["v"], dtype=np.float64).reshape(case["mask"]["shape"])
    om = ObjectPixelated.from_array(raw.copy(), slice_thicknesses=1.0 if S > 1 else None, obj_type=case["type"])
    om._initialize_obj((S, H, W), (1.0, 1.0))
    om.mask = mask
    twin = ObjectPixelated.from_array(raw.copy(), slice_thicknesses=1.0 if S > 1 else None, obj_type=case["type"])   # second live object,
    twin._initialize_obj((S, H, W), (1.0, 1.0))                                                                       # never reconfigured
    twin.mask = mask
    cons = {k: (DEFAULTS_SNAPSHOT.get("object") or ObjectPixelated.DEFAULT_CONSTRAINTS)[k] for k in CONS_KEYS_REL}
    cons0, t = dict(cons), case["type"]
    ctx.dist["obj_retype:cases"] += 1
    check_object(ctx, drv, dict(case, type=t), om, raw, cons, "obj", "obj_retype")
    for op in case["seq"]:
        if op["op"] == "type":
            om.obj_type = op["t"]
            t = op["t"]
        else:
            om.add_constraint(op["k"], op["v"])
            cons[op["k"]] = op["v"]
        ctx.dist[f"obj_retype:op={op['op']}"] += 1
        check_object(ctx, drv, dict(case, type=t), om, raw, cons, "obj", "obj_retype")
        check_object(ctx, drv, dict(case, type=case["type"]), twin, raw, cons0, "obj", "obj_retype:twin")


RUNNERS["probe_hard2"] = run_probe_hard2
RUNNERS["obj_retype"] = run_obj_retype


def fixed_cases6():
    """round-6 block (independent of VERIF_SEED): 3 / 4 / 5 modes with raw intensities ascending, descending, unsorted and tied,
    H > W and H < W, center_probe on and off, each model read twice and once more after its raw parameter was replaced, a second
    live model in between; objects read, retyped / reconfigured and read again; negative multi-slice potentials with a baseline"""
    from qv.prng import Rng
    out = []
    k = 0
    for n, roi in ((3, (2, 4)), (3, (4, 2)), (4, (4, 8)), (4, (8, 4)), (5, (3, 5)), (5, (5, 3)), (3, (3, 4)), (4, (2, 7))):
        for order in ("asc", "desc", "unsorted"):
            k += 1
            out.append(gen_probe_hard2_case(Rng(6000 + k), "f64" if k % 2 else "f32", n=n, roi=roi, order=order, orth=True, center=bool(k % 3 == 0)))
    for n, roi, tie in ((3, (2, 4), "pair"), (4, (4, 2), "all"), (5, (3, 5), "pair"), (3, (4, 4), "all")):
        for center in (False, True):
            k += 1
            out.append(gen_probe_hard2_case(Rng(6000 + k), "f64", n=n, roi=roi, order="asc", orth=True, center=center, tie=tie))
    for n, roi in ((2, (4, 2)), (3, (2, 8))):
        k += 1
        out.append(gen_probe_hard2_case(Rng(6000 + k), "f64", n=n, roi=roi, order="asc", orth=False, center=True))
    for t0, t1 in (("complex", "pure_phase"), ("pure_phase", "complex")):
        for shape in ((1, 2, 3), (2, 3, 1), (3, 1, 4)):
            for extra in ({"op": "cons", "k": "apply_fov_mask", "v": True}, {"op": "cons", "k": "identical_slices", "v": True}):
                k += 1
                c = gen_obj_retype_case(Rng(6000 + k), "f64" if k % 2 else "f32", shape=shape,
                                        seq=[{"op": "type", "t": t1}, extra, {"op": "type", "t": t0}])
                c["type"] = t0
                out.append(c)
    for shape in ((3, 1, 4), (3, 4, 1), (2, 2, 3)):
        S, H, W = shape
        for fix, pos in ((True, True), (True, False), (False, True)):
            k += 1
            rng = Rng(6000 + k)
            raw = -np.abs(np.array([gauss(rng) for _ in range(S * H * W)])) - 0.25 * (k % 2)       # negative potentials throughout
            raw[rng.below(S * H * W)] = 0.5
            m = np.array([1.0 if (i % W) < max(1, W // 2) or W == 1 and (i // W) % 2 == 0 else 0.0 for i in range(H * W)]).reshape(H, W)
            out.append({"stream": "object", "prec": "f64" if k % 2 else "f32", "type": "potential", "shape": [S, H, W], "route": "obj",
                        "cons": {"apply_fov_mask": bool(k % 2), "identical_slices": bool(k % 3 == 0), "positivity": pos,
                                 "fix_potential_baseline": fix, "fix_potential_baseline_factor": 0.5 if k % 2 else 1.0},
                        "inp": {"layout": "c", "container": "np", "width": 64}, "minp": {"layout": "c", "container": "np", "width": 64},
                        "special": False, "fkind": "float", "thk": "float", "raw": [float(x) for x in rnd(raw, "f32")],
                        "mask": {"shape": [H, W], "v": [float(x) for x in m.ravel()]}, "fixed": True})
    for c in out:
        c["fixed"] = True
    return out


def fixed_cases():
    """a fixed block (independent of VERIF_SEED) that enumerates the input classes earlier misses had in common, so that their
    coverage never depends on the seed: rejected calls of each kind followed by a valid re-initialisation; one of two / three live
    models switched to the non-default value of each property-relevant key, the OTHER model and a model built later read;
    exact zeros / infinities in the raw array of each complex object type, mask applied or not."""
    from qv.prng import Rng
    out = []
    k = 0
    for n in (2, 3):
        for bad in ({"op": "set_weights_bad", "w": [2.0], "cont": "list"}, {"op": "set_weights_bad", "w": [1.0] * (n + 1), "cont": "np64"},
                    {"op": "set_weights_bad", "w": [], "cont": "list"}, {"op": "set_initial_bad", "why": "M0", "M": 1.0},
                    {"op": "set_initial_bad", "why": "Mneg", "M": 7.0}, {"op": "set_initial_bad", "why": "roi", "M": 5.0},
                    {"op": "set_probe_bad", "why": "modes+"}, {"op": "set_probe_bad", "why": "cols+"}, {"op": "cons_bad"}):
            for prec in ("f64", "f32"):
                rng = Rng(1000 + k)
                k += 1
                H, W = 3, 2 + n
                first = [{"op": "set_initial", "M": 50.0, "mkind": "float"}] if k % 2 else []
                out.append({"stream": "probe_ops", "prec": prec, "n": n, "roi": [H, W], "w": [float(n - i) for i in range(n)] if k % 3 else None,
                            "wcont": "list", "seed": 4242 + k, "inp": {"layout": "c", "container": "np", "width": 64},
                            "stack": cx_to_list(gen_stack(rng, n, H, W, prec)),
                            "ops": first + [bad, {"op": "set_initial", "M": 12.5, "mkind": "float"}], "fixed": True})
    for cls in ("object", "probe", "tomo"):
        for (key, v) in REG_FLIP[cls]:
            for how in ("add", "set"):
                for t in (("complex", "pure_phase", "potential") if cls == "object" else ("potential",)):
                    pre = [{"op": "add", "i": j, "k": "positivity", "v": True} for j in range(2)] if cls == "tomo" else []
                    flip = {"op": "add", "i": 0, "k": key, "v": v} if how == "add" else {"op": "set", "i": 0, "items": [[key, v]]}
                    k += 1
                    out.append({"stream": "registry", "prec": "f64" if k % 2 else "f32", "cls": cls, "type": t, "n0": 2,
                                "ops": pre + [flip, {"op": "add", "i": 0, "k": "bogus_key", "v": True}, {"op": "new"}],
                                "shape": [2, 2, 3], "n": 2 + k % 2, "roi": [3, 4], "rawseed": 900 + k, "route": "obj", "fixed": True})
    inf = float("inf")
    for t in ("complex", "pure_phase"):
        for fov in (False, True):
            for prec in ("f64", "f32"):
                for raw in ([0j, 1 + 1j, complex(-0.0, 0.0), 0.3 - 2j], [0j] * 4, [complex(inf, 0.0), 1j, complex(-inf, inf), 0.5 + 0j],
                            [complex(0.0, -0.0), complex(-0.0, -0.0), -1 + 0j, complex(1e30, 1e30)]):
                    out.append({"stream": "object", "prec": prec, "type": t, "shape": [1, 2, 2], "route": "obj",
                                "cons": {"apply_fov_mask": fov, "identical_slices": False, "positivity": True, "fix_potential_baseline": False,
                                         "fix_potential_baseline_factor": 1.0},
                                "inp": {"layout": "c", "container": "np", "width": 64}, "minp": {"layout": "c", "container": "np", "width": 64},
                                "special": True, "fkind": "float", "thk": "float", "raw": cx_to_list(np.array(raw)),
                                "mask": {"shape": [2, 2], "v": [1.0, 0.5, 0.0, 1.0]}, "fixed": True})
    return out


def _in_real_code(e):
    import os
    import traceback
    repo_src = os.path.join(os.path.realpath(os.environ.get("QVERIF_REPO", "/repo")), "src", "quantem")
    fr = [f for f in traceback.extract_tb(e.__traceback__) if os.path.realpath(f.filename).startswith(repo_src)]
    return f"{os.path.relpath(fr[-1].filename, repo_src)}:{fr[-1].lineno} in {fr[-1].name}" if fr else None


def run_case(ctx, drv, stream, case):
    """one case; an exception raised INSIDE the real code where the unchanged tree raises none is a broken tie for this case
    (recorded, the run goes on so that the other streams can still exhibit a failing input); anything else propagates"""
    try:
        RUNNERS[stream](ctx, drv, case)
    except Exception as e:
        where = _in_real_code(e)
        if where is None or isinstance(e, (RuntimeError,)) and "driver" in str(e):
            raise
        ctx.disagree("exception-in-real-code", small(case), "no exception (the harness completes on the unchanged tree)",
                     f"{type(e).__name__}: {str(e)[:200]}", f"raised at {where}")


def run(ctx):
    from qv.driver import Driver
    from quantem.core import config
    saved = {"dtype_real": config.get("dtype_real"), "dtype_complex": config.get("dtype_complex")}
    drv = Driver("C10")
    try:
        if not DEFAULTS_SNAPSHOT:
            DEFAULTS_SNAPSHOT.update(class_defaults())      # before any model of this run is built
        check_defaults(ctx, drv)
        if not ctx.search_mode:
            run_case(ctx, drv, "object", CEX_CASE)
            run_case(ctx, drv, "gs_clamp", CLAMP_CASE)
        for case in fixed_cases() + fixed_cases6():          # the same block for every seed (and again in the failing-input search)
            ctx.dist[f"fixed-block:{case['stream']}"] += 1
            run_case(ctx, drv, case["stream"], case)
        plan = [("object", ctx.n(260, 20000)), ("tomo", ctx.n(30, 1000)), ("gs", ctx.n(110, 8000)),
                ("gs_exact", ctx.n(60, 5000)), ("weights", ctx.n(90, 6000)), ("pipeline", ctx.n(8, 60)),
                ("cons_history", ctx.n(80, 3000)), ("probe_history", ctx.n(50, 2000)),
                ("probe_ops", ctx.n(90, 3000)), ("registry", ctx.n(90, 3000)), ("object_dip", ctx.n(40, 1500)),
                ("probe_hard2", ctx.n(24, 1500)), ("obj_retype", ctx.n(16, 1000))]
        idx = 0
        for stream, cnt in plan:
            for _ in range(cnt):
                rng = ctx.rng.fork(idx)
                idx += 1
                prec = "f64" if rng.chance(0.5) else "f32"
                if stream == "object":
                    case = gen_obj_case(rng, prec)
                elif stream == "tomo":
                    case = gen_tomo_case(rng)
                elif stream == "gs":
                    case = gen_gs_case(rng, prec)
                elif stream == "gs_exact":
                    case = gen_gs_exact_case(rng)
                elif stream == "weights":
                    case = gen_weights_case(rng, prec)
                elif stream == "pipeline":
                    case = gen_pipeline_case(rng)
                elif stream == "cons_history":
                    case = gen_cons_history_case(rng, prec)
                elif stream == "probe_history":
                    case = gen_probe_history_case(rng, prec)
                elif stream == "probe_ops":
                    case = gen_probe_ops_case(rng, prec)
                elif stream == "registry":
                    case = gen_registry_case(rng, prec)
                elif stream == "probe_hard2":
                    case = gen_probe_hard2_case(rng, prec)
                elif stream == "obj_retype":
                    case = gen_obj_retype_case(rng, prec)
                else:
                    case = gen_obj_case(rng, prec)
                    case["stream"], case["route"] = "object_dip", "obj"
                run_case(ctx, drv, stream, case)
    finally:
        drv.close()
        config.set(saved)


def replay(ctx, rep):
    from qv.driver import Driver
    from quantem.core import config
    case = rep.get("case") or (rep.get("correspondence_disagreements") or rep.get("disagreements") or [{}])[0].get("case")
    saved = {"dtype_real": config.get("dtype_real"), "dtype_complex": config.get("dtype_complex")}
    drv = Driver("C10")
    try:
        RUNNERS[case["stream"]](ctx, drv, case)
    finally:
        drv.close()
        config.set(saved)
    return True
