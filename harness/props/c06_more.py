"""C06 — additional streams (growth round 5).

  reject    histories on ONE dataset object that mix REJECTED calls (every rejection reason of bin / pad / crop /
            fourier_resample: unsupported reducer, bad factor, bad axes, both / neither of out_shape / factors, wrong lengths,
            negative pad widths, ... — in place and copying) with valid calls.  After a rejected call the array AND the
            calibration must be bit-identical to what they were (snapshot + an untouched twin object that only receives the
            valid calls); every later valid call must satisfy the conservation laws judged against the state the object held
            before that call; every state (and every error kind) is compared with the Lean model run on the same sequence.
  forms     the public argument FORMS of the four methods (axes None / int / float / bool / tuple / list / negative, reducer in
            any letter case / non-string, bin factors int / bool / NumPy integer / list / tuple / float, out_shape with float
            entries, factors int / float / NumPy float / list, keywords omitted so that the DEFAULTS decide) through the real
            code vs `Model/ResampleArgs.lean` (`callBin`, `callCrop`, `callPad`, `callResample`), exact data.
"""
import copy
import itertools
import warnings
from fractions import Fraction

import numpy as np

from props import c03
from props.c03 import (UNITS, apply_layout, arr_json, axes_list, cls_of, dyadic, err_name, fj, fr, gen_array, gen_layout, jf, kind_of, view)


# ------------------------------------------------------------------------------------------
# statement clauses on one valid step, judged against the state BEFORE the step

def frac_array(a):
    flat = np.asarray(a).ravel()
    if np.iscomplexobj(flat):
        return [(fr(float(z.real)), fr(float(z.imag))) for z in flat]
    return [(fr(float(z)) if flat.dtype.kind == "f" else Fraction(int(z)), Fraction(0)) for z in flat]


def block_sums(shape, vals, facs):
    nd = len(shape)
    out_shape = [n // f for n, f in zip(shape, facs)]
    strides = [int(np.prod(shape[k + 1:])) for k in range(nd)]
    out = []
    for j in itertools.product(*[range(n) for n in out_shape]):
        sr = Fraction(0)
        si = Fraction(0)
        for t in itertools.product(*[range(f) for f in facs]):
            pos = sum((j[k] * facs[k] + t[k]) * strides[k] for k in range(nd))
            sr += vals[pos][0]
            si += vals[pos][1]
        out.append((sr, si))
    return out_shape, out


def facs_of(op, ndim):
    axl = [a % ndim for a in axes_list(op["axes"], ndim)]
    fs = [op["f"]["one"]] * len(axl) if "one" in op["f"] else list(op["f"]["many"])
    facs = [1] * ndim
    for a_, f_ in zip(axl, fs):
        facs[a_] = f_
    return facs, int(np.prod(fs)) if fs else 1


def judge_bin(ctx, case, op, a0, o0, s0, res, pfx=""):
    """the bin clauses of the statement (exact data: equality decides)"""
    shape = list(a0.shape)
    ndim = len(shape)
    facs, vol = facs_of(op, ndim)
    exp_shape, exp = block_sums(shape, frac_array(a0), facs)
    got = frac_array(res.array)
    if list(res.array.shape) != exp_shape:
        ctx.pred_fail("bin-shape", pfx + "binned shape is not n // f per axis (trailing remainder dropped)", case,
                      observed=list(res.array.shape), required=exp_shape)
        return
    if op.get("mean"):
        exp = [(x / vol, y / vol) for x, y in exp]
    if got != exp:
        ctx.pred_fail("bin-block-sum", pfx + "binned values are not the sum (mean) of exactly the pixels of each block", case,
                      observed=[str(g[0]) for g in got[:12]], required=[str(e[0]) for e in exp[:12]])
    elif not op.get("mean"):
        cov = a0[tuple(slice(0, (n // f) * f) for n, f in zip(shape, facs))]
        ci = frac_array(cov)
        if (sum(x for x, _ in ci), sum(y for _, y in ci)) != (sum(x for x, _ in got), sum(y for _, y in got)):
            ctx.pred_fail("bin-counts", pfx + "sum over the covered region is not preserved", case, observed="differs", required="equal")
    ro = [fr(float(x)) for x in res.origin]
    rs = [fr(float(x)) for x in res.sampling]
    req_s = [s0[k] * facs[k] for k in range(ndim)]
    req_o = [sum(o0[k] + i * s0[k] for i in range(facs[k])) / facs[k] for k in range(ndim)]
    if rs != req_s:
        ctx.pred_fail("bin-sampling", pfx + "sampling is not multiplied by the bin factor on exactly the binned axes", case,
                      observed=[str(x) for x in rs], required=[str(x) for x in req_s])
    if ro != req_o:
        ctx.pred_fail("bin-origin", pfx + "origin is not the mean coordinate of the first block", case,
                      observed=[str(x) for x in ro], required=[str(x) for x in req_o])


def judge_resample(ctx, case, axes, outs, before, o0, s0, res, pfx=""):
    """shape / mean / centre / extent / band-limited values of one fourier_resample result vs the data held before"""
    from props.c06 import dft_matrix_oracle
    y = res.array
    exp_shape = list(before.shape)
    for a, m in zip(axes, outs):
        exp_shape[a] = m
    if list(y.shape) != exp_shape:
        ctx.pred_fail("resample-shape", pfx + "output shape is not the requested one", case, observed=list(y.shape), required=exp_shape)
        return
    f32 = before.dtype.kind in "fc" and before.dtype.itemsize // (2 if before.dtype.kind == "c" else 1) < 8
    tol = 5e-4 if f32 else 1e-9
    scale = max(1.0, float(np.max(np.abs(before))) if before.size else 1.0)
    if abs(complex(np.mean(y)) - complex(np.mean(before))) > tol * scale:
        ctx.pred_fail("resample-mean", pfx + "fourier_resample does not preserve the array mean", case,
                      observed=str(complex(np.mean(y))), required=str(complex(np.mean(before))))
    oracle = dft_matrix_oracle(before, axes, outs)
    if np.isrealobj(before):
        oracle = oracle.real
    d = float(np.max(np.abs(y - oracle))) if y.size else 0.0
    if d > tol * scale:
        ctx.pred_fail("resample-values", pfx + "fourier_resample differs from band-limited (signed-frequency) DFT resampling", case,
                      observed=d, required=f"<= {tol}*{scale}")
    ro = [float(v) for v in res.origin]
    rs = [float(v) for v in res.sampling]
    for k in range(before.ndim):
        n, m = before.shape[k], exp_shape[k]
        c_old = float(o0[k]) + (n - 1) / 2 * float(s0[k])
        c_new = ro[k] + (m - 1) / 2 * rs[k]
        if abs(c_new - c_old) > 1e-12 * max(1, abs(c_old)):
            ctx.pred_fail("resample-centre", pfx + "physical centre of the field of view not preserved", case, observed=c_new, required=c_old)
        if abs(m * rs[k] - n * float(s0[k])) > 1e-12 * abs(n * float(s0[k])):
            ctx.pred_fail("resample-extent", pfx + "extent of the field of view not preserved", case, observed=m * rs[k], required=n * float(s0[k]))


# ------------------------------------------------------------------------------------------
# reject stream

REASONS = {
    "bin": ["reducer", "factor-zero", "factor-negative", "factor-float", "factor-tuple-float", "factor-length", "axes-range", "axes-range-neg"],
    "pad": ["both", "neither", "negative", "per-length", "out-length"],
    "crop": ["widths-length-all", "widths-length-axes", "axes-range", "no-widths"],
    "resample": ["both", "neither", "out-length", "factors-length", "out-zero", "axes-range"],
}


def gen_axes_any(rng, ndim):
    r = rng.random()
    if r < 0.3:
        return None
    k = rng.randint(1, ndim)
    axes = rng.sample(list(range(ndim)), k)
    if rng.chance(0.6):
        axes = sorted(axes)
    axes = [a - ndim if rng.chance(0.3) else a for a in axes]
    if len(axes) == 1 and rng.chance(0.5):
        return {"one": axes[0]}
    return {"many": axes}


def gen_rejected(rng, cur):
    """one call that the code must reject, in the op format shared with C03 (`c03.apply_op` / the Lean driver)"""
    ndim = len(cur)
    kind = rng.weighted([("bin", 4), ("pad", 2), ("crop", 2), ("resample", 3)])
    reason = rng.choice(REASONS[kind])
    ip = rng.chance(0.6)
    if kind == "bin":
        axes = gen_axes_any(rng, ndim)
        n = len(axes_list(axes, ndim))
        op = {"op": "bin", "f": {"many": [rng.choice([2, 3]) for _ in range(n)]} if rng.chance(0.6) else {"one": 2}, "axes": axes,
              "mean": rng.chance(0.3), "inplace": ip}
        if reason == "reducer":
            op["bad_reducer"] = True
        elif reason == "factor-zero":
            op["f"] = {"one": 0} if rng.chance(0.5) else {"many": [2] * (n - 1) + [0]}
        elif reason == "factor-negative":
            op["f"] = {"one": -2} if rng.chance(0.5) else {"many": [-1] + [2] * (n - 1)}
        elif reason == "factor-float":
            op["f"] = "bad"
        elif reason == "factor-tuple-float":
            op["f"] = {"many": [2] * (n - 1) + [None]}
        elif reason == "factor-length":
            op["f"] = {"many": [2] * (n + 1 if rng.chance(0.5) or n == 0 else n - 1)}
        elif reason == "axes-range":
            op["axes"] = {"one": ndim} if rng.chance(0.5) else {"many": [0, ndim + 1][: max(1, min(2, ndim))] if ndim > 1 else [ndim]}
            op["f"] = {"one": 2}
        else:
            op["axes"] = {"one": -ndim - 1} if rng.chance(0.5) else {"many": [-ndim - 1]}
            op["f"] = {"one": 2}
        return op, reason
    if kind == "pad":
        if reason in ("both", "neither"):
            arg = reason
        elif reason == "negative":
            arg = {"all": -1} if rng.chance(0.4) else {"per": [[1, -1 if k == ndim - 1 else 0] for k in range(ndim)]}
        elif reason == "per-length":
            arg = {"per": [[1, 1]] * (ndim + 1)}
        else:
            arg = {"out": [n + 2 for n in cur] + [3]} if rng.chance(0.5) or ndim == 1 else {"out": [n + 2 for n in cur[:-1]]}
        return {"op": "pad", "arg": arg, "inplace": ip}, reason
    if kind == "crop":
        if reason == "widths-length-all":
            op = {"op": "crop", "widths": [[0, 0]] * (ndim + 1 if rng.chance(0.5) else ndim - 1), "axes": None}
        elif reason == "widths-length-axes":
            op = {"op": "crop", "widths": [[0, 0], [0, 0]], "axes": {"many": [0]}}
        elif reason == "axes-range":
            op = {"op": "crop", "widths": [[0, 0]], "axes": {"one": ndim} if rng.chance(0.5) else {"many": [-ndim - 1]}}
        else:
            op = {"op": "crop", "widths": [], "axes": {"one": 0}}
        op["inplace"] = ip
        return op, reason
    axes = gen_axes_any(rng, ndim)
    axl = axes_list(axes, ndim)
    n = len(axl)
    outs = [max(1, cur[a % ndim] + rng.randint(-1, 2)) for a in axl]
    op = {"op": "resample", "arg": {"out": outs}, "axes": axes, "inplace": ip}
    if reason in ("both", "neither"):
        op["arg"] = reason
    elif reason == "out-length":
        op["arg"] = {"out": outs + [3]} if rng.chance(0.5) or n == 1 else {"out": outs[:-1]}
    elif reason == "factors-length":
        op["arg"] = {"fs": [fj(Fraction(3, 2))] * (n + 1)}
    elif reason == "out-zero":
        op["arg"] = {"out": outs[:-1] + [0 if rng.chance(0.6) else -2]}
    else:
        op["axes"] = {"one": ndim} if rng.chance(0.5) else {"many": [-ndim - 1]}
        op["arg"] = {"out": [3]}
    return op, reason


def gen_valid(rng, cur):
    """one valid call (exact on integer data); returns (op, kind, new shape of the result)"""
    ndim = len(cur)
    kind = rng.weighted([("bin", 5), ("pad", 2), ("padout", 2), ("crop", 2), ("resample", 2)])
    ip = rng.chance(0.65)
    new = list(cur)
    if kind == "bin":
        axes = gen_axes_any(rng, ndim)
        axl = axes_list(axes, ndim)
        mean = rng.chance(0.35)
        fs = [rng.choice([1, 2, 2, 4] if mean else [1, 2, 2, 3]) for _ in axl]
        fs = [f if cur[a % ndim] // f >= 1 else 1 for f, a in zip(fs, axl)]        # keep at least one block (histories stay non-empty)
        f = {"one": fs[0]} if len(set(fs)) == 1 and rng.chance(0.4) else {"many": fs}
        op = {"op": "bin", "f": f, "axes": axes, "mean": mean, "inplace": ip}
        for a, f_ in zip(axl, fs):
            new[a % ndim] = cur[a % ndim] // f_
    elif kind == "pad":
        ws = [[rng.randint(0, 2), rng.randint(0, 2)] for _ in range(ndim)]
        op = {"op": "pad", "arg": {"per": ws}, "inplace": ip}
        new = [n + b + a for n, (b, a) in zip(cur, ws)]
    elif kind == "padout":
        out = [n + rng.randint(0, 3) for n in cur]
        op = {"op": "pad", "arg": {"out": out}, "inplace": ip}
        new = list(out)
    elif kind == "crop":
        ws = [[rng.randint(0, 1), -rng.randint(0, 1)] if n >= 3 else [0, 0] for n in cur]
        op = {"op": "crop", "widths": ws, "axes": None, "inplace": ip}
        new = [n - b + a for n, (b, a) in zip(cur, ws)]
    else:
        axes = gen_axes_any(rng, ndim)
        axl = axes_list(axes, ndim)
        outs = [max(1, cur[a % ndim] + rng.randint(-2, 3)) for a in axl]
        op = {"op": "resample", "arg": {"out": outs}, "axes": axes, "inplace": False}     # copying, never followed: the exact history continues
        ip = False
    if not ip:
        op["follow"] = kind != "resample" and rng.chance(0.5)
    if int(np.prod(new)) > 400:
        return gen_valid(rng, cur)
    return op, kind, (new if ip or op.get("follow") else list(cur))


def gen_reject_history(rng):
    ndim = rng.weighted([(1, 3), (2, 4), (3, 2)])
    shape = [rng.randint(2, 7) if not rng.chance(0.15) else 1 for _ in range(ndim)]
    dtype = rng.choice(["int64", "int32", "uint8", "int16", "float64", "float32", "complex128", "bool"])
    a = gen_array(rng, shape, dtype)
    cls = "Dataset" if ndim == 1 or rng.chance(0.6) else {2: "Dataset2d", 3: "Dataset3d"}[ndim]
    new = {"op": "new", "cls": cls, "array": dict(arr_json(a), layout=gen_layout(rng)), "dtype": dtype,
           "origin": {"l": [fj(dyadic(rng)) for _ in range(ndim)]}, "sampling": {"l": [fj(Fraction(rng.randint(1, 16), 4)) for _ in range(ndim)]},
           "units": {"l": [rng.choice(UNITS) for _ in range(ndim)]}}
    if rng.chance(0.3):
        new["route"] = rng.choice(["int_tuple", "int_ndarray", "setter_tuple", "setter_ndarray"])
        new["origin"] = {"l": [rng.randint(-5, 9) for _ in range(ndim)]}
        new["sampling"] = {"l": [rng.randint(1, 5) for _ in range(ndim)]}
    cur = list(shape)
    steps = []

    def valid():
        nonlocal cur
        op, kind, cur = gen_valid(rng, cur)
        steps.append(op)

    def rejected():
        op, reason = gen_rejected(rng, cur)
        op["reject"] = reason
        steps.append(op)

    for _ in range(rng.randint(0, 1)):
        valid()
    for _ in range(rng.randint(1, 2)):
        for _ in range(rng.randint(1, 2)):
            rejected()
        for _ in range(rng.randint(1, 2)):
            valid()
    return {"stream": "reject", "new": new, "steps": steps}


def check_reject_history(ctx, drv, case):
    from props.c06 import make_ds
    warnings.simplefilter("ignore")
    new, steps = case["new"], case["steps"]
    ds = make_ds(new)
    twin = make_ds(new)              # receives only the calls that are meant to be valid
    ctx.dist["reject:histories"] += 1
    records = []
    prev = "new"
    for i, op in enumerate(steps):
        sub = dict(case, steps=steps[: i + 1])
        kind = op["op"]
        rej = op.get("reject")
        ip = bool(op.get("inplace"))
        snap = c03.snapshot(ds)
        a0 = ds.array.copy()
        o0 = [fr(float(x)) for x in ds.origin]
        s0 = [fr(float(x)) for x in ds.sampling]
        ndim = a0.ndim
        ret, err = None, None
        try:
            ret = c03.apply_op(ds, op)
        except Exception as e:  # noqa
            err = err_name(e)
        ctx.count()
        ctx.dist[f"reject:{kind}:" + (("rejected:" + rej) if rej else "valid") + (":inplace" if ip else "")] += 1
        ctx.mark(("reject", kind, rej or "valid", ip, ndim, prev, kind_of(a0.dtype)))
        prev = kind + (":rej" if rej else "")
        after = c03.snapshot(ds)
        records.append({"err": err, "recv": c03.safe_view(ds), "ret": c03.safe_view(ret)})
        if rej:
            if err is None:
                # the code accepted a call this stream means to be rejected: the model decides below (outcome comparison); the
                # generator's exactness bookkeeping no longer holds for the rest of the history, so the history ends here
                ctx.dist["reject:malformed-call-accepted"] += 1
                steps = steps[: i + 1]
                break
            # ---- the clause: a call that raised leaves array and calibration exactly as they were
            elif after != snap:
                ctx.pred_fail("rejected-call-changed-state",
                              f"{kind}() raised {err} ({rej}) but changed the dataset: the pixels kept their values while their physical "
                              "coordinates (origin/sampling) or the data moved — block-centre coordinates / counts are not preserved over the history",
                              sub, observed=c03.snap_diff(snap, after), required="array, origin and sampling bit-identical after a rejected call")
                return
            continue
        # ---- a valid call
        if err is not None:
            ctx.pred_fail(f"reject-{kind}-raises", f"valid {kind} (step {i}, after earlier rejected calls) raised {err}", sub, observed=err, required="result")
            return
        res = ds if ip else ret
        if not ip and after != snap:
            ctx.pred_fail("copying-call-changed-source", f"copying {kind} changed the dataset it was called on", sub,
                          observed=c03.snap_diff(snap, after), required="source bit-identical")
            return
        pfx = f"step {i} of a history with rejected calls: "
        if kind == "bin":
            judge_bin(ctx, sub, op, a0, o0, s0, res, pfx)
        elif kind == "resample":
            axl = [a % ndim for a in axes_list(op["axes"], ndim)]
            judge_resample(ctx, sub, axl, op["arg"]["out"], a0, o0, s0, res, pfx)
        elif kind == "pad" and "out" in op["arg"]:
            out = op["arg"]["out"]
            widths = [(max(0, (o_ - n) // 2), max(0, -((n - o_) // 2))) for o_, n in zip(out, a0.shape)]
            try:
                back = res.crop(tuple((b, -a) for b, a in widths))
                if back.array.shape != a0.shape or not np.array_equal(back.array, a0) or back.array.dtype != a0.dtype:
                    ctx.pred_fail("pad-crop-roundtrip", pfx + "pad(output_shape) followed by cropping the pad widths does not return the original data",
                                  sub, observed={"shape": list(back.array.shape)}, required={"shape": list(a0.shape)})
            except Exception as e:  # noqa
                ctx.pred_fail("padcrop-raises", pfx + f"crop of the pad widths raised {err_name(e)}", sub, observed=err_name(e), required="original data")
        # the twin performs the same valid call
        try:
            tret = c03.apply_op(twin, op)
            if not ip and op.get("follow"):
                twin = tret
        except Exception as e:  # noqa
            ctx.pred_fail("twin-raises", f"{kind} raised {err_name(e)} on the untouched twin but not on the object with rejected calls in its history", sub,
                          observed=err_name(e), required="same outcome")
            return
        if not ip and op.get("follow"):
            ds = ret
        d = c03.same_result(ds, twin)
        if d:
            ctx.pred_fail("history-differs-from-twin", pfx + "the dataset differs from a twin that received only the valid calls "
                          "(a rejected call left something behind)", sub, observed=d, required="bit-identical array and calibration")
            return
    # ---- model: the same sequence through Dataset.step (a raising call leaves the model state unchanged)
    reqs = [dict({k: v for k, v in o.items() if k not in ("dtype", "reject")}) for o in steps]
    ans = drv.ask({"op": "exact", "new": {k: v for k, v in new.items() if k not in ("route",)}, "ops": reqs})
    if "err" in ans:
        raise RuntimeError(f"driver error {ans}")
    flags = {"meta_inexact": False, "data_inexact": False, "f32": False}
    for i, (m, rec, op) in enumerate(zip(ans["ok"][1:], records, steps)):
        sub = dict(case, steps=steps[: i + 1])
        merr = m["r"].get("err") if isinstance(m.get("r"), dict) else None
        if merr != rec["err"]:
            ctx.disagree("reject", sub, {"outcome": merr or "ok"}, {"outcome": rec["err"] or "ok"}, note=f"step {i} {op['op']}: outcome")
            return
        if not c03.compare_view(ctx, "reject", sub, m["recv"], rec["recv"], flags, f"step {i} {op['op']}: receiver"):
            return
        if merr is None and rec["ret"] is not None:
            fl = dict(flags, meta_inexact=op["op"] == "resample")
            if not c03.compare_view(ctx, "reject", sub, m["r"]["ok"], rec["ret"], fl, f"step {i} {op['op']}: returned"):
                return
    ctx.sample({"stream": "reject", "shape": new["array"]["shape"], "dtype": new["dtype"],
                "steps": [{k: v for k, v in o.items()} for o in steps[:5]]}, limit=3)


def run_reject(ctx, drv, n):
    for c in range(n):
        rng = ctx.rng.fork(130000 + c)
        check_reject_history(ctx, drv, gen_reject_history(rng))


# ------------------------------------------------------------------------------------------
# forms stream: the public argument forms and keyword defaults of the four methods vs Model/ResampleArgs.lean

PARAMS = {"bin": ["bin_factors", "axes", "modify_in_place", "reducer"],
          "crop": ["crop_widths", "axes", "modify_in_place"],
          "resample": ["out_shape", "factors", "axes", "modify_in_place"],
          "pad": ["pad_width", "output_shape", "modify_in_place"]}


class _Other:
    """an argument that is neither a number nor iterable"""


def py_of(j):
    """JSON argument form -> the Python object handed to the real code"""
    if j is None or isinstance(j, (bool, int)):
        return j
    if j == "other":
        return _Other()
    if "t" in j:
        return tuple(py_of(x) for x in j["t"])
    if "l" in j:
        return [py_of(x) for x in j["l"]]
    if "f" in j:
        return float(jf(j["f"]))
    if "np" in j:
        return np.int64(j["np"])
    return str(j["s"])


def sc_int_form(rng, v, allow_float=True):
    """one integer value in one of its scalar forms"""
    r = rng.random()
    if r < 0.55:
        return int(v)
    if r < 0.75:
        return {"np": int(v)}
    if r < 0.9 and allow_float:
        return {"f": fj(Fraction(int(v)))}
    if v in (0, 1) and rng.chance(0.5):
        return bool(v)
    return int(v)


def axes_form(rng, ndim, axl):
    """axl: list of (possibly negative) axes, or None for all axes -> (json form or absent marker)"""
    if axl is None:
        return "absent" if rng.chance(0.6) else None
    if len(axl) == 1 and rng.chance(0.5):
        a = axl[0]
        r = rng.random()
        if r < 0.6:
            return int(a)
        if r < 0.85:
            return {"f": fj(Fraction(int(a)))}          # annotated `int | float`
        return bool(a) if a in (0, 1) else int(a)
    items = [sc_int_form(rng, a) for a in axl]
    return {"t": items} if rng.chance(0.7) else {"l": items}


def gen_form_call(rng, cur, dtype):
    """one call in argument-form JSON; returns (call, resolved C03-style op or None, new shape, valid?)"""
    ndim = len(cur)
    m = rng.weighted([("bin", 5), ("crop", 2), ("resample", 3), ("pad", 3)])
    bad = rng.chance(0.22)
    call = {"m": m}
    ip = rng.chance(0.5)
    if rng.chance(0.8) or ip:
        call["inplace"] = ip              # otherwise the keyword is omitted: the default (False) decides
    else:
        ip = False
    new = list(cur)
    op = None
    if m == "bin":
        axj = gen_axes_any(rng, ndim)
        axl = None if axj is None else axes_list(axj, ndim)
        eff = list(range(ndim)) if axl is None else [a % ndim for a in axl]
        mean = rng.chance(0.35)
        fs = [rng.choice([1, 2, 2, 4] if mean else [1, 2, 2, 3]) for _ in eff]
        fs = [f if cur[a] // f >= 1 else 1 for f, a in zip(fs, eff)]
        if len(set(fs)) == 1 and rng.chance(0.5):
            call["f"] = sc_int_form(rng, fs[0], allow_float=False)
        else:
            items = [sc_int_form(rng, f, allow_float=False) for f in fs]
            call["f"] = {"t": items} if rng.chance(0.6) else {"l": items}
        af = axes_form(rng, ndim, axl)
        if af != "absent":
            call["axes"] = af
        if mean:
            call["reducer"] = {"s": rng.choice(["mean", "MEAN", "Mean", "mEaN"])}
        elif rng.chance(0.5):
            call["reducer"] = {"s": rng.choice(["sum", "SUM", "Sum"])}
        if bad:
            why = rng.choice(["reducer", "reducer-type", "factor-float", "factor-str", "factor-none", "factor-in-tuple", "factor-zero", "axes-none-item",
                              "axes-range", "axes-other", "factor-length"])
            if why == "reducer":
                call["reducer"] = {"s": rng.choice(["median", "", "sum ", "summ", "max"])}
            elif why == "reducer-type":
                call["reducer"] = rng.choice([None, 1, True])
            elif why == "factor-float":
                call["f"] = {"f": fj(Fraction(2))}
            elif why == "factor-str":
                call["f"] = {"s": "2"}
            elif why == "factor-none":
                call["f"] = None
            elif why == "factor-in-tuple":
                call["f"] = {"t": [2] * (len(eff) - 1) + [rng.choice([{"f": fj(Fraction(5, 2))}, None, {"s": "2"}])]}
            elif why == "factor-zero":
                call["f"] = rng.choice([0, -1, False, {"np": 0}])
            elif why == "axes-none-item":
                call["axes"] = {"t": [0, None][: max(2, 1)]}
            elif why == "axes-range":
                call["axes"] = rng.choice([ndim, -ndim - 1, {"t": [0, ndim]}, {"f": fj(Fraction(ndim))}])
            elif why == "axes-other":
                call["axes"] = "other"
            else:
                call["f"] = {"t": [2] * (len(eff) + 1)}
            call["why"] = why
            return call, None, list(cur), False
        op = {"op": "bin", "f": {"many": fs}, "axes": {"many": eff}, "mean": mean}
        for a, f_ in zip(eff, fs):
            new[a] = cur[a] // f_
    elif m == "crop":
        axj = gen_axes_any(rng, ndim)
        axl = None if axj is None else axes_list(axj, ndim)
        eff = list(range(ndim)) if axl is None else [a % ndim for a in axl]
        ws = [[rng.randint(0, 1), -rng.randint(0, 1)] if cur[a] >= 3 else [0, 0] for a in eff]
        call["widths"] = ws
        af = axes_form(rng, ndim, axl)
        if af != "absent":
            call["axes"] = af
        if bad:
            why = rng.choice(["axes-range", "widths-length", "axes-none-item"])
            if why == "axes-range":
                call["axes"] = rng.choice([ndim, {"t": [-ndim - 1]}])
                call["widths"] = [[0, 0]]
            elif why == "widths-length":
                call["axes"] = {"t": [0]}
                call["widths"] = [[0, 0], [0, 0]]
            else:
                call["axes"] = {"l": [None]}
                call["widths"] = [[0, 0]]
            call["why"] = why
            return call, None, list(cur), False
        for a, (b, e) in zip(eff, ws):
            new[a] = cur[a] - b + e
    elif m == "resample":
        axj = gen_axes_any(rng, ndim)
        axl = None if axj is None else axes_list(axj, ndim)
        eff = list(range(ndim)) if axl is None else [a % ndim for a in axl]
        af = axes_form(rng, ndim, axl)
        if af != "absent":
            call["axes"] = af
        if rng.chance(0.55):
            outs = [max(1, cur[a] + rng.randint(-2, 3)) for a in eff]
            items = [sc_int_form(rng, o) for o in outs]
            call["out"] = {"t": items} if rng.chance(0.7) else {"l": items}
        else:
            qs = [Fraction(rng.choice([1, 2, 3, 4, 5, 6, 7, 8, 10, 12]), 4) for _ in eff]       # dyadic: n*f is exact, ties (x.5) occur
            if len(set(qs)) == 1 and rng.chance(0.5):
                call["fs"] = {"f": fj(qs[0])} if qs[0].denominator != 1 or rng.chance(0.5) else int(qs[0])
            else:
                items = [{"f": fj(q)} if q.denominator != 1 or rng.chance(0.6) else int(q) for q in qs]
                call["fs"] = {"t": items} if rng.chance(0.7) else {"l": items}
            outs = [max(1, round(cur[a] * q)) for a, q in zip(eff, qs)]          # Python round on a Fraction: half to even, exact
        if bad:
            why = rng.choice(["both", "neither", "out-scalar", "out-length", "fs-none-item", "fs-length", "out-zero", "axes-range", "fs-other"])
            if why == "both":
                call["out"], call["fs"] = {"t": [3] * len(eff)}, {"f": "3/2"}
            elif why == "neither":
                call.pop("out", None), call.pop("fs", None)
            elif why == "out-scalar":
                call.pop("fs", None)
                call["out"] = 4
            elif why == "out-length":
                call.pop("fs", None)
                call["out"] = {"t": [3] * (len(eff) + 1)}
            elif why == "fs-none-item":
                call.pop("out", None)
                call["fs"] = {"t": [{"f": "3/2"}] * (len(eff) - 1) + [None]}
            elif why == "fs-length":
                call.pop("out", None)
                call["fs"] = {"l": [{"f": "3/2"}] * (len(eff) + 1)}
            elif why == "out-zero":
                call.pop("fs", None)
                call["out"] = {"t": [2] * (len(eff) - 1) + [rng.choice([0, {"f": "1/2"}, -1])]}     # int(0.5) == 0
            elif why == "axes-range":
                call["axes"] = rng.choice([ndim, {"t": [0, -ndim - 1]}])
            else:
                call.pop("out", None)
                call["fs"] = "other"
            call["why"] = why
            return call, None, list(cur), False
        op = {"op": "resample", "axes": eff, "outs": outs}
        for a, o in zip(eff, outs):
            new[a] = o
    else:
        r = rng.random()
        if r < 0.45:
            out = [n + rng.randint(0, 3) for n in cur]
            call["arg"] = {"out": out}
            new = list(out)
        elif r < 0.8:
            ws = [[rng.randint(0, 3), rng.randint(0, 3)] for _ in cur]
            call["arg"] = {"per": ws}
            new = [n + b + a for n, (b, a) in zip(cur, ws)]
        elif r < 0.9:
            k = rng.randint(0, 2)
            call["arg"] = {"all": k}
            new = [n + 2 * k for n in cur]
        else:
            b, a = rng.randint(0, 3), rng.randint(0, 3)
            call["arg"] = {"pair": [b, a]}
            new = [n + b + a for n in cur]
        mode = rng.weighted([("absent", 3), ("constant", 2), ("edge", 2), ("wrap", 2), ("reflect", 2), ("symmetric", 2)])
        if mode == "constant":
            c = rng.randint(0, 5)
            call["mode"] = {"constant": [c, 0]}
            call["mode_kw"] = rng.chance(0.5)          # mode="constant" written out, or constant_values alone
        elif mode != "absent":
            call["mode"] = mode
        if bad:
            why = rng.choice(["both", "neither", "out-length", "negative"])
            call["arg"] = {"both": "both", "neither": "neither", "out-length": {"out": [n + 1 for n in cur] + [2]},
                           "negative": {"per": [[0, -1]] * ndim}}[why]
            call["why"] = why
            return call, None, list(cur), False
        op = {"op": "pad", "widths": None}
    if int(np.prod(new)) > 400 or min(new) < 1:
        return gen_form_call(rng, cur, dtype)
    if not ip and m != "resample" and rng.chance(0.5):
        call["follow"] = True
    if m == "resample" and ip:
        call["inplace"] = False              # exact histories: Fourier resampling only as a copying call that is not followed
        ip = False
    return call, op, (new if (ip or call.get("follow")) else list(cur)), True


def apply_form_call(ds, call):
    """the real call, with exactly the arguments the case wrote (a random number of them positional)"""
    m = call["m"]
    vals = {}
    if m == "bin":
        vals["bin_factors"] = py_of(call["f"])
        if "reducer" in call:
            vals["reducer"] = py_of(call["reducer"])
    elif m == "crop":
        vals["crop_widths"] = tuple(tuple(w) for w in call["widths"])
    elif m == "resample":
        if "out" in call:
            vals["out_shape"] = py_of(call["out"])
        if "fs" in call:
            vals["factors"] = py_of(call["fs"])
    else:
        a = call["arg"]
        if a == "both":
            vals["pad_width"], vals["output_shape"] = 1, (3,)
        elif a == "neither":
            pass
        elif "all" in a:
            vals["pad_width"] = int(a["all"])
        elif "pair" in a:
            vals["pad_width"] = tuple(a["pair"])
        elif "per" in a:
            vals["pad_width"] = tuple(tuple(p) for p in a["per"])
        else:
            vals["output_shape"] = tuple(a["out"])
    if "axes" in call:
        vals["axes"] = py_of(call["axes"])
    if "inplace" in call:
        vals["modify_in_place"] = bool(call["inplace"])
    # positional prefix: the leading parameters of the signature, as long as every one of them is given
    args = []
    for p in PARAMS[m][: int(call.get("posn", 0))]:
        if p in vals:
            args.append(vals.pop(p))
        elif m in ("resample", "pad") and p in ("out_shape", "pad_width") and len(vals) and PARAMS[m][1] in vals:
            args.append(None)                   # fourier_resample(None, 1.5) / pad(None, (8, 8))
        else:
            break
    kw = dict(vals)
    if m == "pad" and "mode" in call:
        md = call["mode"]
        if isinstance(md, dict):
            if call.get("mode_kw"):
                kw["mode"] = "constant"
            kw["constant_values"] = int(md["constant"][0])
        else:
            kw["mode"] = md
    meth = {"bin": "bin", "crop": "crop", "resample": "fourier_resample", "pad": "pad"}[m]
    return getattr(ds, meth)(*args, **kw)


def gen_forms_history(rng):
    ndim = rng.weighted([(1, 3), (2, 4), (3, 2)])
    shape = [rng.randint(2, 7) if not rng.chance(0.15) else 1 for _ in range(ndim)]
    dtype = rng.choice(["int64", "int32", "uint8", "float64", "float32", "complex128"])
    a = gen_array(rng, shape, dtype)
    new = {"op": "new", "cls": "Dataset" if ndim == 1 or rng.chance(0.6) else {2: "Dataset2d", 3: "Dataset3d"}[ndim],
           "array": dict(arr_json(a), layout=gen_layout(rng)), "dtype": dtype,
           "origin": {"l": [fj(dyadic(rng)) for _ in range(ndim)]}, "sampling": {"l": [fj(Fraction(rng.randint(1, 16), 4)) for _ in range(ndim)]},
           "units": {"l": [rng.choice(UNITS) for _ in range(ndim)]}}
    cur = list(shape)
    calls = []
    for _ in range(rng.randint(2, 5)):
        call, op, cur, valid = gen_form_call(rng, cur, dtype)
        call["posn"] = rng.weighted([(0, 3), (1, 3), (2, 1), (3, 0.5)])
        call["valid"] = bool(valid)
        if op is not None:
            call["resolved"] = op
        calls.append(call)
    return {"stream": "forms", "new": new, "calls": calls}


def check_forms_history(ctx, drv, case):
    from props.c06 import make_ds
    warnings.simplefilter("ignore")
    new, calls = case["new"], case["calls"]
    ds = make_ds(new)
    ctx.dist["forms:histories"] += 1
    records = []
    for i, call in enumerate(calls):
        sub = dict(case, calls=calls[: i + 1])
        m = call["m"]
        snap = c03.snapshot(ds)
        a0 = ds.array.copy()
        o0 = [fr(float(x)) for x in ds.origin]
        s0 = [fr(float(x)) for x in ds.sampling]
        ret, err = None, None
        try:
            ret = apply_form_call(ds, call)
        except Exception as e:  # noqa
            err = err_name(e)
        ctx.count()
        ip = bool(call.get("inplace"))
        tag = "valid" if call["valid"] else "rejected:" + call.get("why", "?")
        ctx.dist[f"forms:{m}:{tag}"] += 1
        for k in ("axes", "f", "out", "fs", "reducer", "mode"):
            if k in call:
                v = call[k]
                form = ("None" if v is None else type(v).__name__ if not isinstance(v, (dict, str)) else
                        (v if isinstance(v, str) else next(iter(v)))) if k != "reducer" else ("str:" + v["s"] if isinstance(v, dict) else repr(v))
                ctx.dist[f"forms:{m}:{k}={form}"] += 1
            elif k in {"bin": ("axes", "reducer"), "crop": ("axes",), "resample": ("axes",), "pad": ("mode",)}[m]:
                ctx.dist[f"forms:{m}:{k} omitted (default)"] += 1
        ctx.dist[f"forms:{m}:positional={call.get('posn', 0)}"] += 1
        if "inplace" not in call:
            ctx.dist[f"forms:{m}:modify_in_place omitted (default)"] += 1
        ctx.mark(("forms", m, tag, ip, "inplace" in call, a0.ndim, tuple(sorted(k for k in call if k in ("axes", "reducer", "mode", "out", "fs")))))
        after = c03.snapshot(ds)
        records.append({"err": err, "recv": c03.safe_view(ds), "ret": c03.safe_view(ret)})
        if err is not None:
            if call["valid"]:
                ctx.pred_fail(f"forms-{m}-raises", f"valid {m} call (documented argument form) raised {err}", sub, observed=err, required="result")
                return
            if after != snap:
                ctx.pred_fail("rejected-call-changed-state", f"{m}() raised {err} ({call.get('why')}) but changed the dataset", sub,
                              observed=c03.snap_diff(snap, after), required="array, origin and sampling bit-identical after a rejected call")
                return
            continue
        if not call["valid"]:
            ctx.dist["forms:malformed-call-accepted"] += 1         # the model decides (compared below); the history ends here
            calls = calls[: i + 1]
            break
        res = ds if ip else ret
        op = call.get("resolved")
        pfx = f"call {i} ({m}, argument forms): "
        if call["valid"] and op is not None and res is not None:
            if m == "bin":
                judge_bin(ctx, sub, op, a0, o0, s0, res, pfx)
            elif m == "resample":
                judge_resample(ctx, sub, op["axes"], op["outs"], a0, o0, s0, res, pfx)
            elif m == "pad" and "out" in call["arg"]:
                out = call["arg"]["out"]
                widths = [(max(0, (o_ - n) // 2), max(0, -((n - o_) // 2))) for o_, n in zip(out, a0.shape)]
                try:
                    back = res.crop(tuple((b, -a) for b, a in widths))
                    if back.array.shape != a0.shape or not np.array_equal(back.array, a0):
                        ctx.pred_fail("pad-crop-roundtrip", pfx + f"pad(output_shape, mode={call.get('mode', 'default')}) followed by cropping the pad "
                                      "widths does not return the original data", sub, observed={"shape": list(back.array.shape)}, required={"shape": list(a0.shape)})
                except Exception as e:  # noqa
                    ctx.pred_fail("padcrop-raises", pfx + f"crop of the pad widths raised {err_name(e)}", sub, observed=err_name(e), required="original data")
        if call.get("follow") and ret is not None:
            ds = ret
    # ---- the model on the same calls
    reqs = [{k: v for k, v in c.items() if k not in ("valid", "resolved", "why", "posn", "mode_kw")} for c in calls]
    ans = drv.ask({"op": "calls", "new": new, "calls": reqs})
    if "err" in ans:
        raise RuntimeError(f"driver error {ans}")
    flags = {"meta_inexact": False, "data_inexact": False, "f32": False}
    for i, (mo, rec, call) in enumerate(zip(ans["ok"][1:], records, calls)):
        sub = dict(case, calls=calls[: i + 1])
        merr = mo["r"].get("err") if isinstance(mo.get("r"), dict) else None
        if merr != rec["err"]:
            ctx.disagree("forms", sub, {"outcome": merr or "ok"}, {"outcome": rec["err"] or "ok"}, note=f"call {i} {call['m']}: outcome")
            return
        if not c03.compare_view(ctx, "forms", sub, mo["recv"], rec["recv"], flags, f"call {i} {call['m']}: receiver"):
            return
        if merr is None and rec["ret"] is not None:
            fl = dict(flags, meta_inexact=call["m"] == "resample")
            if not c03.compare_view(ctx, "forms", sub, mo["r"]["ok"], rec["ret"], fl, f"call {i} {call['m']}: returned"):
                return
        if merr is None and (rec["ret"] is None) != (mo["r"]["ok"] is None):
            ctx.disagree("forms", sub, {"returns": mo["r"]["ok"] is not None}, {"returns": rec["ret"] is not None},
                         note=f"call {i} {call['m']}: in-place / copying (default of modify_in_place)")
            return
    ctx.sample({"stream": "forms", "shape": new["array"]["shape"], "calls": [{k: v for k, v in c.items() if k != "resolved"} for c in calls[:4]]}, limit=3)


def run_forms(ctx, drv, n):
    for c in range(n):
        rng = ctx.rng.fork(170000 + c)
        check_forms_history(ctx, drv, gen_forms_history(rng))
